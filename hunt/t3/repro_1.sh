#!/bin/bash
# C11: `fclones dedupe --dry-run` announces files that the real run cannot open for writing
# (a running program: ETXTBSY, also for root; a 0444 file of a non-root user: EACCES).
# usage: repro_1.sh <checkout>     exit 1 = defect present, 0 = not present
CO=${1:-/repo}
F=$CO/target/debug/fclones
[ -x "$F" ] || F=${1:-/repo}/target/debug/fclones
W=$(mktemp -d) || exit 2
chmod 755 "$W"
trap 'kill $SP 2>/dev/null; rm -rf "$W"' EXIT
mkdir "$W/t"
head -c 5000 /dev/urandom > "$W/t/a"; cp "$W/t/a" "$W/t/b"
cp /bin/sleep "$W/t/p1"; cp /bin/sleep "$W/t/p2"; cp /bin/sleep "$W/t/p3"
touch -d 2020-01-01 "$W"/t/*

# Does the file system clone natively? Otherwise emulate ioctl(FICLONE) by copying (LD_PRELOAD),
# so that an ordinary file is deduplicated successfully and only the defect makes a difference.
PRE=
if ! cp --reflink=always "$W/t/a" "$W/probe" 2>/dev/null; then
  cat > "$W/shim.c" <<'EOC'
#define _GNU_SOURCE
#include <dlfcn.h>
#include <stdarg.h>
#include <errno.h>
#include <unistd.h>
#include <sys/stat.h>
#include <linux/fs.h>
int ioctl(int fd, unsigned long req, ...) {
    va_list ap; va_start(ap, req); void *arg = va_arg(ap, void *); va_end(ap);
    static int (*real)(int, unsigned long, ...) = 0;
    if (!real) real = dlsym(RTLD_NEXT, "ioctl");
    if (req != FICLONE) return real(fd, req, arg);
    int src = (int)(long)arg; struct stat st; if (fstat(src, &st) < 0) return -1;
    char buf[65536]; off_t off = 0;
    while (off < st.st_size) {
        ssize_t r = pread(src, buf, sizeof buf, off); if (r <= 0) break;
        if (pwrite(fd, buf, r, off) != r) { errno = EIO; return -1; }
        off += r;
    }
    return 0;
}
EOC
  if cc -shared -fPIC -o "$W/shim.so" "$W/shim.c" -ldl 2>/dev/null; then PRE="$W/shim.so"; echo "(no reflink support here: FICLONE emulated with LD_PRELOAD)"
  else echo "(no reflink support and no C compiler: judging by the error messages only)"; fi
fi
rm -f "$W/probe"

"$F" group "$W/t" > "$W/rep" 2>/dev/null
"$W/t/p2" 60 & SP=$!
sleep 0.3
DRY=$("$F" dedupe --dry-run < "$W/rep" 2>&1 >/dev/null | grep -o 'Would process [0-9]* files')
REAL_OUT=$(LD_PRELOAD=$PRE "$F" dedupe < "$W/rep" 2>&1)
REAL=$(echo "$REAL_OUT" | grep -o 'Processed [0-9]* files')
echo "running program t/p2:  dry run: $DRY   real run: $REAL"
echo "$REAL_OUT" | grep warn | sed "s|$W/||g"
BAD=0
if echo "$REAL_OUT" | grep -q 'p2 .*Text file busy'; then
  [ "${DRY//[^0-9]/}" != "${REAL//[^0-9]/}" ] && BAD=1
fi
kill $SP 2>/dev/null

# non-root user and a file without write permission (needs root for the set-up, or a non-root caller)
U=
if [ "$(id -u)" = 0 ]; then
  command -v setpriv >/dev/null && U="setpriv --reuid 65534 --regid 65534 --clear-groups"
  [ -n "$U" ] && chown -R 65534:65534 "$W"
fi
if [ "$(id -u)" != 0 ] || [ -n "$U" ]; then
  rm -rf "$W/t"; mkdir "$W/t"; head -c 5000 /dev/urandom > "$W/t/a"; cp "$W/t/a" "$W/t/b"; cp "$W/t/a" "$W/t/c"
  chmod 444 "$W/t/c"; touch -d 2020-01-01 "$W"/t/*
  [ -n "$U" ] && chown -R 65534:65534 "$W/t"
  $U "$F" group "$W/t" > "$W/rep2" 2>/dev/null
  DRY=$($U "$F" dedupe --dry-run < "$W/rep2" 2>&1 >/dev/null | grep -o 'Would process [0-9]* files')
  REAL_OUT=$($U env LD_PRELOAD=$PRE "$F" dedupe < "$W/rep2" 2>&1)
  REAL=$(echo "$REAL_OUT" | grep -o 'Processed [0-9]* files')
  echo "own file t/c with mode 0444, non-root:  dry run: $DRY   real run: $REAL"
  echo "$REAL_OUT" | grep warn | sed "s|$W/||g"
  if echo "$REAL_OUT" | grep -q 't/c .*Permission denied'; then
    [ "${DRY//[^0-9]/}" != "${REAL//[^0-9]/}" ] && BAD=1
  fi
fi
if [ $BAD = 1 ]; then echo "DEFECT PRESENT: dedupe --dry-run announces files the real run refuses"; exit 1; fi
echo "defect not present"; exit 0

#!/bin/bash
# C11: --dry-run announces files that cannot be unlinked/renamed although their directory is writable:
#  (a) a file of another user in a sticky directory (like /tmp), non-root caller
#  (b) an immutable file (chattr +i), any caller including root
# usage: repro_2.sh <checkout>     exit 1 = defect present, 0 = not present (or no variant could be set up)
CO=${1:-/repo}
F=$CO/target/debug/fclones
[ -x "$F" ] || F=${1:-/repo}/target/debug/fclones
W=$(mktemp -d) || exit 2
chmod 755 "$W"
trap 'chattr -i "$W"/t2/y/b 2>/dev/null; rm -rf "$W"' EXIT
BAD=0; TESTED=0
num() { echo "$1" | grep -o '[0-9]* files' | grep -o '[0-9]*'; }

compare() { # $1 = prefix command, $2 = report, rest = operation
  local U=$1 REP=$2; shift 2
  local DRY REAL
  DRY=$($U "$F" "$@" --dry-run < "$REP" 2>&1 >/dev/null | grep -o 'Would process [0-9]* files')
  REAL_OUT=$($U "$F" "$@" < "$REP" 2>&1)
  REAL=$(echo "$REAL_OUT" | grep -o 'Processed [0-9]* files')
  echo "  fclones $(echo "$@" | sed "s|$W/||g"):  dry run: $DRY   real run: $REAL"
  echo "$REAL_OUT" | grep warn | sed "s|$W/||g; s/^/    /"
  [ "$(num "$DRY")" != "$(num "$REAL")" ] && BAD=1
}

# (a) sticky directory
if [ "$(id -u)" = 0 ] && command -v setpriv >/dev/null; then
  U="setpriv --reuid 65534 --regid 65534 --clear-groups"
  mkdir -p "$W/t/own" "$W/t/shared" "$W/out"
  head -c 5000 /dev/urandom > "$W/t/own/a"; cp "$W/t/own/a" "$W/t/shared/b"   # shared/b belongs to root
  chown -R 65534:65534 "$W/t/own" "$W/out"
  chmod 1777 "$W/t/shared"
  touch -d 2020-01-01 "$W"/t/*/*
  $U "$F" group "$W/t" > "$W/rep" 2>/dev/null
  echo "(a) t/shared is drwxrwxrwt root, t/shared/b belongs to root, caller is uid 65534:"
  TESTED=1
  compare "$U" "$W/rep" remove
  compare "$U" "$W/rep" link
  compare "$U" "$W/rep" link --soft
  compare "$U" "$W/rep" move "$W/out"
  ls -l "$W/t/shared" | sed 's/^/    /'
else
  echo "(a) skipped: needs root and setpriv to create a file of another user"
fi

# (b) immutable file
mkdir -p "$W/t2/x" "$W/t2/y" "$W/out2"
head -c 5000 /dev/urandom > "$W/t2/x/a"; cp "$W/t2/x/a" "$W/t2/y/b"
touch -d 2020-01-01 "$W"/t2/*/*
"$F" group "$W/t2" > "$W/rep2" 2>/dev/null
if chattr +i "$W/t2/y/b" 2>/dev/null; then
  echo "(b) t2/y/b is immutable (chattr +i):"
  TESTED=1
  compare "" "$W/rep2" remove
  compare "" "$W/rep2" link
  compare "" "$W/rep2" move "$W/out2"
  chattr -i "$W/t2/y/b"
else
  echo "(b) skipped: chattr +i not possible here"
fi
[ $TESTED = 0 ] && { echo "no variant could be set up"; exit 0; }
if [ $BAD = 1 ]; then echo "DEFECT PRESENT: the dry run announces files the real run cannot remove or replace"; exit 1; fi
echo "defect not present"; exit 0

#!/bin/bash
# C04: -m with a local wall-clock time that exists twice (end of DST) is resolved to the LATER instant,
# although parse_date_time() means to take the earlier, safe one (chrono 0.4.31 orders Ambiguous by offset).
CHECKOUT=${1:-/repo}
F=${1:-/repo}/target/debug/fclones
[ -x "$F" ] || F="$CHECKOUT/target/debug/fclones"
if [ ! -e /usr/share/zoneinfo/Europe/Warsaw ]; then echo "no tzdata for Europe/Warsaw, cannot test"; exit 0; fi
export TZ=Europe/Warsaw
T=$(mktemp -d) || exit 2
cd "$T" || exit 2
mkdir d
printf 'ORIGINAL-bytes-0123456789\n' > d/a
printf 'ORIGINAL-bytes-0123456789\n' > d/b
touch -d '2024-10-26 10:00:00 UTC' d/a d/b
"$F" group d > rep.txt 2> group.log
# d/a is rewritten at 02:45 CEST (= 00:45 UTC), during the FIRST pass of the clock through 02:xx on 2024-10-27
printf 'REWRITTEN-bytes-123456789\n' > d/a
touch -d '2024-10-27 00:45:00 UTC' d/a
echo "d/a modified at: $(date -r d/a '+%F %T %Z (%z)')"
echo "--- remove -m '2024-10-27 02:30:00'   (02:30 CEST = 00:30 UTC is the earlier of the two instants)"
"$F" remove -m '2024-10-27 02:30:00' < rep.txt 2>&1 | cut -c1-220
ls -l d
rc=0
if [ ! -e d/b ]; then
  echo "DEFECT PRESENT: limit taken as 02:30 CET (01:30 UTC); d/a (00:45 UTC) passed as unmodified, d/b removed, ORIGINAL bytes gone"
  rc=1
else
  echo "defect not present"
fi
cd /; rm -rf "$T"
exit $rc

#!/bin/bash
# C08/C02: --isolate sub-grouping ignores hard links that span roots; with -n 2 only ONE physical replica survives.
CHECKOUT=${1:-/repo}
F=${1:-/repo}/target/debug/fclones
[ -x "$F" ] || F="$CHECKOUT/target/debug/fclones"
T=$(mktemp -d) || exit 2
cd "$T" || exit 2
mkdir r1 r2 r3
echo "precious content" > r1/a
ln r1/a r2/a            # r2/a is a hard link of r1/a: same inode, ONE stored replica
cp r1/a r3/a            # the second (and last) real replica
echo "--- before:"; ls -li r1/a r2/a r3/a
"$F" group --isolate -n 2 r1 r2 r3 > rep.txt 2> group.log
echo "--- report:"; grep -v '^#' rep.txt
"$F" remove < rep.txt > remove.log 2>&1
echo "--- after remove (n inherited from the report = 2):"; ls -li r1 r2 r3
replicas=$(find r1 r2 r3 -type f -printf '%i\n' | sort -u | wc -l)
echo "distinct stored replicas left: $replicas (2 requested by -n 2)"

# variant with the default n = 1: hard links of one file are not kept/dropped as a whole
mkdir v; cd v; mkdir r1 r2; echo "other content" > r1/b; ln r1/b r2/b
"$F" group --isolate r1 r2 > rep.txt 2>/dev/null
"$F" remove < rep.txt > remove.log 2>&1
echo "--- variant n=1, r1/b and r2/b are one file:"; ls r1 r2
[ -e r2/b ] || echo "variant: r2/b (hard link of the kept r1/b) was removed: nothing reclaimed, link set split"
cd ..
rc=0
if [ "$replicas" -lt 2 ]; then
  echo "DEFECT PRESENT: r3/a, the only second replica, was removed; r1/a and r2/a are the same inode"
  rc=1
else
  echo "defect not present"
fi
cd /; rm -rf "$T"
exit $rc

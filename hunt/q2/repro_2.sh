#!/bin/bash
# C04: -m/--modified-before with a time-zone abbreviation (e.g. "JST", as printed by `date`):
# the zone is silently ignored and the wall-clock time is taken for LOCAL time.
CHECKOUT=${1:-/repo}
F=${1:-/repo}/target/debug/fclones
[ -x "$F" ] || F="$CHECKOUT/target/debug/fclones"
export TZ=UTC
T=$(mktemp -d) || exit 2
cd "$T" || exit 2
mkdir d
printf 'ORIGINAL-bytes-0123456789\n' > d/a
printf 'ORIGINAL-bytes-0123456789\n' > d/b
touch -d '2020-01-01 00:00:00 UTC' d/a d/b
"$F" group d > rep.txt 2> group.log
T0=$(date +%s)                       # the moment the user considers "safe": the time of the report
sleep 1.2
printf 'REWRITTEN-bytes-123456789\n' > d/a     # ordinary write AFTER T0, same length, mtime = now
# The user states the limit T0 as shown by a clock in Tokyo (what `TZ=Asia/Tokyo date` prints, %Z = JST)
LIMIT_JST=$(date -u -d "@$((T0 + 9*3600))" '+%Y-%m-%d %H:%M:%S JST')
LIMIT_NUM=$(date -u -d "@$((T0 + 9*3600))" '+%Y-%m-%d %H:%M:%S +0900')
echo "T0 = $(date -u -d @$T0 '+%F %T UTC') ; d/a rewritten at $(date -u -r d/a '+%F %T UTC')"
echo "--- control: -m '$LIMIT_NUM' (same instant, numeric offset), dry run:"
"$F" remove --dry-run -m "$LIMIT_NUM" < rep.txt 2>&1 | grep -v Started | cut -c1-220
echo "--- -m '$LIMIT_JST':"
"$F" remove -m "$LIMIT_JST" < rep.txt 2>&1 | cut -c1-220
ls -l d
rc=0
if [ ! -e d/b ]; then
  echo "DEFECT PRESENT: d/b removed although d/a was rewritten after the given limit; the ORIGINAL bytes are gone:"
  grep -rl ORIGINAL d || echo "  (no file contains ORIGINAL any more)"
  rc=1
else
  echo "defect not present"
fi
cd /; rm -rf "$T"
exit $rc

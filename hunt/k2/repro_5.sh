#!/bin/bash
# C13/C06: with nested --isolate roots the set of reported groups depends on the order of the roots.
CHECKOUT=${1:-/tmp/hunt/k2}
F="${1:-/tmp/hunt/k2}/target/debug/fclones"
[ -x "$F" ] || F="$CHECKOUT/target/debug/fclones"
T=$(mktemp -d)
trap 'rm -rf "$T"' EXIT
cd "$T" || exit 2
mkdir -p d/sub
echo hello > d/a
echo hello > d/sub/b
echo "--- fclones group --isolate d d/sub"
"$F" group --isolate d d/sub 2>/dev/null | grep -v '^#' | sort > r1.txt; cat r1.txt
echo "--- fclones group --isolate d/sub d"
"$F" group --isolate d/sub d 2>/dev/null | grep -v '^#' | sort > r2.txt; cat r2.txt
if ! diff -q r1.txt r2.txt > /dev/null; then
    echo "DEFECT PRESENT: the same two roots in a different order give a different set of duplicates"
    exit 1
fi
echo "not reproduced"
exit 0

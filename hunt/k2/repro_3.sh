#!/bin/bash
# C03: an empty line in the --stdin list is taken as "." and the whole working directory is scanned.
CHECKOUT=${1:-/tmp/hunt/k2}
F="${1:-/tmp/hunt/k2}/target/debug/fclones"
[ -x "$F" ] || F="$CHECKOUT/target/debug/fclones"
T=$(mktemp -d)
trap 'rm -rf "$T"' EXIT
cd "$T" || exit 2
mkdir selected other
echo hello > selected/a
echo hello > selected/b
echo precious > other/x
echo precious > other/y
echo "--- input list: 'selected' followed by an empty line"
printf 'selected\n\n' | "$F" group --stdin 2>/dev/null > out.txt
grep -v '^#' out.txt
if grep -q '/other/' out.txt; then
    echo "DEFECT PRESENT: files under other/ were never selected, but are reported as duplicates"
    echo "--- and the dedupe commands would act on them:"
    "$F" remove --dry-run < out.txt 2>/dev/null
    exit 1
fi
echo "not reproduced"
exit 0

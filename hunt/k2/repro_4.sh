#!/bin/bash
# C03: when one name of a hard-linked file vanishes during the scan, the other names of the
# same file, which are still there and readable, are dropped from the result without a warning.
CHECKOUT=${1:-/tmp/hunt/k2}
F="${1:-/tmp/hunt/k2}/target/debug/fclones"
[ -x "$F" ] || F="$CHECKOUT/target/debug/fclones"
T=$(mktemp -d)
trap 'rm -rf "$T"' EXIT
cd "$T" || exit 2
SIZE=${SIZE:-400M}

attempt() {   # $1 = name of the hard link to delete while the contents are being hashed
    local victim=$1 dir="$T/run-$1"
    mkdir "$dir"
    # c: an independent copy, hashed first (smaller inode number = smaller location, no extents)
    truncate -s "$SIZE" "$dir/c"
    truncate -s "$SIZE" "$dir/a"
    if [ "$(stat -c %i "$dir/c")" -gt "$(stat -c %i "$dir/a")" ]; then
        mv "$dir/c" "$dir/tmp"; mv "$dir/a" "$dir/c"; mv "$dir/tmp" "$dir/a"
    fi
    ln "$dir/a" "$dir/b"
    # --match-links not needed: a+b is one replica, c the second one -> one group of 3 paths expected
    "$F" group "$dir" > "$dir.out" 2> "$dir.err" &
    local pid=$!
    # the contents stage starts right after this message; c is hashed first and takes a while
    for _ in $(seq 1 2000); do
        grep -q 'grouping by suffix' "$dir.err" 2>/dev/null && break
        sleep 0.005
    done
    rm "$dir/$victim"
    wait $pid
    echo "--- deleted $victim while the contents of c were being hashed; report:"
    grep -v '^#' "$dir.out"
    echo "--- warnings:"
    grep -i 'warn' "$dir.err"
    local survivor=a; [ "$victim" = a ] && survivor=b
    if ! grep -q "/$survivor\$" "$dir.out" && ! grep -qi "warn" "$dir.err"; then
        echo "=> $survivor still exists ($(stat -c '%s bytes, %h link(s)' "$dir/$survivor")), is identical to c, but is not reported and nothing was logged"
        return 1
    fi
    return 0
}

attempt a; r1=$?
attempt b; r2=$?
if [ $r1 -ne 0 ] || [ $r2 -ne 0 ]; then
    echo "DEFECT PRESENT: a surviving hard link was silently dropped together with the vanished one"
    exit 1
fi
echo "not reproduced"
exit 0

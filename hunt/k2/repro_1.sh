#!/bin/bash
# C13/C03: the start-up probe of the --transform program inherits stdin and stdout of fclones.
# With --stdin the probe (here: cat) eats the list of input paths and echoes it into the report.
CHECKOUT=${1:-/tmp/hunt/k2}
F="${1:-/tmp/hunt/k2}/target/debug/fclones"
[ -x "$F" ] || F="$CHECKOUT/target/debug/fclones"
T=$(mktemp -d)
trap 'rm -rf "$T"' EXIT
cd "$T" || exit 2
mkdir d
echo hello > d/a
echo hello > d/b
RUNS=${RUNS:-600}
bad=0
first=""
for i in $(seq 1 "$RUNS"); do
    out=$(printf 'd\n' | "$F" group --stdin --transform cat 2>/dev/null)
    body=$(printf '%s\n' "$out" | grep -v '^#')
    n=$(printf '%s\n' "$body" | grep -c '/d/[ab]$')
    if [ "$n" != 2 ] || printf '%s\n' "$out" | grep -qx 'd'; then
        bad=$((bad + 1))
        first="run $i printed:
$out"
        break
    fi
done
echo "runs tried: $i (limit $RUNS), wrong reports: $bad"
if [ "$bad" -gt 0 ]; then
    echo "--- first wrong report (expected one group with d/a and d/b, and no stray line 'd'):"
    echo "$first"
    echo "DEFECT PRESENT: the probe of the transform program consumed the paths given on stdin"
    exit 1
fi
echo "not reproduced"
exit 0

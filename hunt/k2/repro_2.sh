#!/bin/bash
# C13/C06: --isolate cannot be used with --stdin: validate() counts the positional arguments only.
CHECKOUT=${1:-/tmp/hunt/k2}
F="${1:-/tmp/hunt/k2}/target/debug/fclones"
[ -x "$F" ] || F="$CHECKOUT/target/debug/fclones"
T=$(mktemp -d)
trap 'rm -rf "$T"' EXIT
cd "$T" || exit 2
mkdir d1 d2
echo hello > d1/a
echo hello > d1/b
echo hello > d2/c
echo "--- roots as arguments:"
"$F" group --isolate d1 d2 2>/dev/null | grep -v '^#' > args.txt
cat args.txt
echo "--- the same roots on stdin:"
printf 'd1\nd2\n' | "$F" group --isolate --stdin > stdin.txt 2> stdin.err
rc=$?
grep -v '^#' stdin.txt
cat stdin.err
echo "exit code: $rc"
if [ "$rc" -ne 0 ] || ! diff -q <(grep -v '^#' stdin.txt) args.txt > /dev/null; then
    echo "DEFECT PRESENT: --stdin --isolate is rejected / gives a different result than the same roots as arguments"
    exit 1
fi
echo "not reproduced"
exit 0

#!/bin/bash
# C04: a group member that was replaced by a symbolic link after `group` is still treated as an
# unchanged regular file (metadata is read with stat(), which follows the link), it is chosen as
# the retained replica and the last real copy of the reported content is removed.
# usage: repro_2.sh <checkout>     exit 1 = defect present, 0 = not present
CHECKOUT=${1:-/tmp/hunt/h2}
F="$CHECKOUT/target/debug/fclones"
[ -x "$F" ] || { echo "no binary at $F"; exit 2; }
T=$(mktemp -d)
cd "$T" || exit 2

mkdir t other
printf 'AAAAAAAAAA\n' > t/a          # duplicate pair a, b
cp t/a t/b
printf 'BBBBBBBBBB\n' > other/v2     # unrelated old file of the same length, not scanned
sleep 0.2
"$F" group "$T/t" > rep.txt 2> group.log || { echo "group failed"; cat group.log; exit 2; }
echo "--- report"; grep -v '^#' rep.txt
sleep 0.2

# after the report was made, t/a is replaced by a symlink (ordinary `ln -sf`, the link itself has a fresh mtime)
ln -sf ../other/v2 t/a
echo "--- tree before remove"; ls -l --time-style=full-iso t

echo "--- fclones remove"
"$F" remove < rep.txt 2>&1
echo "--- tree afterwards"; ls -l t

if grep -rqs 'AAAAAAAAAA' "$T/t" "$T/other"; then
  echo "OK: content AAAAAAAAAA still stored somewhere"
  exit 0
fi
echo "DEFECT: t/b (the last copy of AAAAAAAAAA) was removed although t/a no longer holds that content (t/a -> $(readlink t/a): $(cat t/a))"
exit 1

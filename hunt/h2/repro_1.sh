#!/bin/bash
# C02: `group -S --isolate` + `remove` (or `link --soft`) destroys the last copy of a content.
# A file and a symbolic link to it that live under two different --isolate roots are put into two
# different sub-groups (prefix grouping overrides grouping by file id), so the "duplicate"
# sub-group that is dropped can be the one holding the only regular file.
# usage: repro_1.sh <checkout>     exit 1 = defect present, 0 = not present
CHECKOUT=${1:-/tmp/hunt/h2}
F="$CHECKOUT/target/debug/fclones"
[ -x "$F" ] || { echo "no binary at $F"; exit 2; }
T=$(mktemp -d)
cd "$T" || exit 2

# a "symlink farm" next to the directory that holds the data
mkdir current data
echo "the only copy of this content" > data/report.txt
ln -s ../data/report.txt current/report.txt
sleep 0.1

"$F" group -S --isolate current data > rep.txt 2> group.log || { echo "group failed"; cat group.log; exit 2; }
echo "--- report"; grep -v '^#' rep.txt
echo "--- fclones remove"
"$F" remove < rep.txt 2>&1
echo "--- tree afterwards"
ls -l current data

# (criterion: the content is still stored in a regular file; whether the link itself survives is not part of C02)
if [ -f data/report.txt ] && [ ! -L data/report.txt ] && [ "$(cat data/report.txt 2>/dev/null)" = "the only copy of this content" ]; then
  echo "OK: content still present"
  exit 0
fi
echo "DEFECT: the only regular file holding the content was removed; current/report.txt is now a dangling symlink"
exit 1

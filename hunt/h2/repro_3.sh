#!/bin/bash
# C02: `fclones link` with a report made by `group -S`: the first retained path can be a relative
# symbolic link; link(2) does not follow it, so the dropped file is replaced by a *copy of the
# symlink*, which in another directory is dangling (or points to an unrelated file).
# The same happens with `move`, which renames the relative symlink into the target directory.
# usage: repro_3.sh <checkout>     exit 1 = defect present, 0 = not present
CHECKOUT=${1:-/tmp/hunt/h2}
F="$CHECKOUT/target/debug/fclones"
[ -x "$F" ] || { echo "no binary at $F"; exit 2; }
T=$(mktemp -d)
cd "$T" || exit 2
bad=0

mkdir d1 d2
echo "hello world content" > d1/target
ln -s target d1/a_link              # relative symlink, sorts before d1/target
cp d1/target d2/F
sleep 0.1
"$F" group -S "$T/d1" "$T/d2" > rep.txt 2> group.log || { echo "group failed"; cat group.log; exit 2; }
echo "--- report"; grep -v '^#' rep.txt
echo "--- fclones link"
"$F" link < rep.txt 2>&1
ls -l d1 d2
if [ "$(cat d2/F 2>/dev/null)" != "hello world content" ]; then
  echo "DEFECT(link): d2/F no longer reads back its bytes: it is now '$(readlink d2/F)' (a hard link to the symlink d1/a_link)"
  bad=1
fi

# variant: move
T2=$(mktemp -d)
cd "$T2" || exit 2
mkdir keep t ext
echo "content-one-xxxxxxxx" > keep/k
cp keep/k ext/X                     # not scanned
ln -s ../ext/X t/S
sleep 0.1
"$F" group -S "$T2/keep" "$T2/t" > rep.txt 2> group.log
echo "--- report (move variant)"; grep -v '^#' rep.txt
echo "--- fclones move"
"$F" move "$T2/out" < rep.txt 2>&1
moved="$T2/out$T2/t/S"
ls -l "$(dirname "$moved")"
if [ -L "$moved" ] && [ "$(cat "$moved" 2>/dev/null)" != "content-one-xxxxxxxx" ]; then
  echo "DEFECT(move): moved entry $moved is a dangling symlink; bytes are not readable under the target directory"
  bad=1
fi

[ $bad = 1 ] && exit 1
echo "OK"
exit 0

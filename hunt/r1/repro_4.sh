#!/bin/bash
# C01: sibling of D114. A group whose paths are all one inode (reported with -H) is passed through
# every stage without being looked at again (rehash pre-filter unique_count() > 1), so the check
# added by dd67068 never sees it. A path replaced after the scan is reported as identical.
F="${1:-/repo}/target/debug/fclones"
T=$(mktemp -d); cd "$T" || exit 2
mkdir t; echo hello > t/a; ln t/a t/b
head -c 4000000 /dev/urandom > t/big1; cp t/big1 t/big2       # keeps the run busy for some seconds (sha3-512, debug build)
"$F" group t -H --hash-fn sha3-512 > out.txt 2> err.txt &
for i in $(seq 1 200); do grep -q 'grouping by size' err.txt && break; sleep 0.05; done
echo WORLD > new; mv new t/b                                   # an editor / rsync replaces b
wait
grep -v '^#' out.txt; grep -i warn err.txt
echo "a: $(cat t/a)   b: $(cat t/b)"
bad=0
if grep -qx "    $T/t/b" out.txt && ! cmp -s t/a t/b; then echo "DEFECT: a and b are reported as identical, they differ"; bad=1; fi
cd /; rm -rf "$T"; exit $bad

#!/bin/bash
# C01/C03: one hash per inode is shared by all hard links also when the transform is given the
# path itself (--no-copy), i.e. when its output may depend on the path (cf. D80/D100).
F="${1:-/repo}/target/debug/fclones"
T=$(mktemp -d); cd "$T" || exit 2
mkdir -p t/d1 t/d2 t/d3
echo hello > t/d1/a; ln t/d1/a t/d2/b; echo hello > t/d3/a
echo "transform outputs: d1/a -> $(basename t/d1/a), d2/b -> $(basename t/d2/b), d3/a -> $(basename t/d3/a)"
echo "expected report: exactly one group {t/d1/a, t/d3/a}"
bad=0
for i in 1 2 3 4 5 6; do
  out=$("$F" group t --no-copy --transform 'basename $IN' 2>/dev/null | grep '^    /' | sed "s|$T/||" | tr -d ' ' | tr '\n' ' ')
  echo "run $i reported: ${out:-<nothing>}"
  [ "$out" = "t/d1/a t/d3/a " ] || bad=1
done
out=$("$F" group t -H --no-copy --transform 'basename $IN' 2>/dev/null | grep '^    /' | sed "s|$T/||" | tr -d ' ' | tr '\n' ' ')
echo "with -H reported: ${out:-<nothing>}   (expected: t/d1/a t/d3/a)"
[ "$out" = "t/d1/a t/d3/a " ] || bad=1
cd /; rm -rf "$T"
[ $bad = 1 ] && echo "DEFECT: d2/b is given the transform output of d1/a (or the other way round)"
exit $bad

#!/bin/bash
# C15/C03 (the run must finish with a report): race in transform.rs execute() introduced by bd69594.
# When the transform program exits before fclones has opened the reading end of the $OUT pipe,
# the "pipe keeper" is closed first and File::open(fifo) blocks forever.
F="${1:-/repo}/target/debug/fclones"
T=$(mktemp -d); cd "$T" || exit 2
mkdir t; for i in $(seq 1 600); do echo "data$((i%50))" > t/f$i; done
PIN=""; command -v taskset >/dev/null && PIN="taskset -c 0,1"   # few CPUs, many threads: threads get descheduled
hangs=0
for k in 1 2 3 4 5 6 7 8; do
  timeout 40 $PIN "$F" group t --threads 64 --transform 'dd if=$IN of=$OUT' > out.txt 2> err.txt; rc=$?
  echo "run $k: exit code $rc, groups reported: $(grep -c '^[0-9a-f]\{32\}' out.txt) (expected 50)"
  if [ $rc = 124 ]; then hangs=$((hangs+1)); fi
  [ $hangs -ge 2 ] && break
done
pkill -f "$T" 2>/dev/null
cd /; rm -rf "$T"
if [ $hangs -gt 0 ]; then echo "DEFECT: $hangs run(s) never finished (killed by timeout 40; a good run needs < 5 s)"; exit 1; fi
echo "no hang observed"; exit 0

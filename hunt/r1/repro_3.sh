#!/bin/bash
# C12: on a file system with 1 s time stamps, the "is the file too young to be cached" check
# (cache.rs is_racy, called from HashCache::put) uses the time *after* the file has been hashed.
# A same-length rewrite in the second of the last modification, after fclones has read that part,
# ends up in the cache as a valid entry when hashing takes longer than 2 s.
# Needs root (loop mount of an ext4 image with 128-byte inodes = 1 s time stamps).
F="${1:-/repo}/target/debug/fclones"
T=$(mktemp -d); cd "$T" || exit 2
cleanup() { cd /; umount "$T/mnt" 2>/dev/null; rm -rf "$T"; }
trap cleanup EXIT
dd if=/dev/zero of=img bs=1M count=24 status=none
mkfs.ext4 -q -I 128 img >/dev/null 2>&1 || { echo "cannot create the file system, not tested"; exit 0; }
mkdir mnt; mount -o loop img mnt 2>/dev/null || { echo "cannot mount, not tested"; exit 0; }
export XDG_CACHE_HOME="$T/cache" HOME="$T"
mkdir mnt/t
head -c 6000000 /dev/urandom > mnt/t/a; cp mnt/t/a mnt/t/b; sync
# wait for the beginning of a second
while [ "$(date +%N | cut -c1-2)" -gt 03 ]; do sleep 0.01; done
touch mnt/t/a mnt/t/b             # "the files were last written in this second" (time stamps have no fraction here)
S=$(date +%s.%N)
"$F" group mnt/t --cache --hash-fn sha3-512 > run1.txt 2> err1.txt &   # slow hash (debug build): several seconds
sleep 0.8
# same second: rewrite one byte of a, at an offset that has been read already; mtime/ctime/length stay the same
printf 'X' | dd of=mnt/t/a bs=1 seek=200000 conv=notrunc status=none
E=$(date +%s.%N)
wait
echo "touch at $S, rewrite at $E, mtime of a: $(stat -c %y mnt/t/a)"
echo "run 1 (concurrent with the rewrite) reported $(grep -c '^    /' run1.txt) files"
cmp -s mnt/t/a mnt/t/b && { echo "files are equal?!"; exit 2; }
sleep 2.5
"$F" group mnt/t --hash-fn sha3-512 2>/dev/null | grep -v '^#' > uncached.txt
"$F" group mnt/t --hash-fn sha3-512 --cache 2>/dev/null | grep -v '^#' > cached.txt
echo "--- uncached run now:"; cat uncached.txt
echo "--- cached run now:"; cat cached.txt
if ! cmp -s cached.txt uncached.txt; then
  echo "DEFECT: the cached run differs from the uncached run (a and b differ at offset 200000)"; exit 1
fi
echo "no difference"; exit 0

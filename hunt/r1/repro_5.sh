#!/bin/bash
# C03/C15: the check added by dd67068 (group.rs rehash, fg.retain) drops a hard-linked path that has
# been replaced since the scan without any message, although it is a readable file selected by the
# scan - here it even still is a duplicate of the others.
F="${1:-/repo}/target/debug/fclones"
T=$(mktemp -d); cd "$T" || exit 2
mkdir t
python3 - <<'PY'
import os
for i in range(4000):
    with open("t/x%04d" % i, "wb") as f: f.write(os.urandom(20000))   # same size, all different: a long prefix stage
PY
head -c 20000 /dev/urandom > t/a; ln t/a t/b; cp t/a t/c; cp t/a new
"$F" group t --hash-fn sha3-512 > out.txt 2> err.txt &
for i in $(seq 1 400); do grep -q 'grouping by paths' err.txt && break; sleep 0.02; done
mv new t/b            # b is saved again (new inode, same content)
wait
grep -v '^#' out.txt; grep -i warn err.txt
bad=0
if cmp -s t/a t/b && ! grep -q "^    $T/t/b" out.txt && ! grep -q "t/b" err.txt; then
  echo "DEFECT: t/b (readable, identical to a and c) is neither reported nor mentioned in a warning"; bad=1
fi
cd /; rm -rf "$T"; exit $bad

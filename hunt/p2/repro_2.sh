#!/bin/bash
# C03: with --in-place, a transform program that removes or renames its (temporary) input file,
# e.g. `gzip $IN`, makes every scanned file disappear from the result without a single warning.
CHECKOUT=${1:-/repo}
F=${1:-/repo}/target/debug/fclones
W=$(mktemp -d)
trap 'rm -rf "$W"' EXIT
mkdir -p "$W/t" "$W/tmp"
echo same > "$W/t/a"; echo same > "$W/t/b"; echo diff > "$W/t/c"
export TMPDIR="$W/tmp"
echo "== fclones group --in-place --transform 'gzip \$IN'"
"$F" group "$W/t" --in-place --transform 'gzip $IN' -f fdupes >"$W/out" 2>"$W/err"
echo "exit status: $?"
sed "s|$W/||" "$W/out"; sed 's/^[^ ]* [^ ]* //' "$W/err"
echo "== fclones group --unique --in-place --transform 'gzip \$IN' (c is unique and readable)"
"$F" group "$W/t" --unique --in-place --transform 'gzip $IN' -f fdupes 2>"$W/err2" | sed "s|$W/||"
echo "== for comparison, a transform that fails otherwise is reported for each file:"
"$F" group "$W/t" --in-place --transform 'false $IN' -f fdupes 2>&1 >/dev/null | grep -c "warn: Failed to compute hash"
reported=$(grep -c 't/' "$W/out")
warnings=$(cat "$W/err" "$W/err2" | grep -c -i "warn\|error")
if [ "$reported" = 0 ] && [ "$warnings" = 0 ]; then
  echo "DEFECT: 3 readable files were scanned, none was reported and no warning or error was logged"
  exit 1
fi
echo "OK: not reproduced (reported=$reported warnings=$warnings)"
exit 0

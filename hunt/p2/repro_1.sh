#!/bin/bash
# C03: the suffix stage merges groups that the prefix stage had told apart (old_hash ^ new_hash cancels),
# so with --skip-content-hash two different classes of duplicates are reported as ONE group, and with
# --rf-under 3 --skip-content-hash both classes disappear from the report.
CHECKOUT=${1:-/repo}
F=${1:-/repo}/target/debug/fclones
W=$(mktemp -d)
trap 'rm -rf "$W"' EXIT
mkdir "$W/t"
SIZE=$((64*1024*1024))   # >= suffix threshold of every device type (64 KiB on SSD, 64 MiB otherwise)
mk() { # $1 = file, $2 = fill character; sparse file: 4 KiB of the character, a hole, 4 KiB of the character
  head -c 4096 /dev/zero | tr '\0' "$2" > "$1"
  truncate -s $((SIZE-4096)) "$1"
  head -c 4096 /dev/zero | tr '\0' "$2" >> "$1"
}
mk "$W/t/a1" A; cp --sparse=always "$W/t/a1" "$W/t/a2"
mk "$W/t/b1" B; cp --sparse=always "$W/t/b1" "$W/t/b2"
# a1 == a2, b1 == b2, but a* and b* differ in their first 4 KiB and in their last 4 KiB.
# --max-suffix-size 4KiB is the default suffix size on an SSD; it is given explicitly so that the
# outcome does not depend on the device type of the scratch directory.
OPTS="--max-suffix-size 4KiB --skip-content-hash"
echo "== fclones group $OPTS (expected: 2 groups of 2 files)"
"$F" group $OPTS -f fdupes "$W/t" 2>"$W/err1" | sed "s|$W/||" | tee "$W/out1"
grep "candidates after" "$W/err1" | sed 's/^[^ ]* [^ ]* //'
echo "== fclones group --rf-under 3 $OPTS (expected: the same 2 groups, each has 2 < 3 replicas)"
"$F" group --rf-under 3 $OPTS -f fdupes "$W/t" 2>/dev/null | sed "s|$W/||" | tee "$W/out2"
echo "== for reference: fclones group --rf-under 3 --max-suffix-size 4KiB (with the content hash)"
"$F" group --rf-under 3 --max-suffix-size 4KiB -f fdupes "$W/t" 2>/dev/null | sed "s|$W/||"
groups1=$(grep -c '^$' "$W/out1")
files2=$(grep -c 't/' "$W/out2")
if [ "$groups1" != 2 ] || [ "$files2" != 4 ]; then
  echo "DEFECT: groups reported without --rf-under: $groups1 (expected 2); files reported with --rf-under 3: $files2 (expected 4)"
  exit 1
fi
echo "OK: not reproduced"
exit 0

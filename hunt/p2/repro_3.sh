#!/bin/bash
# C12: with --no-copy the transform program is given the real path of the file, but the cache entry
# is keyed by the file id only. After a file is moved, the cached run still serves the hash of the
# output produced for the old path, so cached and uncached runs disagree.
CHECKOUT=${1:-/repo}
F=${1:-/repo}/target/debug/fclones
W=$(mktemp -d)
trap 'rm -rf "$W"' EXIT
mkdir -p "$W/t/d1" "$W/t/d2" "$W/t/d3" "$W/cache"
echo one > "$W/t/d1/a"; echo two > "$W/t/d2/b"; echo thr > "$W/t/d3/c"
export XDG_CACHE_HOME="$W/cache"
T='dirname $IN'   # the same kind of path dependent program as used for D80
run() { "$F" group "$W/t" --no-copy --transform "$T" -f fdupes "$@" 2>/dev/null | sed "s|$W/||"; }
echo "== run 1 (--cache): every file is in its own directory, no group expected"
run --cache
mv "$W/t/d2/b" "$W/t/d1/b"
echo "== after 'mv t/d2/b t/d1/b': run 2 with --cache"
run --cache | tee "$W/cached"
echo "== the same without --cache"
run | tee "$W/uncached"
if ! cmp -s "$W/cached" "$W/uncached"; then
  echo "DEFECT: the cached run differs from the uncached run after a move"
  exit 1
fi
echo "OK: not reproduced"
exit 0

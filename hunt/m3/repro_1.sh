#!/bin/bash
# C08: remove/link/move/dedupe panic on a group that consists of symbolic links only
# usage: repro_1.sh <checkout path>   (builds nothing)
CHECKOUT="${1:-/tmp/hunt/m3}"
BIN="$CHECKOUT/target/debug/fclones"
[ -x "$BIN" ] || BIN=/tmp/hunt/m3/target/debug/fclones
export RUST_BACKTRACE=0
T=$(mktemp -d) || exit 2
cd "$T" || exit 2
mkdir d d2 ext
echo hello > ext/e1; echo hello > ext/e2          # two identical files outside the scanned tree
ln -s ../ext/e1 d/l1; ln -s ../ext/e2 d/l2        # the scanned tree has only links to them
echo other > d2/x; cp d2/x d2/y                   # an ordinary group of duplicates
sleep 1.1
"$BIN" group -S d d2 > rep.txt 2>/dev/null
echo "== report (group -S d d2):"; grep -v '^#' rep.txt
defect=0
for cmd in "remove --dry-run" "link --dry-run" "link -s --dry-run" "move --dry-run $T/out" "remove"; do
  "$BIN" $cmd < rep.txt > out.txt 2> err.txt; rc=$?
  echo "== fclones $cmd: exit code $rc"
  grep -h -e panicked -e 'No files would be left' err.txt | sed 's/^/   /'
  if [ $rc -eq 101 ] || grep -q panicked err.txt; then defect=1; fi
done
echo "== after the real 'remove': d:" $(ls d) " d2:" $(ls d2)
if [ $defect -eq 1 ]; then
  echo "DEFECT PRESENT: the dedupe commands panic (exit code 101) on the group of symbolic links;"
  echo "the run is aborted in the middle, without the summary, possibly after other groups were processed"
  exit 1
fi
echo "defect not present"
exit 0

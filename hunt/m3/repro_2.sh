#!/bin/bash
# C08: --name and --path of the dedupe commands are OR-ed: a second restriction widens the set of removed files
# usage: repro_2.sh <checkout path>   (builds nothing)
CHECKOUT="${1:-/tmp/hunt/m3}"
BIN="$CHECKOUT/target/debug/fclones"
[ -x "$BIN" ] || BIN=/tmp/hunt/m3/target/debug/fclones
T=$(mktemp -d) || exit 2
cd "$T" || exit 2
mkdir keep trash
echo photo > keep/a.jpg; cp keep/a.jpg keep/b.jpg; cp keep/a.jpg keep/e.txt
cp keep/a.jpg trash/c.jpg; cp keep/a.jpg trash/d.txt
sleep 1.1
"$BIN" group . > rep.txt 2>/dev/null
echo "== report:"; grep -v '^#' rep.txt
echo "== remove --dry-run --name '*.jpg'"
"$BIN" remove --dry-run --name '*.jpg' < rep.txt 2>/dev/null | tee name.txt
echo "== remove --dry-run --path 'trash/**'"
"$BIN" remove --dry-run --path 'trash/**' < rep.txt 2>/dev/null | tee path.txt
echo "== remove --dry-run --name '*.jpg' --path 'trash/**'"
"$BIN" remove --dry-run --name '*.jpg' --path 'trash/**' < rep.txt 2>/dev/null | tee both.txt
defect=0
# a file whose name does not match --name, and files whose path does not match --path, must not be removed
if grep -q 'trash/d.txt' both.txt; then echo "trash/d.txt removed although its name does not match --name '*.jpg'"; defect=1; fi
if grep -q -e 'keep/a.jpg' -e 'keep/b.jpg' both.txt; then echo "keep/*.jpg removed although the path does not match --path 'trash/**'"; defect=1; fi
n1=$(wc -l < name.txt); n2=$(wc -l < both.txt)
echo "files removed with --name only: $n1, with --name and --path: $n2"
if [ "$n2" -gt "$n1" ]; then echo "adding the restriction --path made fclones remove MORE files"; defect=1; fi
if [ $defect -eq 1 ]; then echo "DEFECT PRESENT"; exit 1; fi
echo "defect not present"; exit 0

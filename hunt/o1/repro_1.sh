#!/bin/bash
# D78: a NUL byte in a line of the --stdin list aborts the whole run (panic in Path::from)
F=$1/target/debug/fclones
d=$(mktemp -d); cd $d; echo x > a; echo x > b
printf 'a\nb\nq\0z\n' | $F group --stdin > out.txt 2> err.txt; rc=$?
echo "exit=$rc"; grep -c "^    " out.txt
rm -rf $d
[ $rc -ne 0 ] && { echo "DEFECT: run aborted"; exit 1; }
exit 0

#!/bin/bash
# (outside C02/C04/C08/C20; family of D41 / 99b5cce: --dry-run announces what the real run refuses)
# `fclones link --dry-run` announces files for which the real run fails with EPERM, because the
# retained file belongs to another user and cannot be written by the caller (fs.protected_hardlinks=1).
CHECKOUT=${1:-/repo}
F=${1:-/repo}/target/debug/fclones
[ "$(id -u)" = 0 ] || { echo "needs root to prepare files of two owners"; exit 0; }
[ "$(cat /proc/sys/fs/protected_hardlinks 2>/dev/null)" = 1 ] || { echo "fs.protected_hardlinks is off, nothing to show"; exit 0; }
W=$(mktemp -d); chmod 755 "$W"
trap 'rm -rf "$W"' EXIT
mkdir "$W/a_shared" "$W/b_mine"
echo "same data" > "$W/a_shared/f"; echo "same data" > "$W/b_mine/f"
touch -d 2020-01-01 "$W/a_shared/f" "$W/b_mine/f"
chown 65534:65534 "$W/b_mine" "$W/b_mine/f"       # the caller's directory and file
chmod 644 "$W/a_shared/f"                       # root's file: readable, not writable by the caller
run() { setpriv --reuid 65534 --regid 65534 --clear-groups "$@"; }
run "$F" group "$W/a_shared" "$W/b_mine" > "$W/rep" 2>/dev/null
echo "--- fclones link --dry-run (as uid 65534)"
run "$F" link --dry-run < "$W/rep" 2>&1 | grep -v ' info: Started'
announced=$(run "$F" link --dry-run < "$W/rep" 2>/dev/null | grep -c '^mv ')
echo "--- fclones link (as uid 65534)"
run "$F" link < "$W/rep" 2>&1 | grep -v ' info: Started'
links=$(stat -c %h "$W/b_mine/f")
echo "announced: $announced, link count of b_mine/f after the real run: $links"
if [ "$announced" -ge 1 ] && [ "$links" = 1 ]; then
  echo "DEFECT: the dry run announced a file that the real run cannot link (Operation not permitted)"
  exit 1
fi
exit 0

#!/bin/bash
# C02: the script printed by `fclones move --dry-run` deletes the files instead of moving them
# when the file has to be copied (target on another mount, or a symbolic link reported with -S):
# it is two unconditional lines "cp SRC TGT" / "rm SRC", and the directories of TGT are never created.
CHECKOUT=${1:-/repo}
F=${1:-/repo}/target/debug/fclones
W=$(mktemp -d)
MOUNTED=0
cleanup() { [ $MOUNTED = 1 ] && umount "$W/disk2" 2>/dev/null; rm -rf "$W"; }
trap cleanup EXIT
defect=0

echo "== variant A: target directory on another disk (loop-mounted ext4, needs root)"
mkdir -p "$W/src/a" "$W/src/b" "$W/disk2"
echo "holiday photo" > "$W/src/a/f"; cp "$W/src/a/f" "$W/src/b/f"
touch -d 2020-01-01 "$W/src/a/f" "$W/src/b/f"
if dd if=/dev/zero of="$W/img" bs=1M count=16 status=none && mkfs.ext4 -q -F "$W/img" >/dev/null 2>&1 \
   && mount -o loop "$W/img" "$W/disk2" 2>/dev/null; then
  MOUNTED=1
  "$F" group "$W/src" > "$W/rep" 2>/dev/null
  "$F" move --dry-run "$W/disk2/moved" < "$W/rep" > "$W/script.sh" 2>/dev/null
  echo "--- script printed by: fclones move --dry-run $W/disk2/moved"
  cat "$W/script.sh"
  echo "--- executing it with bash"
  bash "$W/script.sh"
  moved=$(find "$W/disk2/moved" -type f 2>/dev/null | wc -l)
  if [ ! -e "$W/src/b/f" ] && [ "$moved" = 0 ]; then
    echo "DEFECT: $W/src/b/f was deleted, nothing arrived under $W/disk2/moved"
    defect=1
  else
    echo "ok: src/b/f exists: $([ -e "$W/src/b/f" ] && echo yes || echo no), files under target: $moved"
  fi
  # what the real run does with the same report
  cp -p "$W/src/a/f" "$W/src/b/f" 2>/dev/null
  "$F" move "$W/disk2/moved" < "$W/rep" >/dev/null 2>&1
  echo "--- real run for comparison: files under target: $(find "$W/disk2/moved" -type f 2>/dev/null | wc -l)"
else
  echo "(skipped: cannot create a loop mount here)"
fi

echo
echo "== variant B: a symbolic link reported with --symbolic-links (always moved by copying)"
mkdir -p "$W/s/a" "$W/s/b" "$W/s/out"
echo "holiday photo" > "$W/s/a/f"; echo "holiday photo" > "$W/s/out/g"
ln -s ../out/g "$W/s/b/l"
touch -d 2020-01-01 "$W/s/a/f" "$W/s/out/g"; touch -h -d 2020-01-01 "$W/s/b/l"
"$F" group -S "$W/s/a" "$W/s/b" > "$W/rep2" 2>/dev/null
"$F" move --dry-run "$W/s/moved" < "$W/rep2" > "$W/script2.sh" 2>/dev/null
echo "--- script printed by: fclones move --dry-run $W/s/moved"
cat "$W/script2.sh"
echo "--- executing it with bash"
bash "$W/script2.sh"
moved=$(find "$W/s/moved" \( -type f -o -type l \) 2>/dev/null | wc -l)
if [ ! -L "$W/s/b/l" ] && [ "$moved" = 0 ]; then
  echo "DEFECT: $W/s/b/l was deleted, nothing arrived under $W/s/moved"
  defect=1
else
  echo "ok: link exists: $([ -L "$W/s/b/l" ] && echo yes || echo no), files under target: $moved"
fi
ln -s ../out/g "$W/s/b/l" 2>/dev/null; touch -h -d 2020-01-01 "$W/s/b/l"
"$F" move "$W/s/moved" < "$W/rep2" >/dev/null 2>&1
echo "--- real run for comparison: files under target: $(find "$W/s/moved" -type f 2>/dev/null | wc -l)"

exit $defect

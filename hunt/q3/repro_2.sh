#!/bin/bash
# C20 (and C05): the lock taken by FsCommand::execute is released before the operation starts
# (`let _ = Self::maybe_lock(..)?;` drops the FileLock at once), so a process that locks the
# file while fclones works on it gets the lock - and fclones replaces/removes the file anyway.
CHECKOUT=${1:-/repo}
F=${1:-/repo}/target/debug/fclones
[ -x "$F" ] || F=$CHECKOUT/target/debug/fclones
command -v strace >/dev/null || { echo "strace needed"; exit 2; }
T=$(mktemp -d) || exit 2
trap 'rm -rf "$T"' EXIT
mkdir -p $T/t/d1 $T/t/d2
echo hello > $T/t/d1/a
echo hello > $T/t/d2/b
touch -d '1 hour ago' $T/t/d1/a $T/t/d2/b
$F group $T/t -o $T/rep.txt 2>/dev/null || exit 2

# 1. the system calls of `fclones link`: the lock is gone before the first rename
strace -f -o $T/st.txt -e trace=fcntl,rename,linkat,unlink $F link --dry-run < $T/rep.txt >/dev/null 2>&1
cp -a $T/t $T/t.bak
strace -f -o $T/st.txt -e trace=fcntl,rename,linkat,unlink $F link < $T/rep.txt 2>/dev/null
echo "--- system calls of 'fclones link' on t/d2/b:"
grep -E "F_SETLK|rename\(|linkat\(|unlink\(" $T/st.txt | sed "s#$T/##g" | cut -c1-150
unl=$(grep -n "F_UNLCK" $T/st.txt | head -1 | cut -d: -f1)
ren=$(grep -n "rename(" $T/st.txt | head -1 | cut -d: -f1)
rm -rf $T/t; mv $T/t.bak $T/t

# 2. end to end: a writer locks the file while fclones is replacing it
cat > $T/locker.py <<'PY'
import fcntl, sys, time, os
p = sys.argv[1]
f = open(p, 'r+b')
try:
    fcntl.lockf(f, fcntl.LOCK_EX | fcntl.LOCK_NB)      # fcntl(F_SETLK, F_WRLCK)
except OSError as e:
    print("writer: lock refused (%s) - fclones holds it, writer backs off" % e); sys.exit(3)
print("writer: got the exclusive fcntl lock on", os.path.basename(p), "- appending a record under the lock")
f.seek(0, 2); f.write(b"IMPORTANT RECORD\n"); f.flush(); os.fsync(f.fileno())
time.sleep(3)
print("writer: releasing the lock; link count of my file is now", os.fstat(f.fileno()).st_nlink)
PY
# the rename is delayed by 2 s only to make the schedule deterministic (a slow disk, a big copy
# of `move`, or plain bad luck give the same interleaving)
( strace -f -o /dev/null -e trace=rename -e inject=rename:delay_enter=2000000 $F link < $T/rep.txt > $T/fclones.log 2>&1 ) &
sleep 1
python3 $T/locker.py $T/t/d2/b; lrc=$?
wait
echo "--- fclones said:"; sed "s#$T/##g" $T/fclones.log | cut -c1-200
echo "--- content of t/d2/b afterwards:"; cat $T/t/d2/b
if [ -n "$unl" ] && [ -n "$ren" ] && [ "$unl" -lt "$ren" ]; then early=1; else early=0; fi
if [ $lrc -eq 0 ] && ! grep -q "IMPORTANT RECORD" $T/t/d2/b && grep -q "Processed 1 files" $T/fclones.log; then
  echo "DEFECT PRESENT: the file was replaced while another process held the exclusive lock on it; the record written under the lock is lost (lock released before rename: $early)"
  exit 1
fi
echo "not reproduced"
exit 0

#!/bin/bash
# C05: linux_reflink (fclones/src/reflink.rs:86-126) makes the backup clone first and only then
# opens the file for writing; when that fails, the roll-back renames the backup - a NEW file with
# mode 0666&~umask, fresh timestamps, no other hard links - over the untouched original.
CHECKOUT=${1:-/repo}
F=${1:-/repo}/target/debug/fclones
[ -x "$F" ] || F=$CHECKOUT/target/debug/fclones
HERE=$(cd "$(dirname "$0")" && pwd)
T=$(mktemp -d) || exit 2
trap 'chattr -i $T/t2/d2/b 2>/dev/null; kill $PROG 2>/dev/null; rm -rf "$T"' EXIT
# a file system with reflinks (btrfs, xfs) is used as it is, otherwise FICLONE is emulated
echo x > $T/probe
if cp --reflink=always $T/probe $T/probe2 2>/dev/null; then
  PRE=""; echo "file system supports reflinks"
else
  command -v gcc >/dev/null || { echo "no reflink support and no gcc for the shim"; exit 2; }
  gcc -shared -fPIC -o $T/ficlone.so $HERE/ficlone_shim.c -ldl || exit 2
  PRE="$T/ficlone.so"; echo "no reflink support here: ioctl(FICLONE) emulated by $HERE/ficlone_shim.c"
fi
rc=0

echo "=== A. the duplicate is a program that is running (open for write gives ETXTBSY)"
mkdir -p $T/t/d1 $T/t/d2
cp /bin/sleep $T/t/d1/prog; cp /bin/sleep $T/t/d2/prog; ln $T/t/d2/prog $T/t/d2/prog.link
chmod 755 $T/t/d1/prog $T/t/d2/prog
touch -d '2020-01-01' $T/t/d1/prog $T/t/d2/prog
$T/t/d2/prog 60 & PROG=$!
sleep 0.3
$F group $T/t -o $T/rep.txt 2>/dev/null || exit 2
before=$(stat -c '%A nlink=%h mtime=%y inode=%i' $T/t/d2/prog)
LD_PRELOAD=$PRE $F dedupe < $T/rep.txt 2>&1 | sed "s#$T/##g" | cut -c1-220
after=$(stat -c '%A nlink=%h mtime=%y inode=%i' $T/t/d2/prog)
kill $PROG 2>/dev/null
echo "t/d2/prog before: $before"
echo "t/d2/prog after : $after"
ls $T/t/d2
if [ "$before" != "$after" ]; then
  echo "DEFECT PRESENT: dedupe failed ('Processed 0 files') but the file is another one now: no longer executable, hard link broken, new mtime"
  $T/t/d2/prog 0 2>&1 | sed "s#$T/##g"
  rc=1
fi

echo "=== B. the duplicate is immutable (chattr +i): the roll-back fails as well and leaves the backup behind"
mkdir -p $T/t2/d1 $T/t2/d2
echo hello > $T/t2/d1/a; echo hello > $T/t2/d2/b
touch -d '2020-01-01' $T/t2/d1/a $T/t2/d2/b
$F group $T/t2 -o $T/rep2.txt 2>/dev/null || exit 2
if chattr +i $T/t2/d2/b 2>/dev/null; then
  LD_PRELOAD=$PRE $F dedupe < $T/rep2.txt 2>&1 | sed "s#$T/##g" | cut -c1-260
  chattr -i $T/t2/d2/b
  ls -la $T/t2/d2
  if [ $(ls $T/t2/d2 | wc -l) -ne 1 ]; then
    echo "DEFECT PRESENT: a single failing call (open for write: EPERM), no crash, and a temporary file b.XXXX stays in the directory"
    rc=1
  fi
else
  echo "chattr +i not possible here, skipped"
fi
exit $rc

#!/bin/bash
# C05/C11: reflink() (fclones/src/reflink.rs:19-71) reports the whole operation as failed when
# restoring the time stamps fails AFTER the file has been replaced by the clone: the file is
# deduplicated and has a new mtime, but fclones warns "Failed to deduplicate" and counts 0 files.
CHECKOUT=${1:-/repo}
F=${1:-/repo}/target/debug/fclones
[ -x "$F" ] || F=$CHECKOUT/target/debug/fclones
HERE=$(cd "$(dirname "$0")" && pwd)
T=$(mktemp -d) || exit 2
trap 'rm -rf "$T"' EXIT
chmod 755 $T
echo x > $T/probe
if cp --reflink=always $T/probe $T/probe2 2>/dev/null; then
  PRE=""; echo "file system supports reflinks"
else
  command -v gcc >/dev/null || { echo "no reflink support and no gcc for the shim"; exit 2; }
  gcc -shared -fPIC -o $T/ficlone.so $HERE/ficlone_shim.c -ldl || exit 2
  chmod 755 $T/ficlone.so
  PRE="$T/ficlone.so"; echo "no reflink support here: ioctl(FICLONE) emulated by $HERE/ficlone_shim.c"
fi
mkdir -p $T/t/d1 $T/t/d2
echo hello > $T/t/d1/a; echo hello > $T/t/d2/b
touch -d '2020-01-01' $T/t/d1/a $T/t/d2/b
$F group $T/t -o $T/rep.txt 2>/dev/null || exit 2
chmod 644 $T/rep.txt
before=$(stat -c 'mtime=%y' $T/t/d2/b)
if [ "$(id -u)" = 0 ] && command -v setpriv >/dev/null; then
  echo "user 1000 runs dedupe; t/d2/b belongs to user 1001 and is group/world writable (shared directory)"
  chown -R 1000:1000 $T/t; chown 1001:1001 $T/t/d2/b; chmod 666 $T/t/d2/b
  LD_PRELOAD=$PRE setpriv --reuid 1000 --regid 1000 --clear-groups $F dedupe < $T/rep.txt > $T/log 2>&1
else
  echo "not root: utimensat failure injected with strace"
  LD_PRELOAD=$PRE strace -f -o /dev/null -e trace=utimensat -e inject=utimensat:error=EPERM:when=1 $F dedupe < $T/rep.txt > $T/log 2>&1
fi
sed "s#$T/##g" $T/log | cut -c1-260
after=$(stat -c 'mtime=%y' $T/t/d2/b)
echo "t/d2/b before: $before"
echo "t/d2/b after : $after   content: $(cat $T/t/d2/b)"
if grep -q "Failed to deduplicate" $T/log && grep -q "Processed 0 files" $T/log && [ "$before" != "$after" ]; then
  echo "DEFECT PRESENT: the file was cloned over (new mtime, no roll-back) but is reported as failed and not counted"
  exit 1
fi
echo "not reproduced"; exit 0

#!/bin/bash
# C18/C11: race in FsCommand::check_can_rename (fclones/src/dedupe.rs) - a move into a fresh
# target directory is refused with a bogus "... is not a directory" while another thread
# creates the parent directories of the target.
CHECKOUT=${1:-/repo}
F=${1:-/repo}/target/debug/fclones
[ -x "$F" ] || F=$CHECKOUT/target/debug/fclones
T=$(mktemp -d) || exit 2
trap 'rm -rf "$T"' EXIT
GROUPS_N=300
deep=$T/src/l1/l2/l3/l4/l5/l6
mkdir -p $deep/k
for i in $(seq 1 $GROUPS_N); do
  mkdir -p $deep/d$i
  echo "content $i" > $deep/k/f$i
  echo "content $i" > $deep/d$i/g$i
done
find $T/src -type f -exec touch -d '1 hour ago' {} +
$F group $T/src -o $T/rep.txt 2>/dev/null || exit 2
for n in $(seq 1 250); do
  rm -rf $T/run $T/DIR
  cp -a $T/src $T/run
  sed "s#$T/src/#$T/run/#g" $T/rep.txt > $T/rep2.txt
  # the target directory $T/DIR does not exist: nothing can be "in the way"
  dry=$($F move $T/DIR --dry-run < $T/rep2.txt 2>&1 >/dev/null | grep -o 'Would process [0-9]* files')
  out=$($F move $T/DIR < $T/rep2.txt 2>&1)
  if echo "$out" | grep -q "is not a directory"; then
    echo "run $n: dry run said: $dry"
    echo "$out" | grep -E "is not a directory|Processed" | cut -c1-400
    left=$(find $T/run -type f | wc -l)
    echo "files left in the source tree: $left (expected $GROUPS_N, one per group)"
    echo "DEFECT PRESENT: a file was not moved although nothing existed at its target"
    exit 1
  fi
done
echo "no bogus refusal in 250 runs"
exit 0

/* LD_PRELOAD shim: emulates ioctl(FICLONE) by copying the bytes, so that the reflink code of
 * fclones can be exercised on a file system without reflink support (ext4, tmpfs).
 * Everything else (open, rename, unlink, utimensat ...) is the real thing. */
#define _GNU_SOURCE
#include <dlfcn.h>
#include <stdarg.h>
#include <unistd.h>
#include <sys/stat.h>
#include <linux/fs.h>
int ioctl(int fd, unsigned long req, ...) {
    va_list ap; va_start(ap, req); void *arg = va_arg(ap, void*); va_end(ap);
    static int (*real)(int, unsigned long, ...) = 0;
    if (!real) real = dlsym(RTLD_NEXT, "ioctl");
    if ((unsigned int)req == (unsigned int)FICLONE) {
        int src = (int)(long)arg; char buf[65536]; off_t off = 0; ssize_t n;
        struct stat st; if (fstat(src, &st)) return -1;
        while ((n = pread(src, buf, sizeof buf, off)) > 0) {
            if (pwrite(fd, buf, n, off) != n) return -1;
            off += n;
        }
        if (n < 0) return -1;
        if (ftruncate(fd, st.st_size)) return -1;
        return 0;
    }
    return real(fd, req, arg);
}

#!/bin/bash
# C16: directory pruning rejects ancestors of matching paths when the literal prefix of the
# pattern contains a non-ASCII character (regex.rs is_partial_match mixes bytes and chars)
CHECKOUT=${1:-/repo}
F=${1:-/repo}/target/debug/fclones
[ -x "$F" ] || F="$CHECKOUT/target/debug/fclones"
T=$(mktemp -d)
trap 'rm -rf "$T"' EXIT
defect=0

# scenario A: absolute glob with a non-ASCII directory name
mkdir -p "$T/ż/x" "$T/a/x"
for d in ż/x a/x; do echo hello > "$T/$d/f1"; echo hello > "$T/$d/f2"; done
outA=$("$F" group "$T" --path "$T/ż/**" -f fdupes 2>/dev/null)
outB=$("$F" group "$T" --path "$T/a/**" -f fdupes 2>/dev/null)
echo "--- group --path '$T/ż/**' (expected: ż/x/f1 and ż/x/f2):"; echo "$outA"
echo "--- control, group --path '$T/a/**':"; echo "$outB"
if ! echo "$outA" | grep -q "/ż/x/f1"; then
  echo "DEFECT A: $T/ż/x/f1 matches the pattern but its directory was pruned"; defect=1
fi
if ! echo "$outB" | grep -q "/a/x/f1"; then echo "control failed (unexpected)"; fi

# scenario B: relative glob, working directory with a non-ASCII name
mkdir -p "$T/Zdjęcia/sub/deep"
echo photo > "$T/Zdjęcia/sub/deep/p1"; echo photo > "$T/Zdjęcia/sub/deep/p2"
outC=$(cd "$T/Zdjęcia" && "$F" group . --path 'sub/**' -f fdupes 2>/dev/null)
echo "--- (cd $T/Zdjęcia; group . --path 'sub/**') (expected: sub/deep/p1 and p2):"; echo "$outC"
if ! echo "$outC" | grep -q "/sub/deep/p1"; then
  echo "DEFECT B: relative pattern below a non-ASCII working directory prunes sub/deep"; defect=1
fi
[ $defect = 1 ] && { echo "RESULT: defect present"; exit 1; }
echo "RESULT: defect not present"; exit 0

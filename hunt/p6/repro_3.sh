#!/bin/bash
# C01: with --cache a file rewritten (same length) within the timestamp granularity of the
# file system keeps its cached hash: files with different content are reported as duplicates.
# Needs root (loop mount of an ext4 image with 128-byte inodes = 1 s timestamps).
# exit 1 = defect present, 0 = not present, 2 = could not set up the file system.
CHECKOUT=${1:-/repo}
F=${1:-/repo}/target/debug/fclones
[ -x "$F" ] || F="$CHECKOUT/target/debug/fclones"
W=$(mktemp -d)
cleanup() { umount "$W/mnt" 2>/dev/null; rm -rf "$W"; }
trap cleanup EXIT
mkdir "$W/mnt" "$W/cache"
dd if=/dev/zero of="$W/img" bs=1M count=16 status=none
mkfs.ext4 -q -I 128 "$W/img" >/dev/null 2>&1 || { echo "SKIP: mkfs.ext4 failed"; exit 2; }
mount -o loop "$W/img" "$W/mnt" 2>/dev/null || { echo "SKIP: cannot loop-mount (need root)"; exit 2; }
export XDG_CACHE_HOME="$W/cache"
D="$W/mnt/d"
for attempt in 1 2 3 4 5; do
  rm -rf "$D"; mkdir "$D"
  # start right after a full second, so that everything below happens within that second
  python3 -c 'import time; t=time.time(); time.sleep(1.0-(t%1.0)+0.02)'
  head -c 20000 /dev/zero | tr '\0' 'A' > "$D/a"
  cp "$D/a" "$D/b"
  m1=$(stat -c %Y "$D/b")
  "$F" group --cache "$D" -f fdupes >"$W/run1" 2>/dev/null       # a and b are identical: hashes get cached
  head -c 20000 /dev/zero | tr '\0' 'B' > "$D/b"                 # ordinary rewrite, same length
  m2=$(stat -c %Y "$D/b")
  [ "$m1" = "$m2" ] && break
  echo "attempt $attempt crossed a second boundary, retrying"
done
[ "$m1" = "$m2" ] || { echo "SKIP: could not do the rewrite within one second"; exit 2; }
echo "mtime of b before/after rewrite: $(stat -c %y "$D/b") (unchanged: 1 s resolution)"
sleep 1.1
echo "--- run 1 (a == b):"; cat "$W/run1"
"$F" group --cache "$D" -f fdupes >"$W/run2" 2>/dev/null
echo "--- run 2 with --cache after rewriting b:"; cat "$W/run2"
"$F" group "$D" -f fdupes >"$W/run3" 2>/dev/null
echo "--- control, run without --cache:"; cat "$W/run3"
if cmp -s "$D/a" "$D/b"; then echo "unexpected: files are equal"; exit 2; fi
if grep -q "/d/a" "$W/run2" && grep -q "/d/b" "$W/run2"; then
  echo "DEFECT: a and b differ (cmp: $(cmp "$D/a" "$D/b" 2>&1)) but 'group --cache' reports them as duplicates"
  echo "RESULT: defect present"; exit 1
fi
echo "RESULT: defect not present"; exit 0

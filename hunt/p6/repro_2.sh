#!/bin/bash
# C16: get_fixed_prefix (regex.rs:79-82) removes "the last character" made optional by `?`/`*`
# with result.chars().take(result.len() - 1): result.len() is a byte count, so a multi-byte
# character is not removed (the directory without it is pruned), and an empty result underflows.
CHECKOUT=${1:-/repo}
F=${1:-/repo}/target/debug/fclones
[ -x "$F" ] || F="$CHECKOUT/target/debug/fclones"
T=$(mktemp -d /tmp/p6rXXXXXX)   # no regex metacharacters in the path
trap 'rm -rf "$T"' EXIT
defect=0
mkdir -p "$T/d" "$T/da"
for d in d da; do echo hello > "$T/$d/f1"; echo hello > "$T/$d/f2"; done

out1=$("$F" group "$T" --regex --path "$T/dż?/.*" -f fdupes 2>/dev/null)
out2=$("$F" group "$T" --regex --path "$T/db?/.*" -f fdupes 2>/dev/null)
echo "--- group --regex --path '$T/dż?/.*' (ż is optional; expected: d/f1 d/f2):"; echo "$out1"
echo "--- control, --regex --path '$T/db?/.*':"; echo "$out2"
if ! echo "$out1" | grep -q "$T/d/f1"; then
  echo "DEFECT A: $T/d/f1 matches the regex, but $T/d was pruned (optional multi-byte char kept in the fixed prefix)"; defect=1
fi

"$F" group "$T" --regex --name '*' -f fdupes >/dev/null 2>"$T/err"; rc=$?
echo "--- group --regex --name '*' exit code: $rc"; grep -m1 -A1 panicked "$T/err"
if [ $rc = 101 ] || grep -q panicked "$T/err"; then
  echo "DEFECT B: panic (subtract with overflow) in get_fixed_prefix for a regex starting with a quantifier"; defect=1
fi
[ $defect = 1 ] && { echo "RESULT: defect present"; exit 1; }
echo "RESULT: defect not present"; exit 0

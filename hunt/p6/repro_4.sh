#!/bin/bash
# C16 (low severity): with --ignore-case the directory pruning folds case with
# str::to_lowercase(), the full match with the regex crate's Unicode simple case folding.
# Where the two disagree (s ~ S ~ U+017F LATIN SMALL LETTER LONG S) a directory holding
# matching files is pruned.
CHECKOUT=${1:-/repo}
F=${1:-/repo}/target/debug/fclones
[ -x "$F" ] || F="$CHECKOUT/target/debug/fclones"
T=$(mktemp -d)
trap 'rm -rf "$T"' EXIT
mkdir -p "$T/ſ"
echo hi > "$T/ſ/f1"; echo hi > "$T/ſ/f2"; echo q > "$T/ſ1"; echo q > "$T/ſ2"
out1=$("$F" group "$T" -i --name 's?' -f fdupes 2>/dev/null)
echo "--- group -i --name 's?' (shows that -i makes s match ſ):"; echo "$out1"
out2=$("$F" group "$T" -i --path "$T/s/*" -f fdupes 2>/dev/null)
echo "--- group -i --path '$T/s/*' (expected: ſ/f1 ſ/f2):"; echo "$out2"
if echo "$out1" | grep -q "/ſ1" && ! echo "$out2" | grep -q "/ſ/f1"; then
  echo "DEFECT: $T/ſ/f1 fully matches the pattern under -i, but directory $T/ſ was pruned"
  echo "RESULT: defect present"; exit 1
fi
echo "RESULT: defect not present"; exit 0

#!/bin/bash
# C12 (cost): --cache is never used for a --transform command that reads its standard input
# (no $IN), since fix 880f1cf disabled the cache whenever Transform::copy is false.
# usage: repro_1.sh <checkout>
CHECKOUT=${1:-/repo}
F=$CHECKOUT/target/debug/fclones
W=$(mktemp -d)
trap 'rm -rf "$W"' EXIT
mkdir -p "$W/t" "$W/home"
export HOME=$W/home XDG_CACHE_HOME=$W/home/.cache
head -c 30000 /dev/urandom > "$W/t/a"; cp "$W/t/a" "$W/t/b"; head -c 30000 /dev/urandom > "$W/t/c"
cat > "$W/tr.sh" <<EOS
#!/bin/sh
echo run >> "$W/count"
exec cat "\$@"
EOS
chmod +x "$W/tr.sh"
sleep 2.2   # let the files age, so that the cache accepts them on any file system
count_runs() {   # $1 = transform command; prints the number of program launches of the 2nd run
    rm -rf "$W/home"; mkdir -p "$W/home"
    : > "$W/count"; "$F" group --cache --transform "$1" "$W/t" > "$W/out1" 2>/dev/null
    first=$(wc -l < "$W/count")
    : > "$W/count"; "$F" group --cache --transform "$1" "$W/t" > "$W/out2" 2>/dev/null
    second=$(wc -l < "$W/count")
    echo "transform '$1': program launched $first times by the first run, $second times by the second run (groups: $(grep -c '^[0-9a-f]\{32\}' "$W/out2"))" >&2
    echo "$second"
}
with_in=$(count_runs "$W/tr.sh \$IN")
piped=$(count_runs "$W/tr.sh")
if [ "$with_in" -ne 0 ]; then echo "unexpected: the cache does not work for \$IN transforms either"; fi
if [ "$piped" -ne 0 ]; then
    echo "DEFECT: the second 'group --cache --transform <piped command>' run launched the program $piped times; nothing is ever cached for a transform without \$IN"
    exit 1
fi
echo "ok: the second cached run of the piped transform launched the program 0 times"
exit 0

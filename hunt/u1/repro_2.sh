#!/bin/bash
# C12 (cost / documented behaviour): since fix 25b41ef the cache entry of a file is thrown away
# when the file is renamed or moved (also chmod, chown, ln), because the status change time
# (st_ctime) became a part of the validity check. README: "Cached hashes are not invalidated by
# file moves".
# usage: repro_2.sh <checkout>
CHECKOUT=${1:-/repo}
F=$CHECKOUT/target/debug/fclones
W=$(mktemp -d)
trap 'rm -rf "$W"' EXIT
mkdir -p "$W/t/sub" "$W/home"
export HOME=$W/home XDG_CACHE_HOME=$W/home/.cache
# two big duplicates: whether they are read again is visible in the number of bytes read
head -c 8000000 /dev/urandom > "$W/t/a"; cp "$W/t/a" "$W/t/b"
sleep 2.2
bytes_read() {   # runs group --cache under strace, prints the bytes read from t/a (whatever its name is now)
    strace -f -o "$W/trace" -e trace=read -P "$1" "$F" group --cache "$W/t" > "$W/out" 2>/dev/null
    awk -F' = ' '/read\(/ && $NF+0 > 0 {s += $NF} END {print s+0}' "$W/trace"
}
r1=$(bytes_read "$W/t/a");  g1=$(grep -c "/t/" "$W/out")
r2=$(bytes_read "$W/t/a");  g2=$(grep -c "/t/" "$W/out")
mv "$W/t/a" "$W/t/sub/renamed"
r3=$(bytes_read "$W/t/sub/renamed"); g3=$(grep -c "/t/" "$W/out")
echo "run 1 (cold cache):        $r1 bytes read from t/a, $g1 files reported"
echo "run 2 (nothing changed):   $r2 bytes read from t/a, $g2 files reported"
echo "run 3 (after mv t/a t/sub/renamed): $r3 bytes read from the moved file, $g3 files reported"
if [ "$r2" -ne 0 ]; then echo "unexpected: the cache is not used at all"; exit 0; fi
if [ "$r3" -ne 0 ]; then
    echo "DEFECT: the moved file was hashed again from its data; its cache entries were invalidated by the move"
    exit 1
fi
echo "ok: the hashes of the moved file were served by the cache"
exit 0

#!/bin/bash
# C15 (cost): when the one path that is read for a group of hard links fails, rehash_paths tries
# every other path of the same file, also when the failure is a property of the file and not of
# the path (length changed since the scan, I/O error, data/length mismatch): a big file with N
# hard links that was appended to during the run is read N times from start to end, N warnings.
# usage: repro_4.sh <checkout>      (needs python3 and strace)
CHECKOUT=${1:-/repo}
F=$CHECKOUT/target/debug/fclones
W=$(mktemp -d)
trap 'rm -rf "$W"' EXIT
cat > "$W/run.py" <<'EOS'
import os, sys, subprocess, time, shutil
fclones, root, nlinks = sys.argv[1], sys.argv[2], int(sys.argv[3])
SIZE = 64 << 20
for attempt in range(3):
    shutil.rmtree(root, ignore_errors=True); os.makedirs(root + "/cur")
    data = os.urandom(1 << 20) * (SIZE >> 20)
    open(root + "/cur/big", "wb").write(data); open(root + "/copy", "wb").write(data)
    for i in range(nlinks):
        os.makedirs(root + "/snap%d" % i); os.link(root + "/cur/big", root + "/snap%d/big" % i)
    err_path = root + ".err"; err = open(err_path, "w")
    p = subprocess.Popen(["strace", "-f", "-o", root + ".trace", "-e", "trace=read", fclones, "group", root,
                          "-o", root + ".rep", "--threads", "1"], stderr=err)
    # the prefix and suffix stages are over: now the files are read from start to end
    while p.poll() is None and "grouping by suffix" not in open(err_path).read():
        time.sleep(0.002)
    with open(root + "/cur/big", "ab") as f: f.write(b"x")
    p.wait()
    warnings = [l for l in open(err_path).read().splitlines() if "file length changed" in l]
    total = 0
    for l in open(root + ".trace"):
        if "read(" in l and " = " in l:
            try:
                v = int(l.rsplit(" = ", 1)[1].split()[0])
                if v > 0: total += v
            except ValueError: pass
    if warnings: break
paths = nlinks + 1
print("file of %d MiB with %d paths (hard links) and one independent copy; 1 byte appended during the contents stage" % (SIZE >> 20, paths))
print("warnings 'file length changed': %d;  bytes read by fclones: %d MiB (the two files together have %d MiB)" % (len(warnings), total >> 20, 2 * SIZE >> 20))
if not warnings:
    print("inconclusive: the append came too late in all attempts"); sys.exit(0)
if len(warnings) >= paths - 1 and total > 4 * SIZE:
    print("DEFECT: the changed file was read again through each of its hard links"); sys.exit(1)
print("ok: the changed file was not read again for every hard link"); sys.exit(0)
EOS
python3 "$W/run.py" "$F" "$W/t" 8

#!/bin/bash
# C03/C15 (cost): rehash_paths merges every "examined" group (a group of hard links in which one
# path vanished or was replaced since the scan) into the stage result with a linear search over
# all groups: O(examined x groups). Removing one snapshot directory of a hard-linked backup tree
# while `group --unique` (or -H, --rf-under) runs makes the run time grow quadratically.
# usage: repro_3.sh <checkout>      (needs python3; takes about a minute with the debug binary)
CHECKOUT=${1:-/repo}
F=$CHECKOUT/target/debug/fclones
W=$(mktemp -d)
trap 'rm -rf "$W"' EXIT
cat > "$W/run.py" <<'EOS'
import os, sys, subprocess, time, shutil
fclones, root, n, disturb = sys.argv[1], sys.argv[2], int(sys.argv[3]), sys.argv[4] == "1"
# n files in snap0, each with a hard link in snap1 (the snapshot that is going to be removed);
# with --unique each pair is a group of its own that no stage needs to read
shutil.rmtree(root, ignore_errors=True)
os.makedirs(root + "/snap0"); os.makedirs(root + "/snap1")
for i in range(n):
    p = root + "/snap0/f%06d" % i
    with open(p, "wb") as f: f.truncate(1 + i)     # every file has a size of its own
    os.link(p, root + "/snap1/f%06d" % i)
err_path = root + ".err"
err = open(err_path, "w")
t0 = time.time()
p = subprocess.Popen([fclones, "group", "--unique", root, "-o", root + ".rep"], stderr=err)
if disturb:
    # wait until the scan is over, then remove the snapshot (as a backup rotation would)
    while p.poll() is None and "grouping by paths" not in open(err_path).read():
        time.sleep(0.01)
    shutil.rmtree(root + "/snap1")
p.wait()
print("%.2f" % (time.time() - t0))
EOS
N=64000
t_plain=$(python3 "$W/run.py" "$F" "$W/t" $N 0)
t_half=$(python3 "$W/run.py" "$F" "$W/t" $((N/4)) 1)
t_full=$(python3 "$W/run.py" "$F" "$W/t" $N 1)
t_plain_half=$(python3 "$W/run.py" "$F" "$W/t" $((N/4)) 0)
echo "undisturbed run, $((N/4)) hard-linked files: ${t_plain_half}s;  $N files: ${t_plain}s"
echo "snapshot removed after the scan, $((N/4)) files: ${t_half}s;  $N files: ${t_full}s"
python3 - "$t_plain_half" "$t_plain" "$t_half" "$t_full" <<'EOS'
import sys
ph, p, h, f = map(float, sys.argv[1:])
extra_half, extra_full = max(h - ph, 0.01), max(f - p, 0.01)
print("extra time caused by the removed snapshot: %.2fs for N/4, %.2fs for N (ratio %.1f; 4 = linear, 16 = quadratic)" % (extra_half, extra_full, extra_full / extra_half))
if extra_full > 3.0 and extra_full / extra_half > 5.5:
    print("DEFECT: the cost of merging the examined groups grows quadratically with their number")
    sys.exit(1)
print("ok: no quadratic growth observed")
sys.exit(0)
EOS

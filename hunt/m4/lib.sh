F=/tmp/hunt/m4/target/debug/fclones
# list files scanned: all files have same content; print group members
scan() { $F group "$@" --rf-over 0 2>/dev/null | grep '^    ' | sed 's/^    //' | sort; }

#!/bin/bash
# Compares fclones --name glob matching with bash extglob matching
shopt -s extglob
F=/tmp/hunt/m4/target/debug/fclones
D=$(mktemp -d /tmp/m4gXXXX)
E=$(mktemp)
names=( a b ab abc aab ba A AB 'a.b' 'a+b' 'a*b' 'a?b' '(a)' 'a|b' '[a]' ']' '[' '-' 'a-b' '^a' 'a$' '$' 'a^b' '{a,b}' 'a,b' '\' 'a\b' '!a' '@' '+' 'foo.jpg' 'foobar' 'foofoo' 'ż' 'żż' 'aż' '&' 'a&b' '~' 'a~b' '#' ' ' '..a' )
for n in "${names[@]}"; do echo same > "$D/$n"; done
pats=( 'a' '?' '??' '*' 'a*' '*b' '[ab]' '[!ab]' '[!a]*' '[]]' '[]a]' '[!]]' '[[]' '[a-]' '[-a]' '[a-c]b' '\*' 'a\*b' 'a\?b' '\\' 'a\\b' 'a.b' 'a+b' '(a)' 'a|b' '^a' 'a$' '$' 'a^b' '?(a|b)' '+(a|b)' '*(a|b)' '@(a|b)' '@(a|b)c' 'a?(b)c' '+(foo|bar)' 'foo?(.jpg)' '+(a|b)+(a|b)' '@(a|?(b))' '*(a)b' '+(ż)' '?ż' '[ż]' '[!ż]' 'a&b' '[&]' '[a&&b]' '[a~~b]' '[~]' '[#]' '#' '~' '&' ' ' '[ ]' '..a' '.*' '*.*' '!a' '@' '+' '[^a]' '[a^]' '\[a\]' '[[]a]' '\{a,b\}' 'a,b' )
for p in "${pats[@]}"; do
  exp=$(for n in "${names[@]}"; do if [[ "$n" == $p ]]; then printf '%s\n' "$n"; fi; done | LC_ALL=C sort | tr '\n' ' ')
  out=$($F group "$D" --hidden --rf-over 0 -A --name "$p" 2>"$E"); rc=$?
  got=$(printf '%s\n' "$out" | grep '^    ' | sed "s|^    $D/||" | LC_ALL=C sort | tr '\n' ' ')
  if [ $rc -ne 0 ]; then got="ERROR: $(tail -1 "$E")"; fi
  if [ "$exp" != "$got" ]; then printf 'PAT %-14s\n   bash: %s\n   fcl : %s\n' "$p" "$exp" "$got"; fi
done
rm -r "$D" "$E"

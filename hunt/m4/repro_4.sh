#!/bin/bash
# C16: the contents of a glob character class [..] are copied verbatim into the regex, where
# '&&', '~~', '--', '[' , a leading ']' and '\x' have a meaning of their own.
# usage: repro_4.sh <checkout>   (uses <checkout>/target/debug/fclones, builds nothing)
CHECKOUT=${1:-/tmp/hunt/m4}
F="$CHECKOUT/target/debug/fclones"
[ -x "$F" ] || F=/tmp/hunt/m4/target/debug/fclones
T=$(mktemp -d /tmp/m4r4XXXXXX) || exit 2
trap 'rm -r "$T"' EXIT
mkdir "$T/R"
for n in a b '&' '~' '[' d w 5; do echo same > "$T/R/$n"; done

sel() {
  out=$("$F" group "$T/R" --rf-over 0 --name "$1" 2>&1) || { printf 'PATTERN-REJECTED '; return; }
  echo "$out" | grep '^    ' | sed "s|^    $T/R/||" | sort | tr '\n' ' '
}

bad=0
check() { # pattern expected
  got=$(sel "$1")
  printf "   --name %-10s selected: %-14s expected: %s\n" "'$1'" "$got" "$2"
  [ "$got" != "$2 " ] && bad=1
}
echo "files in R: a b & ~ [ d w 5"
check '[ab]'    "a b"          # control
check '[a&&b]'  "& a b"        # regex: intersection of {a} and {b} = nothing
check '[&&]'    "&"
check '[a~~b]'  "a b ~"        # regex: symmetric difference
check '[\d]'    "d"            # glob: escaped d; regex: any digit
check '[\w]'    "w"            # regex: any word character
check '[[]'     "["            # regex: nested class -> pattern rejected

if [ $bad = 1 ]; then
  echo "DEFECT PRESENT: characters inside [..] are not matched literally"
  exit 1
fi
echo "defect not present"
exit 0

#!/bin/bash
# C09: with --follow-links the walk marks a directory as visited BEFORE it decides whether to read it
# under the conditions of the root it was reached from (--one-fs device of that root, ignore files
# inherited from that root). When the same directory is also given as a root of its own,
# it is then skipped as "already visited" and all its files are lost.
# usage: repro_2.sh <checkout>   (uses <checkout>/target/debug/fclones, builds nothing)
CHECKOUT=${1:-/tmp/hunt/m4}
F="$CHECKOUT/target/debug/fclones"
[ -x "$F" ] || F=/tmp/hunt/m4/target/debug/fclones
T=$(mktemp -d /tmp/m4r2XXXXXX) || exit 2
MOUNTED=""
cleanup() { [ -n "$MOUNTED" ] && umount "$MOUNTED"; rm -r "$T"; }
trap cleanup EXIT

list() { "$F" group "$@" --rf-over 0 2>/dev/null | grep '^    ' | sed 's/^    //' | sort; }
bad=0

echo "== A. --one-fs: R contains the mount point R/mnt, and R/mnt is also given as an input path"
mkdir -p "$T/R/sub" "$T/R/mnt"
if mount -t tmpfs none "$T/R/mnt" 2>/dev/null; then
  MOUNTED="$T/R/mnt"
  mkdir -p "$T/R/mnt/d"
  echo same > "$T/R/f"; echo same > "$T/R/sub/g"; echo same > "$T/R/mnt/m1"; echo same > "$T/R/mnt/d/m2"
  # --threads 1 makes the order deterministic (the roots are taken last-first);
  # with more threads the same loss happens depending on timing
  without_L=$(cd "$T" && list R/mnt R --one-fs --threads 1 | wc -l)
  with_L=$(cd "$T" && list R/mnt R --one-fs -L --threads 1 | wc -l)
  other_order=$(cd "$T" && list R R/mnt --one-fs -L --threads 1 | wc -l)
  echo "   group R/mnt R --one-fs            : $without_L files (expected 4)"
  echo "   group R/mnt R --one-fs -L         : $with_L files (expected 4: f sub/g mnt/m1 mnt/d/m2)"
  echo "   group R R/mnt --one-fs -L         : $other_order files (expected 4)"
  (cd "$T" && list R/mnt R --one-fs -L --threads 1 | sed 's/^/      /')
  [ "$without_L" = 4 ] && [ "$with_L" != 4 ] && bad=1
else
  echo "   (cannot mount a tmpfs here, part A skipped)"
fi

echo "== B. ignore files: S/.gitignore ignores *.log; S/sub is also given as an input path of its own"
mkdir -p "$T/S/sub/deep"
echo same > "$T/S/top.txt"; echo same > "$T/S/sub/n.txt"; echo same > "$T/S/sub/b.log"; echo same > "$T/S/sub/deep/c.log"
echo '*.log' > "$T/S/.gitignore"
alone=$(cd "$T" && list S/sub --threads 1 | wc -l)
no_L=$(cd "$T" && list S/sub S --threads 1 | wc -l)
L_order1=$(cd "$T" && list S/sub S -L --threads 1 | wc -l)
L_order2=$(cd "$T" && list S S/sub -L --threads 1 | wc -l)
echo "   group S/sub                 : $alone files (3: n.txt b.log deep/c.log - S/.gitignore does not apply to the root S/sub)"
echo "   group S/sub S               : $no_L files (expected 4 = union of 'group S' and 'group S/sub')"
echo "   group S/sub S -L            : $L_order1 files (expected 4)"
echo "   group S S/sub -L            : $L_order2 files (expected 4)"
[ "$no_L" = 4 ] && [ "$L_order1" != "$L_order2" ] && bad=1

if [ $bad = 1 ]; then
  echo "DEFECT PRESENT: files of an input path are lost (and the result depends on the order of the input paths) with -L"
  exit 1
fi
echo "defect not present"
exit 0

#!/bin/bash
# C07 exploration: dedupe commands with --dry-run must not change anything
F=/tmp/hunt/m4/target/debug/fclones
T=$(mktemp -d /tmp/m4c7bXXXXXX)
export HOME="$T/home"; mkdir -p "$HOME"
R="$T/R"
mkdir -p "$R/a/b" "$R/c"
echo hello > "$R/a/x"; echo hello > "$R/a/b/y"; echo hello > "$R/c/w"; echo other > "$R/z"; echo other > "$R/c/z2"
ln "$R/a/x" "$R/hard"; ln -s a/x "$R/soft"
(cd "$T" && "$F" group R -o "$T/report.txt" 2>/dev/null)
(cd "$T" && "$F" group R -H -S -o "$T/report2.txt" 2>/dev/null)
snap() { (cd "$T" && find . -path ./home -prune -o -printf '%p|%y|%s|%T@|%i|%n|%m|%l\n' | sort; find R -type f -exec md5sum {} + | sort -k2); }
snap > "$T/before"
run() {
  echo "--- $*"
  (cd "$T" && timeout 60 "$F" "$@" >"$T/out" 2>"$T/err"); echo "    rc=$? lines=$(wc -l < "$T/out")"
  rm -f "$T/out" "$T/err"
  snap | grep -v '^./out|\|^./err|' > "$T/after"
  if ! diff <(grep -v '^./out|\|^./err|\|^./after|\|^./before|\|^./diff|\|^\.|d|' "$T/before") <(grep -v '^./out|\|^./err|\|^./after|\|^./before|\|^./diff|\|^\.|d|' "$T/after") > "$T/diff"; then echo "    TREE CHANGED:"; sed 's/^/      /' "$T/diff"; fi
}
for rep in report.txt report2.txt; do
run remove --dry-run < "$T/$rep"
run link --dry-run < "$T/$rep"
run link --soft --dry-run < "$T/$rep"
run dedupe --dry-run < "$T/$rep"
run move --dry-run "$T/target" < "$T/$rep"
run move --dry-run target/sub < "$T/$rep"
run remove --dry-run --priority newest --keep-path 'R/a/**' < "$T/$rep"
run remove --dry-run -n 2 --no-lock < "$T/$rep"
run link --dry-run -H < "$T/$rep"
run remove --dry-run --isolate R/a --isolate R/c < "$T/$rep"
done
ls "$T"
rm -r "$T"

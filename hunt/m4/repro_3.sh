#!/bin/bash
# C09: an empty string given as an input path ARGUMENT becomes the path '.', so the whole working
# directory is scanned (the same defect was repaired for the --stdin list only).
# usage: repro_3.sh <checkout>   (uses <checkout>/target/debug/fclones, builds nothing)
CHECKOUT=${1:-/tmp/hunt/m4}
F="$CHECKOUT/target/debug/fclones"
[ -x "$F" ] || F=/tmp/hunt/m4/target/debug/fclones
T=$(mktemp -d /tmp/m4r3XXXXXX) || exit 2
trap 'rm -r "$T"' EXIT

mkdir -p "$T/selected" "$T/other"
echo same > "$T/selected/a"; echo same > "$T/selected/b"
echo same > "$T/other/c"; echo same > "$T/other/d"
cd "$T" || exit 2

echo "== fclones group selected \"\$UNSET_VARIABLE\"   (second argument is the empty string)"
unset UNSET_VARIABLE
out=$("$F" group selected "$UNSET_VARIABLE" 2>"$T/err"); rc=$?
echo "   exit code: $rc"
echo "$out" | grep '^    ' | sed 's/^/  /'
sed 's/^/   stderr: /' "$T/err" | grep -i -E 'error|warn' | head -3
n_other=$(echo "$out" | grep -c '/other/')

echo "== for comparison: the same list given on --stdin (repaired earlier)"
printf 'selected\n\n' | "$F" group --stdin 2>/dev/null | grep '^    ' | sed 's/^/  /'

if [ "$rc" = 0 ] && [ "$n_other" -gt 0 ]; then
  echo "DEFECT PRESENT: the empty path argument was taken as '.', $n_other files of other/ (never named on the command line) were scanned and reported as duplicates"
  exit 1
fi
echo "defect not present (empty argument rejected or ignored)"
exit 0

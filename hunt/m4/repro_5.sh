#!/bin/bash
# C09 (--one-fs "as documented"): the help says "Don't match files on different filesystems or devices",
# but --one-fs only restricts the directory walk; identical files below two input paths that are
# on different filesystems are still reported as one group of duplicates.
# usage: repro_5.sh <checkout>   (uses <checkout>/target/debug/fclones, builds nothing)
CHECKOUT=${1:-/tmp/hunt/m4}
F="$CHECKOUT/target/debug/fclones"
[ -x "$F" ] || F=/tmp/hunt/m4/target/debug/fclones
T=$(mktemp -d /tmp/m4r5XXXXXX) || exit 2
MOUNTED=""; B=""
cleanup() { [ -n "$MOUNTED" ] && umount "$MOUNTED"; [ -n "$B" ] && rm -r "$B"; rm -r "$T"; }
trap cleanup EXIT
mkdir -p "$T/A" "$T/Bmnt"
if mount -t tmpfs none "$T/Bmnt" 2>/dev/null; then MOUNTED="$T/Bmnt"; D2="$T/Bmnt"
elif [ -d /dev/shm ] && [ "$(stat -c %d /dev/shm)" != "$(stat -c %d "$T")" ]; then B=$(mktemp -d /dev/shm/m4r5XXXXXX); D2="$B"
else echo "no second filesystem available, cannot test"; exit 0; fi
echo same > "$T/A/f"; echo same > "$D2/g"
echo "devices: $(stat -c '%d' "$T/A/f") (A/f)  $(stat -c '%d' "$D2/g") (B/g)"
echo "== fclones group A B --one-fs"
out=$("$F" group "$T/A" "$D2" --one-fs 2>/dev/null)
echo "$out" | grep -v '^#' | sed 's/^/   /'
"$F" group --help | grep -A1 -- '--one-fs' | sed 's/^/   help: /'
if echo "$out" | grep -q ' \* 2:'; then
  echo "DEFECT PRESENT: files on different filesystems were matched as duplicates despite --one-fs"
  exit 1
fi
echo "defect not present"
exit 0

#!/bin/bash
# C07 exploration: snapshot a tree, run various group configurations, compare
F=/tmp/hunt/m4/target/debug/fclones
T=$(mktemp -d /tmp/m4c7XXXXXX)
export HOME="$T/home"; mkdir -p "$HOME"
export TMPDIR="$T/tmp"; mkdir -p "$TMPDIR"
R="$T/R"
mkdir -p "$R/a/b" "$R/ro"
echo hello > "$R/a/x"; echo hello > "$R/a/b/y"; echo other > "$R/z"; : > "$R/empty"; : > "$R/empty2"
echo hello > "$R/ro/r"; chmod 444 "$R/ro/r"; chmod 555 "$R/ro"
ln "$R/a/x" "$R/hard"; ln -s a/x "$R/soft"; ln -s nowhere "$R/dangling"
head -c 100000 /dev/urandom > "$R/big1"; cp "$R/big1" "$R/big2"
touch -d '2001-02-03 04:05:06' "$R"/a/x "$R"/z "$R"/big1
snap() { (cd "$R" && find . -printf '%p|%y|%s|%T@|%i|%n|%m|%l\n' | sort; find . -type f -exec md5sum {} + | sort -k2); ls -A "$TMPDIR" | sed 's/^/TMP:/'; }
snap > "$T/before"
run() {
  echo "--- $*"
  (cd "$T" && timeout 60 "$F" group R "$@" >"$T/out" 2>"$T/err"); echo "    rc=$? groups=$(grep -c '^[0-9a-f]\{8,\}' "$T/out")"
  snap > "$T/after"
  if ! diff "$T/before" "$T/after" > "$T/diff"; then echo "    TREE CHANGED:"; sed 's/^/      /' "$T/diff"; cp "$T/after" "$T/before"; fi
}
run
run --min 0
run --transform cat
run --transform 'true'
run --transform 'false'
run --transform 'head -c 3'
run --transform 'cat $IN'
run --transform 'cp $IN $OUT'
run --transform 'sh -c "exit 3" $IN $OUT'
run --transform 'true $IN $OUT'
run --transform 'false $IN'
run --transform 'truncate -s 0 $IN' --in-place
run --transform 'sh -c "echo x >> $0" $IN' --in-place
run --transform 'false $IN' --in-place
run --transform 'rm $IN' --in-place
run --transform 'cat $IN' --no-copy
run --transform 'cp $IN $OUT' --no-copy
run --transform 'true $IN' --in-place --no-copy
run --cache
run --cache --transform cat
run -o "$T/report.txt"
run -S -H
run -L --hidden -A
run --transform 'cat' --min 0 -S
run --transform 'nonexistent-program-xyz'
run --transform ''
chmod 755 "$R/ro"
rm -r "$T"

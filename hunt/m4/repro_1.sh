#!/bin/bash
# C09/C16: an include pattern (--path) whose literal prefix contains a non-ASCII character prunes
# every directory below that prefix, so the matching files are never seen.
# usage: repro_1.sh <checkout>   (uses <checkout>/target/debug/fclones, builds nothing)
CHECKOUT=${1:-/tmp/hunt/m4}
F="$CHECKOUT/target/debug/fclones"
[ -x "$F" ] || F=/tmp/hunt/m4/target/debug/fclones
T=$(mktemp -d /tmp/m4r1XXXXXX) || exit 2
trap 'rm -r "$T"' EXIT

list() { "$F" group "$@" --rf-over 0 2>/dev/null | grep '^    ' | sed 's/^    //' | sort; }

# the same tree twice: once below an ASCII directory, once below a non-ASCII one
for d in z ż; do
  mkdir -p "$T/$d/sub/deep"
  echo same > "$T/$d/top"
  echo same > "$T/$d/sub/a"
  echo same > "$T/$d/sub/deep/b"
done

bad=0

echo "== 1. absolute glob: fclones group T --path 'T/<dir>/**'"
ascii=$(list "$T" --path "$T/z/**" | wc -l)
nonascii=$(list "$T" --path "$T/ż/**" | wc -l)
echo "   files selected below T/z/: $ascii (expected 3)"
echo "   files selected below T/ż/: $nonascii (expected 3)"
[ "$ascii" = 3 ] && [ "$nonascii" != 3 ] && bad=1

echo "== 2. relative glob in a working directory with a non-ASCII name: cd T/ż && fclones group . --path 'sub/**'"
rel_ascii=$(cd "$T/z" && list . --path 'sub/**' | wc -l)
rel_nonascii=$(cd "$T/ż" && list . --path 'sub/**' | wc -l)
echo "   in T/z: $rel_ascii files (expected 2: sub/a sub/deep/b)"
echo "   in T/ż: $rel_nonascii files (expected 2: sub/a sub/deep/b)"
[ "$rel_ascii" = 2 ] && [ "$rel_nonascii" != 2 ] && bad=1

echo "== 3. --regex: the character before '*' is not removed from the prefix when the prefix is non-ASCII"
R=$(mktemp -d /tmp/m4r1bXXXXXX)   # no '.' in the name, so that the whole path is a literal prefix
mkdir -p "$R/d/s" "$R/dż/s" "$R/e/s" "$R/ez/s"
for f in d/s/1 dż/s/2 e/s/1 ez/s/2; do echo same > "$R/$f"; done
re_ascii=$(list "$R" --regex --path "$R/ez*/.*" | wc -l)
re_nonascii=$(list "$R" --regex --path "$R/dż*/.*" | wc -l)
rm -r "$R"
echo "   --path 'R/ez*/.*' selected $re_ascii files (expected 2: e/s/1 ez/s/2)"
echo "   --path 'R/dż*/.*' selected $re_nonascii files (expected 2: d/s/1 dż/s/2)"
[ "$re_ascii" = 2 ] && [ "$re_nonascii" != 2 ] && bad=1

if [ $bad = 1 ]; then
  echo "DEFECT PRESENT: files matching a --path pattern with a non-ASCII literal prefix are missed"
  exit 1
fi
echo "defect not present"
exit 0

#!/bin/bash
# C09: the ignore test is applied to the input paths themselves (fclones/src/walk.rs visit_entry),
# so a rule of the user's global git excludes file silently drops a directory/file given explicitly.
CHECKOUT=${1:-/repo}
F=${1:-/repo}/target/debug/fclones
T=$(mktemp -d /tmp/r2XXXXXX) || exit 2
trap 'rm -rf "$T"' EXIT
mkdir -p "$T/home/.config/git" "$T/proj/build"
printf 'build/\n*.bak\n' > "$T/home/.config/git/ignore"     # a typical global excludes file
echo same > "$T/proj/build/o1"; echo same > "$T/proj/build/o2"
echo same > "$T/proj/x.bak";    echo same > "$T/proj/y.bak"
export HOME="$T/home" XDG_CONFIG_HOME="$T/home/.config"
unset GIT_CONFIG_GLOBAL
count() { grep -c . ; }
cd "$T/proj"
n1=$($F group build --rf-over 0 -f fdupes 2>/dev/null | count)
n2=$(cd build && $F group . --rf-over 0 -f fdupes 2>/dev/null | count)
n3=$($F group x.bak y.bak --rf-over 0 -f fdupes 2>/dev/null | count)
n4=$($F group build --no-ignore --rf-over 0 -f fdupes 2>/dev/null | count)
echo "fclones group build            -> $n1 files (expected 2)"
echo "cd build && fclones group .    -> $n2 files (expected 2)"
echo "fclones group x.bak y.bak      -> $n3 files (expected 2)"
echo "fclones group build --no-ignore-> $n4 files (control, 2)"
if [ "$n4" = 2 ] && { [ "$n1" != 2 ] || [ "$n2" != 2 ] || [ "$n3" != 2 ]; }; then
  echo "DEFECT PRESENT: explicitly given input paths are dropped by the (global) ignore rules, without any message"; exit 1
fi
echo "defect not present"; exit 0

#!/bin/bash
# C09/C16: directory pruning is not conservative when the literal prefix of a --path pattern
# contains a non-ASCII character (fclones/src/regex.rs: is_partial_match, get_fixed_prefix)
CHECKOUT=${1:-/repo}
F=${1:-/repo}/target/debug/fclones
T=$(mktemp -d /tmp/r1XXXXXX) || exit 2
trap 'rm -rf "$T"' EXIT
bad=0
for d in zdjęcia zdjecia; do
  mkdir -p "$T/$d/wakacje/2020"
  echo same > "$T/$d/wakacje/a.jpg"
  echo same > "$T/$d/wakacje/2020/b.jpg"
  echo same > "$T/$d/wakacje/2020/c.jpg"
done
count() { grep -c . ; }

# 1. glob, pattern relative to a working directory with a non-ASCII name
n_ascii=$(cd "$T/zdjecia" && $F group . --path 'wakacje/**' --rf-over 0 -f fdupes 2>/dev/null | count)
n_utf=$(cd "$T/zdjęcia" && $F group . --path 'wakacje/**' --rf-over 0 -f fdupes 2>/dev/null | count)
echo "relative glob 'wakacje/**': cwd zdjecia selects $n_ascii files, cwd zdjęcia selects $n_utf files (expected 3 and 3)"
[ "$n_ascii" = 3 ] && [ "$n_utf" != 3 ] && bad=1

# 2. glob, absolute pattern with a non-ASCII directory name
n_utf=$($F group "$T" --path "$T/zdjęcia/**" --rf-over 0 -f fdupes 2>/dev/null | count)
n_ascii=$($F group "$T" --path "$T/zdjecia/**" --rf-over 0 -f fdupes 2>/dev/null | count)
echo "absolute glob: .../zdjecia/** selects $n_ascii files, .../zdjęcia/** selects $n_utf files (expected 3 and 3)"
[ "$n_ascii" = 3 ] && [ "$n_utf" != 3 ] && bad=1

# 3. --regex: optional character after a non-ASCII one is kept in the fixed prefix
mkdir -p "$T/ż/a" "$T/z/a"
for d in ż z; do echo same > "$T/$d/a/f1"; echo same > "$T/$d/a/f2"; done
n_utf=$($F group "$T" --regex --path "$T/ż/ab?/[^/]*" --rf-over 0 -f fdupes 2>/dev/null | count)
n_ascii=$($F group "$T" --regex --path "$T/z/ab?/[^/]*" --rf-over 0 -f fdupes 2>/dev/null | count)
echo "regex .../z/ab?/[^/]* selects $n_ascii files, .../ż/ab?/[^/]* selects $n_utf files (expected 2 and 2)"
[ "$n_ascii" = 2 ] && [ "$n_utf" != 2 ] && bad=1

if [ $bad = 1 ]; then echo "DEFECT PRESENT: files below a non-ASCII path prefix are pruned"; exit 1; fi
echo "defect not present"; exit 0

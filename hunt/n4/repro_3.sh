#!/bin/bash
# C09: PathSelector::is_absolute (fclones/src/selector.rs) does not look past an inline flag group,
# so an absolute --regex pattern starting with (?i) / (?s) ... gets the working directory prepended.
CHECKOUT=${1:-/repo}
F=${1:-/repo}/target/debug/fclones
T=$(mktemp -d /tmp/r3XXXXXX) || exit 2
trap 'rm -rf "$T"' EXIT
mkdir -p "$T/Photos" "$T/tmp"
echo same > "$T/Photos/a"; echo same > "$T/Photos/b"; echo same > "$T/tmp/c"; echo same > "$T/tmp/d"
count() { grep -c . ; }
cd "$T"
inc_flag=$($F group . --regex --path "(?i)$T/photos/.*" --rf-over 0 -f fdupes 2>/dev/null | count)
inc_opt=$($F group . --regex -i --path "$T/photos/.*" --rf-over 0 -f fdupes 2>/dev/null | count)
exc_flag=$($F group . --regex --exclude "(?i)$T/TMP/.*" --rf-over 0 -f fdupes 2>/dev/null | count)
exc_opt=$($F group . --regex -i --exclude "$T/TMP/.*" --rf-over 0 -f fdupes 2>/dev/null | count)
echo "--regex --path '(?i)$T/photos/.*'    selects $inc_flag files; the same with -i instead of (?i): $inc_opt (expected 2 and 2)"
echo "--regex --exclude '(?i)$T/TMP/.*'    leaves  $exc_flag files; the same with -i instead of (?i): $exc_opt (expected 2 and 2)"
if [ "$inc_opt" = 2 ] && [ "$exc_opt" = 2 ] && { [ "$inc_flag" != 2 ] || [ "$exc_flag" != 2 ]; }; then
  echo "DEFECT PRESENT: absolute regex with a leading inline flag group is treated as relative to the working directory"; exit 1
fi
echo "defect not present"; exit 0

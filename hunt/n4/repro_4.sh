#!/bin/bash
# C16: a `]` cannot be put into a glob character class: `[\]x]` is cut at the escaped bracket
# (fclones/src/pattern.rs glob_to_regex: many0(none_of("]"))), `[]x]` is rejected.
CHECKOUT=${1:-/repo}
F=${1:-/repo}/target/debug/fclones
T=$(mktemp -d /tmp/r4XXXXXX) || exit 2
trap 'rm -rf "$T"' EXIT
for n in 'a]' 'ax' 'a\x]' 'a\]'; do echo same > "$T/$n"; done
got=$($F group "$T" --rf-over 0 -f fdupes --name 'a[\]x]' 2>/dev/null | grep . | sed "s|$T/||" | sort | tr '\n' ' ')
echo "--name 'a[\\]x]' selected: $got   (expected: 'a]' 'ax'; stfu8 output prints a backslash as \\\\)"
err=$($F group "$T" --rf-over 0 -f fdupes --name 'a[]x]' 2>&1 >/dev/null | grep -i "error" | head -1)
echo "--name 'a[]x]' : ${err:-no error}"
case "$got" in
  "a] ax ") echo "defect not present"; exit 0;;
  *) echo "DEFECT PRESENT: escaped ] inside a class ends the class"; exit 1;;
esac

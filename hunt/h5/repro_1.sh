#!/bin/bash
# C10 (and C17 for the empty string): an empty command-line argument is written as nothing into the
# "# Command:" line of the text report, so the dedupe commands read back a different argument vector.
# Usage: repro_1.sh <checkout>     exit 1 = defect present, 0 = not present
CK="${1:-/tmp/hunt/h5}"
F="$CK/target/debug/fclones"; [ -x "$F" ] || F=/tmp/hunt/h5/target/debug/fclones
W=$(mktemp -d) || exit 2
trap 'rm -rf "$W"' EXIT
cd "$W" || exit 2
mkdir d1 d2
echo "same data" > d1/x; cp d1/x d1/y; cp d1/x d2/z

# --exclude '' is harmless for grouping (an empty glob matches nothing), e.g. --exclude "$UNSET_VAR"
"$F" group --isolate --exclude '' d1 d2 2>/dev/null > text.rep
"$F" group --isolate --exclude '' d1 d2 -f json 2>/dev/null > json.rep
echo "command line recorded in the text report:"
grep '^# Command:' text.rep | cat -A
"$F" remove --dry-run < text.rep > text.script 2> text.err; rc_text=$?
"$F" remove --dry-run < json.rep > json.script 2> json.err; rc_json=$?
echo "--- remove --dry-run on the JSON report (rc=$rc_json):"; cat json.script
echo "--- remove --dry-run on the text report (rc=$rc_text):"; cat text.script; grep -E 'error|warn' text.err

# second, simpler manifestation: the empty value is the last argument
"$F" group d1 d2 --exclude '' 2>/dev/null > text2.rep
"$F" remove --dry-run < text2.rep > text2.script 2> text2.err; rc2=$?
echo "--- remove --dry-run on 'group d1 d2 --exclude \"\"' text report (rc=$rc2):"; cat text2.script; grep -E 'error' text2.err

if ! cmp -s text.script json.script || [ $rc_text -ne $rc_json ] || [ $rc2 -ne 0 ]; then
  echo "DEFECT: the text report does not round-trip the argument vector (expected: only d2/z is dropped, d1/x and d1/y are in the same isolated root)"
  exit 1
fi
echo "no defect observed"
exit 0

#!/bin/bash
# C11 (mechanism of C20): with a report from `group -S` a symbolic link and its target are both droppable
# members of a group. The real run locks the link by opening it *through* the link; once the target has
# been removed the open fails with ENOENT and the link is left behind (dangling), while --dry-run lists
# and counts it and the printed script removes it. Depends on the schedule; deterministic with 1 thread.
# Usage: repro_3.sh <checkout>     exit 1 = defect present, 0 = not present
CK="${1:-/tmp/hunt/h5}"
F="$CK/target/debug/fclones"; [ -x "$F" ] || F=/tmp/hunt/h5/target/debug/fclones
W=$(mktemp -d) || exit 2
trap 'rm -rf "$W"' EXIT
cd "$W" || exit 2
mk() { rm -rf t; mkdir -p t/a t/b; echo "precious data" > t/a/K; cp t/a/K t/b/A; ln -s A t/b/Z; touch -h -d '2020-01-01' t/a/K t/b/A t/b/Z; }
mk
"$F" group -S t 2>/dev/null > rep.txt
grep -v '^#' rep.txt
"$F" remove --dry-run < rep.txt > script.sh 2> dry.err
echo "--- dry run:"; cat script.sh; grep -o 'Would process.*' dry.err
dry_n=$(grep -o 'Would process [0-9]*' dry.err | grep -o '[0-9]*')
bash script.sh; echo "tree after the printed script:"; (cd t && find . | sort)
find t | sort > tree.script
mk
RAYON_NUM_THREADS=1 "$F" remove < rep.txt > /dev/null 2> real.err
echo "--- real run:"; grep -E 'warn|Processed' real.err | sed 's/^[^]]*] //'
real_n=$(grep -o 'Processed [0-9]*' real.err | grep -o '[0-9]*')
echo "tree after the real run:"; (cd t && find . | sort); ls -l t/b
find t | sort > tree.real
if ! cmp -s tree.script tree.real || [ "$dry_n" != "$real_n" ]; then
  echo "DEFECT: dry run announced $dry_n files, real run processed $real_n; final trees differ (dangling link t/b/Z left behind)"
  exit 1
fi
echo "no defect observed"
exit 0

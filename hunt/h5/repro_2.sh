#!/bin/bash
# C11: as an unprivileged user, duplicates without write permission (mode 0444) are listed by --dry-run
# (and the printed script removes them), but the real run fails on every one of them, because the lock
# taken before each operation opens the file for writing (lock.rs FileLock::new).
# Usage: repro_2.sh <checkout>     exit 1 = defect present, 0 = not present
CK="${1:-/tmp/hunt/h5}"
F="$CK/target/debug/fclones"; [ -x "$F" ] || F=/tmp/hunt/h5/target/debug/fclones
W=$(mktemp -d) || exit 2
trap 'chmod -R u+w "$W" 2>/dev/null; rm -rf "$W"' EXIT
chmod 755 "$W"
mkdir -p "$W/t/a" "$W/t/b"
echo "some data" > "$W/t/a/x"; cp "$W/t/a/x" "$W/t/b/y"
chmod 444 "$W/t/a/x" "$W/t/b/y"
U=""
if [ "$(id -u)" = 0 ]; then
  # root ignores file permissions: drop privileges
  chown -R 65534:65534 "$W"
  if command -v setpriv >/dev/null; then U="setpriv --reuid=65534 --regid=65534 --clear-groups"
  else echo "need setpriv to drop privileges"; exit 2; fi
fi
cd "$W" || exit 2
$U "$F" group t 2>/dev/null > rep.txt || { echo "group failed"; exit 2; }
$U "$F" remove --dry-run < rep.txt > script.sh 2> dry.err
echo "--- dry run:"; cat script.sh; grep -o 'Would process.*' dry.err
dry_n=$(grep -o 'Would process [0-9]*' dry.err | grep -o '[0-9]*')
$U "$F" remove < rep.txt > /dev/null 2> real.err
echo "--- real run:"; grep -E 'warn|Processed' real.err | sed 's/^[^]]*] //'
real_n=$(grep -o 'Processed [0-9]*' real.err | grep -o '[0-9]*')
still=0; [ -e t/b/y ] && still=1
echo "t/b/y still exists after the real run: $still"
# what the printed script does on the same tree
$U bash script.sh < /dev/null; echo "bash script rc=$?; t/b/y exists afterwards: $([ -e t/b/y ] && echo 1 || echo 0)"
if [ "$dry_n" != "$real_n" ] || [ $still = 1 ]; then
  echo "DEFECT: dry run announced $dry_n file(s), the real run processed $real_n"
  exit 1
fi
echo "no defect observed"
exit 0

#!/bin/bash
# C11 (summary): a duplicate whose file name is longer than 230 bytes is listed and counted by
# `link --dry-run`, but the real run cannot process it: FsCommand::temp_file appends a 25-byte
# ".<random>" suffix to the *whole* file name, which exceeds NAME_MAX (255), so the rename fails.
# Usage: repro_4.sh <checkout>     exit 1 = defect present, 0 = not present
CK="${1:-/tmp/hunt/h5}"
F="$CK/target/debug/fclones"; [ -x "$F" ] || F=/tmp/hunt/h5/target/debug/fclones
W=$(mktemp -d) || exit 2
trap 'rm -rf "$W"' EXIT
cd "$W" || exit 2
mkdir -p t/a t/b
N=$(printf 'n%.0s' $(seq 1 240))
echo "data data" > t/a/x; cp t/a/x "t/b/$N"
"$F" group t 2>/dev/null > rep.txt
bad=0
for op in "link" "link --soft"; do
  "$F" $op --dry-run < rep.txt > /dev/null 2> dry.err
  dry_n=$(grep -o 'Would process [0-9]*' dry.err | grep -o '[0-9]*')
  "$F" $op < rep.txt > /dev/null 2> real.err
  real_n=$(grep -o 'Processed [0-9]*' real.err | grep -o '[0-9]*')
  echo "$op: dry run announces $dry_n file(s), real run processed $real_n"
  grep -o 'Failed to rename file' real.err | head -1; grep -o 'File name too long.*' real.err | head -1
  [ "$dry_n" = "$real_n" ] || bad=1
done
if [ $bad = 1 ]; then echo "DEFECT: summary of the dry run differs from the real run"; exit 1; fi
echo "no defect observed"; exit 0

#!/usr/bin/env python3
import os, sys, random, subprocess, shutil, tempfile, re, hashlib
F="/tmp/hunt/r3/target/debug/fclones"
def mk(root, rnd):
    dirs=["a","b","a/sub","c",".hid"]
    for d in dirs: os.makedirs(os.path.join(root,d),exist_ok=True)
    contents=[("C%d-"%i)*(10+i) for i in range(4)]
    files=[]
    for i in range(rnd.randint(4,10)):
        d=rnd.choice(dirs); n=rnd.choice(["f","g",".h","x y","q'"])+str(i)
        p=os.path.join(root,d,n)
        open(p,"w").write(rnd.choice(contents)); os.utime(p,(1500000000+i,1500000000+i)); files.append(p)
    links=[]
    for i in range(rnd.randint(0,6)):
        kind=rnd.choice(["hard","sym","symrel","symchain","symdir"])
        d=rnd.choice(dirs); p=os.path.join(root,d,"L%d"%i)
        try:
            if kind=="hard": os.link(rnd.choice(files),p); files.append(p)
            elif kind=="sym": os.symlink(rnd.choice(files),p); links.append(p)
            elif kind=="symrel": t=rnd.choice(files); os.symlink(os.path.relpath(t,os.path.dirname(p)),p); links.append(p)
            elif kind=="symchain" and links: t=rnd.choice(links); os.symlink(os.path.relpath(t,os.path.dirname(p)),p); links.append(p)
            elif kind=="symdir": os.symlink(rnd.choice(dirs).split("/")[0], os.path.join(root,"D%d"%i))
        except OSError: pass
def snap(root):
    out=[]
    for dp,dn,fn in os.walk(root):
        for n in sorted(fn+dn):
            p=os.path.join(dp,n); rel=os.path.relpath(p,root)
            st=os.lstat(p)
            if os.path.islink(p): out.append((rel,"l",os.readlink(p).replace(root,"<R>")))
            elif os.path.isdir(p): out.append((rel,"d"))
            else: out.append((rel,"f",open(p,"rb").read(),st.st_nlink))
    # hard link classes
    inodes={}
    for dp,dn,fn in os.walk(root):
        for n in fn:
            p=os.path.join(dp,n)
            if not os.path.islink(p): inodes.setdefault(os.lstat(p).st_ino,[]).append(os.path.relpath(p,root))
    classes=sorted(tuple(sorted(v)) for v in inodes.values() if len(v)>1)
    return sorted(out),classes
def summary(s):
    m=re.search(r'(?:Would process|Processed) (\d+) files and (?:reclaim|reclaimed) (.*) space',s)
    return m.groups() if m else None
def main():
    seed0=int(sys.argv[1]) if len(sys.argv)>1 else 0
    n=int(sys.argv[2]) if len(sys.argv)>2 else 50
    W=tempfile.mkdtemp()
    for seed in range(seed0,seed0+n):
        rnd=random.Random(seed)
        T=W+"/T"; 
        for d in ("T","real","scr","out_real","out_scr"):
            shutil.rmtree(W+"/"+d,ignore_errors=True)
        os.makedirs(T+"/t"); mk(T+"/t",rnd)
        gflags=rnd.choice([[],["-S"],["-H"],["-S","-H"],["-L"],["-."],["-S","-."],["--isolate"]])
        roots=rnd.choice([["t"],["t/a","t/b","t/c"],["t/a","t"],["t/b","t/a","t/c","t/.hid"]])
        dflags=rnd.choice([[],["--priority","newest"],["--priority","top"],["--priority","most-nested"],["--rf-over","2"],["--keep-path","**/a/**"],["--name","*1*"]])
        # same absolute location for both runs: run in T, snapshot, restore
        r=subprocess.run([F,"group"]+gflags+roots+["-o",W+"/rep"],cwd=T,capture_output=True,text=True)
        if r.returncode!=0: continue
        shutil.copytree(T,W+"/orig",symlinks=True) if not os.path.exists(W+"/orig") else None
        for op in (["remove"],["link"],["link","--soft"],["move",W+"/out"]):
            # preserve tree: copy T -> backup, run real in T, snapshot, restore T from backup, run script in T
            bk=W+"/bk"; shutil.rmtree(bk,ignore_errors=True); subprocess.run(["cp","-a",T,bk],check=True)
            shutil.rmtree(W+"/out",ignore_errors=True)
            dry=subprocess.run([F]+op+dflags+["--dry-run"],stdin=open(W+"/rep"),cwd=T,capture_output=True,text=True)
            after_dry=snap(T)
            real=subprocess.run([F]+op+dflags,stdin=open(W+"/rep"),cwd=T,capture_output=True,text=True)
            sreal=snap(T)
            sd,sr=summary(dry.stderr),summary(real.stderr)
            tag=f"seed={seed} g={gflags} roots={roots} d={dflags} op={op}"
            if os.environ.get("V"): print(tag,sd,sr)
            if sd!=sr:
                print("SUMMARY DIFF",tag,sd,sr)
                print("   real warn:",[l[40:200] for l in real.stderr.splitlines() if "warn" in l][:5])
                print("   dry warn:",[l[40:200] for l in dry.stderr.splitlines() if "warn" in l][:5])
            if "panicked" in real.stderr or "panicked" in dry.stderr: print("PANIC",tag)
            shutil.rmtree(T); subprocess.run(["cp","-a",bk,T],check=True)
            if op[0]!="move":
                scr=subprocess.run(["bash","-c",dry.stdout],cwd=T,capture_output=True,text=True)
                sscr=snap(T)
                if sscr!=sreal:
                    print("TREE DIFF",tag)
                    a=set(map(repr,sreal[0])); b=set(map(repr,sscr[0]))
                    print("   only real:",sorted(a-b)[:6]); print("   only script:",sorted(b-a)[:6]); print("   classes",sreal[1],sscr[1])
                    print("   bash err:",scr.stderr[:300])
                shutil.rmtree(T); subprocess.run(["cp","-a",bk,T],check=True)
    shutil.rmtree(W)
main()

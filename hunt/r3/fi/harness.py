#!/usr/bin/env python3
import os, sys, subprocess, shutil, tempfile, re, hashlib, itertools
F="/tmp/hunt/r3/target/debug/fclones"
SO="/tmp/hunt/r3-out/fi/fi.so"
TMP_RE=re.compile(r'\.[A-Za-z0-9]{24}$')

def mktree(root):
    os.makedirs(root+"/k"); os.makedirs(root+"/d1"); os.makedirs(root+"/d2")
    def w(p,c):
        open(root+"/"+p,"w").write(c)
        os.utime(root+"/"+p,(1500000000,1500000000))
    w("k/K1","one-"*50); w("d1/A1","one-"*50); w("d2/B1","one-"*50)
    w("k/K2","two-"*70); w("d1/A2","two-"*70); os.link(root+"/d1/A2",root+"/d2/A2h")
    w("k/K3","three"*30); w("d2/B3","three"*30); os.chmod(root+"/d2/B3",0o444)
    os.symlink("../d1/A1", root+"/d2/Z1")

def snap(root):
    res={}
    for dp,dn,fn in os.walk(root):
        for n in fn+dn:
            p=os.path.join(dp,n); st=os.lstat(p)
            rel=os.path.relpath(p,root)
            if os.path.islink(p): res[rel]=("l",os.readlink(p),st.st_ino)
            elif os.path.isdir(p): res[rel]=("d",)
            else: res[rel]=("f",hashlib.md5(open(p,"rb").read()).hexdigest(),st.st_ino,st.st_nlink,st.st_mtime,st.st_mode&0o7777)
    return res

def content(p):
    try: return hashlib.md5(open(p,"rb").read()).hexdigest()
    except Exception as e: return None

def run(op, extra_group, env_extra, W, target=None):
    c=W+"/c"
    if os.path.exists(c): shutil.rmtree(c)
    for d in (W+"/out","/dev/shm/r3fi"):
        if os.path.exists(d): shutil.rmtree(d)
    mktree(c)
    before=snap(c)
    rep=W+"/rep"
    subprocess.run([F,"group",c,"-o",rep]+extra_group,stderr=subprocess.DEVNULL,check=True)
    env=dict(os.environ); env.update({"RAYON_NUM_THREADS":"1","LD_PRELOAD":SO,"FI_PATH":"/","FI_FDCALLS":"1","FI_LOG":W+"/log"})
    env["FI_PATH"]=W if not target or target.startswith(W) else "/"
    env.update(env_extra)
    if os.path.exists(W+"/log"): os.remove(W+"/log")
    cmd=[F]+op.split()+([target] if target else [])
    p=subprocess.run(cmd,stdin=open(rep),stdout=subprocess.PIPE,stderr=subprocess.PIPE,env=env,text=True)
    log=open(W+"/log").read() if os.path.exists(W+"/log") else ""
    after=snap(c)
    global RETAINED
    RETAINED=set()
    prev=None
    for l in open(rep):
        if l.startswith("    "):
            if prev is not None and not prev.startswith("    "): RETAINED.add(os.path.relpath(l.strip(),c))
        prev=l
    return before,after,p,log

def analyse(op,before,after,p,log,crash,target,W):
    problems=[]
    m=re.search(r'Processed (\d+) files',p.stderr)
    processed=int(m.group(1)) if m else None
    c=W+"/c"
    changed=0
    for rel,info in before.items():
        if info[0]=="d": continue
        a=after.get(rel)
        orig_content = info[1] if info[0]=="f" else before[os.path.normpath(os.path.join(os.path.dirname(rel),info[1]))][1]
        if rel in RETAINED:
            # retained: must be identical except nlink/ctime
            if a is None or a[0]!="f" or a[1]!=info[1] or a[2]!=info[2] or a[4]!=info[4] or a[5]!=info[5]:
                problems.append(f"retained {rel} touched: {info} -> {a}")
            continue
        if a==info or (a and info[0]=="f" and a[0]=="f" and a[:3]==info[:3] and a[4:]==info[4:]): continue  # untouched (nlink may differ)
        # changed or missing
        cur=content(os.path.join(c,rel)) if a else None
        if a is None:
            # removed / moved
            if op.startswith("remove"):
                changed+=1; continue
            if op.startswith("move"):
                t=os.path.join(target,"."+c,rel)
                tc=content(t)
                if tc==orig_content: changed+=1; continue
                # crash: temp?
                problems.append(f"{rel} missing, target content {tc}")
                continue
            # link ops: crash allowed with tmp sibling
            sibs=[n for n in after if os.path.dirname(n)==os.path.dirname(rel) and os.path.basename(n).startswith(os.path.basename(rel)+".") ]
            ok=any(after[s][0]==info[0] and after[s][1]==info[1] for s in sibs)
            if crash and ok: continue
            problems.append(f"{rel} missing (sibs {sibs}) crash={crash}")
            continue
        if cur!=orig_content:
            problems.append(f"{rel} content changed {info} -> {a}")
            continue
        changed+=1
    # leftovers
    for rel in after:
        if rel not in before and TMP_RE.search(rel):
            if not crash and "emporary" not in p.stderr and "undo" not in p.stderr:
                problems.append(f"leftover {rel} without warning")
            elif not crash:
                problems.append(f"(leftover {rel} with warning)")
    if op.startswith("move") and os.path.exists(target):
        # files in target that are not complete copies
        for dp,dn,fn in os.walk(target):
            for n in fn:
                t=os.path.join(dp,n); rel=os.path.relpath(t,os.path.join(target,"."+c))
                src=before.get(rel)
                if src is None: problems.append(f"unexpected target file {t}"); continue
                if os.path.lexists(os.path.join(c,rel)) :
                    problems.append(f"target {rel} exists AND source still there (crash={crash})")
    if not crash and processed is not None and processed!=changed:
        problems.append(f"processed={processed} but changed={changed}")
    return problems,processed,changed

def main():
    W=tempfile.mkdtemp()
    ops=sys.argv[1:] or ["link","link --soft","remove","move:in","move:shm"]
    for opspec in ops:
        extra=[]
        op=opspec
        if opspec.endswith("+S"): op=opspec[:-2]; extra=["-S"]
        target=None
        if op.startswith("move"):
            target={"in":W+"/out","shm":"/dev/shm/r3fi"}[op.split(":")[1]]; op="move"
        b,a,p,log=run(op,extra,{},W,target)
        n=len([l for l in log.splitlines() if " pass" in l])
        pr,proc,ch=analyse(op,b,a,p,log,False,target,W)
        print(f"=== {opspec}: baseline calls={n} processed={proc} changed={ch} problems={pr}")
        basecalls=log.splitlines()
        for k in range(1,n+1):
            for mode,errn in (("fail","5"),("fail","1"),("kill_before","0"),("kill_after","0")):
                env={"FI_FUNC":"any","FI_NTH":str(k),"FI_MODE":mode,"FI_ERRNO":errn}
                b,a,p,log=run(op,extra,env,W,target)
                pr,proc,ch=analyse(op,b,a,p,log,mode!="fail",target,W)
                pr=[x for x in pr if not x.startswith("(")]
                if pr:
                    hit=[l for l in log.splitlines() if "FAIL" in l or "KILL" in l]
                    print(f"--- {opspec} k={k} {mode} errno={errn} hit={hit} rc={p.returncode} processed={proc} changed={ch}")
                    for x in pr: print("     ",x)
                    for l in p.stderr.splitlines():
                        if "warn" in l or "error" in l: print("      |",l[:300])
        if "--pairs" in os.environ.get("FI_HARNESS",""):
            for k1 in range(1,n+1):
                for k2 in range(k1+1,n+3):
                    env={"FI_FUNC":"any","FI_NTH":str(k1),"FI_NTH2":str(k2),"FI_MODE":"fail","FI_ERRNO":"5"}
                    b,a,p,log=run(op,extra,env,W,target)
                    pr,proc,ch=analyse(op,b,a,p,log,False,target,W)
                    pr=[x for x in pr if not x.startswith("(")]
                    if pr:
                        hit=[l for l in log.splitlines() if "FAIL" in l]
                        print(f"--- PAIR {opspec} k={k1},{k2} hit={hit} processed={proc} changed={ch}")
                        for x in pr: print("     ",x)
                        for l in p.stderr.splitlines():
                            if "warn" in l or "error" in l: print("      |",l[:300])
    shutil.rmtree(W)
main()

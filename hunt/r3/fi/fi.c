#define _GNU_SOURCE
#include <dlfcn.h>
#include <errno.h>
#include <fcntl.h>
#include <stdarg.h>
#include <stdio.h>
#include <stdlib.h>
#include <string.h>
#include <sys/stat.h>
#include <sys/types.h>
#include <unistd.h>
#include <signal.h>

static int counter = 0;
static const char *cfg_func, *cfg_path, *cfg_mode, *cfg_log;
static int cfg_nth = 0, cfg_nth2 = 0, cfg_errno = 5, inited = 0;

static void init(void) {
    if (inited) return;
    inited = 1;
    cfg_func = getenv("FI_FUNC");
    cfg_path = getenv("FI_PATH");
    cfg_mode = getenv("FI_MODE");
    cfg_log = getenv("FI_LOG");
    if (getenv("FI_NTH")) cfg_nth = atoi(getenv("FI_NTH"));
    if (getenv("FI_NTH2")) cfg_nth2 = atoi(getenv("FI_NTH2"));
    if (getenv("FI_ERRNO")) cfg_errno = atoi(getenv("FI_ERRNO"));
}

static void logcall(const char *func, const char *p1, const char *p2, int n, const char *what) {
    if (!cfg_log) return;
    int fd = ((int (*)(const char *, int, ...))dlsym(RTLD_NEXT, "open"))(cfg_log, O_WRONLY | O_APPEND | O_CREAT, 0644);
    if (fd < 0) return;
    char buf[8192];
    int len = snprintf(buf, sizeof buf, "%s %d %s %s %s\n", func, n, p1 ? p1 : "-", p2 ? p2 : "-", what);
    ssize_t r = write(fd, buf, len); (void)r;
    close(fd);
}

/* returns 0: proceed; 1: fail with errno; 2: kill before; 3: kill after */
static int check(const char *func, const char *p1, const char *p2) {
    init();
    if (!cfg_path) return 0;
    if (!((p1 && strstr(p1, cfg_path)) || (p2 && strstr(p2, cfg_path)))) return 0;
    /* count all matching mutating calls in one sequence when FI_FUNC=any */
    int isany = cfg_func && strcmp(cfg_func, "any") == 0;
    if (cfg_func && !isany && strcmp(cfg_func, func) != 0) { logcall(func, p1, p2, 0, "other"); return 0; }
    int n = __sync_add_and_fetch(&counter, 1);
    if (cfg_func && n == cfg_nth2 && cfg_nth2) { logcall(func, p1, p2, n, "FAIL2"); return 1; }
    if (!cfg_func || n != cfg_nth) { logcall(func, p1, p2, n, "pass"); return 0; }
    if (cfg_mode && strcmp(cfg_mode, "kill_before") == 0) { logcall(func, p1, p2, n, "KILL_BEFORE"); _exit(137); }
    if (cfg_mode && strcmp(cfg_mode, "kill_after") == 0) { logcall(func, p1, p2, n, "KILL_AFTER"); return 3; }
    logcall(func, p1, p2, n, "FAIL");
    return 1;
}

#define REAL(name) static typeof(&name) real = 0; if (!real) real = dlsym(RTLD_NEXT, #name)

int rename(const char *a, const char *b) {
    REAL(rename);
    int c = check("rename", a, b);
    if (c == 1) { errno = cfg_errno; return -1; }
    int r = real(a, b);
    if (c == 3) _exit(137);
    return r;
}
int link(const char *a, const char *b) {
    REAL(link);
    int c = check("link", a, b);
    if (c == 1) { errno = cfg_errno; return -1; }
    int r = real(a, b);
    if (c == 3) _exit(137);
    return r;
}
int linkat(int fa, const char *a, int fb, const char *b, int flags) {
    REAL(linkat);
    int c = check("link", a, b);
    if (c == 1) { errno = cfg_errno; return -1; }
    int r = real(fa, a, fb, b, flags);
    if (c == 3) _exit(137);
    return r;
}
int symlink(const char *a, const char *b) {
    REAL(symlink);
    int c = check("symlink", a, b);
    if (c == 1) { errno = cfg_errno; return -1; }
    int r = real(a, b);
    if (c == 3) _exit(137);
    return r;
}
int unlink(const char *a) {
    REAL(unlink);
    int c = check("unlink", a, 0);
    if (c == 1) { errno = cfg_errno; return -1; }
    int r = real(a);
    if (c == 3) _exit(137);
    return r;
}
int mkdir(const char *a, mode_t m) {
    REAL(mkdir);
    int c = check("mkdir", a, 0);
    if (c == 1) { errno = cfg_errno; return -1; }
    int r = real(a, m);
    if (c == 3) _exit(137);
    return r;
}
static int is_write(int flags) { return (flags & O_ACCMODE) != O_RDONLY || (flags & O_CREAT); }
int open64(const char *a, int flags, ...) {
    REAL(open64);
    mode_t m = 0;
    if (flags & O_CREAT) { va_list ap; va_start(ap, flags); m = va_arg(ap, mode_t); va_end(ap); }
    int c = check(is_write(flags) ? "openw" : "openr", a, 0);
    if (c == 1) { errno = cfg_errno; return -1; }
    int r = real(a, flags, m);
    if (c == 3) _exit(137);
    return r;
}
int open(const char *a, int flags, ...) {
    REAL(open);
    mode_t m = 0;
    if (flags & O_CREAT) { va_list ap; va_start(ap, flags); m = va_arg(ap, mode_t); va_end(ap); }
    int c = check(is_write(flags) ? "openw" : "openr", a, 0);
    if (c == 1) { errno = cfg_errno; return -1; }
    int r = real(a, flags, m);
    if (c == 3) _exit(137);
    return r;
}
int openat(int d, const char *a, int flags, ...) {
    REAL(openat);
    mode_t m = 0;
    if (flags & O_CREAT) { va_list ap; va_start(ap, flags); m = va_arg(ap, mode_t); va_end(ap); }
    int c = check(is_write(flags) ? "openw" : "openr", a, 0);
    if (c == 1) { errno = cfg_errno; return -1; }
    int r = real(d, a, flags, m);
    if (c == 3) _exit(137);
    return r;
}
int openat64(int d, const char *a, int flags, ...) {
    REAL(openat64);
    mode_t m = 0;
    if (flags & O_CREAT) { va_list ap; va_start(ap, flags); m = va_arg(ap, mode_t); va_end(ap); }
    int c = check(is_write(flags) ? "openw" : "openr", a, 0);
    if (c == 1) { errno = cfg_errno; return -1; }
    int r = real(d, a, flags, m);
    if (c == 3) _exit(137);
    return r;
}
/* calls without a path: matched with the pseudo path "<fd>" only when FI_PATH is set to it
   or when FI_FDCALLS=1 */
static int fdcheck(const char *func) {
    init();
    if (!getenv("FI_FDCALLS")) return 0;
    return check(func, cfg_path, 0);
}
ssize_t copy_file_range(int fi, off64_t *oi, int fo, off64_t *oo, size_t len, unsigned flags) {
    REAL(copy_file_range);
    int c = fdcheck("copy_file_range");
    if (c == 1) { errno = cfg_errno; return -1; }
    ssize_t r = real(fi, oi, fo, oo, len, flags);
    if (c == 3) _exit(137);
    return r;
}
int fchmod(int fd, mode_t m) {
    REAL(fchmod);
    int c = fdcheck("fchmod");
    if (c == 1) { errno = cfg_errno; return -1; }
    int r = real(fd, m);
    if (c == 3) _exit(137);
    return r;
}

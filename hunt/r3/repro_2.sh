#!/bin/bash
# C05 (timestamps restored, reflink.rs reflink()): `fclones dedupe` saves and restores the
# modification time of the parent directory per command; commands of different groups run in
# parallel, so a command can take its "original" snapshot after another thread has already
# created its temporary file in the same directory, and restore that wrong value last.
CHECKOUT=${1:-/repo}
F=$CHECKOUT/target/debug/fclones
W=$(mktemp -d) || exit 2
trap 'rm -rf "$W"' EXIT
cd "$W" || exit 2
mkdir -p t/a t/b
for i in $(seq 1 300); do echo "content-$i-xxxxxxxxxxxxxxxx" > t/a/f$i; cp t/a/f$i t/b/g$i; done
"$F" group t -o rep 2>/dev/null || exit 2
STAMP='2021-03-04 05:06:07.123456789'
bad=0
for run in 1 2 3 4 5; do
  touch -d "$STAMP" t/a t/b
  before=$(stat -c '%y' t/b)
  out=$(RAYON_NUM_THREADS=4 "$F" dedupe <rep 2>&1)
  after=$(stat -c '%y' t/b)
  echo "run $run: $(echo "$out" | grep -o 'Processed [0-9]* files'); mtime of t/b before: $before after: $after"
  [ "$before" != "$after" ] && bad=1
done
touch -d "$STAMP" t/a t/b
RAYON_NUM_THREADS=1 "$F" dedupe <rep >/dev/null 2>&1
echo "with one thread: mtime of t/b after: $(stat -c '%y' t/b)"
if [ $bad = 1 ]; then echo "DEFECT PRESENT: dedupe changed the modification time of the directory it claims to keep"; exit 1; fi
echo "defect not present"; exit 0

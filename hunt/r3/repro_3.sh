#!/bin/bash
# C11/C18 (repair of D92/D89 incomplete): check_preconditions()/check_can_rename() only look whether
# the target exists and whether its first existing ancestor is a directory. A target directory
# that cannot be created for another reason visible beforehand (no write permission, here) is
# still announced by `move --dry-run`, while the real run processes nothing.
CHECKOUT=${1:-/repo}
F=$CHECKOUT/target/debug/fclones
W=$(mktemp -d) || exit 2
trap 'chmod -R u+w "$W" 2>/dev/null; rm -rf "$W"' EXIT
cd "$W" || exit 2
chmod 755 "$W"
mkdir -p t/a t/b out
echo hello-world-1 > t/a/x; cp t/a/x t/b/y
"$F" group t -o rep 2>/dev/null || exit 2
chmod 644 rep
chmod 555 out
if [ "$(id -u)" = 0 ]; then
  command -v setpriv >/dev/null || { echo "root without setpriv: cannot test"; exit 0; }
  chown -R 65534:65534 t
  RUN="setpriv --reuid=65534 --regid=65534 --clear-groups"
  $RUN test -x "$F" || { echo "binary not accessible for the unprivileged user: cannot test"; exit 0; }
else
  RUN=""
fi
dry=$($RUN "$F" move out --dry-run <rep 2>&1)
real=$($RUN "$F" move out <rep 2>&1)
echo "--- dry run:";  echo "$dry" | grep -v 'Started'
echo "--- real run:"; echo "$real" | grep -v 'Started'
d=$(echo "$dry" | grep -o 'Would process [0-9]* files'); r=$(echo "$real" | grep -o 'Processed [0-9]* files')
if [ "$d" = "Would process 1 files" ] && [ "$r" = "Processed 0 files" ]; then
  echo "DEFECT PRESENT: the dry run announces a move whose target directory cannot be created"; exit 1
fi
echo "defect not present"; exit 0

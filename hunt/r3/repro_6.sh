#!/bin/bash
# C05/C18 (pair of failures; result of the roll-back dropped): move_copy() undoes a failed copy with
# `let _ = fs::remove_file(target)`. When that fails too, the incomplete file stays under DIR and
# nothing is logged about it (safe_remove() does log a failed roll-back).
# Needs strace for the fault injection and /dev/shm on another device.
CHECKOUT=${1:-/repo}
F=$CHECKOUT/target/debug/fclones
command -v strace >/dev/null || { echo "strace not available: cannot test"; exit 0; }
W=$(mktemp -d) || exit 2
X=$(mktemp -d -p /dev/shm) || { echo "no /dev/shm: cannot test"; exit 0; }
trap 'rm -rf "$W" "$X"' EXIT
[ "$(stat -c %d "$W")" != "$(stat -c %d "$X")" ] || { echo "/dev/shm is on the same device: cannot test"; exit 0; }
cd "$W" || exit 2
mkdir -p t/a t/b; echo hello-world-1 > t/a/x; cp t/a/x t/b/y
"$F" group t -o rep 2>/dev/null || exit 2
out=$(strace -f -o /dev/null -e trace=copy_file_range,unlink \
      -e inject=copy_file_range:error=ENOSPC -e inject=unlink:error=EIO "$F" move "$X/out" <rep 2>&1)
echo "$out" | grep -v Started | cut -c1-220
left=$(find "$X" -type f -printf '%p (%s bytes)\n')
echo "source still in place: $(ls t/b)"
echo "files left under DIR: ${left:-none}"
warned=$(echo "$out" | grep -c -i 'failed to remove\|incomplete')
if [ -n "$left" ] && [ "$warned" = 0 ]; then echo "DEFECT PRESENT: an incomplete copy stays under DIR and no warning mentions it"; exit 1; fi
echo "defect not present"; exit 0

#!/bin/bash
# Locking (repair 5b01a09 "the lock on a file was released before the file was processed" is incomplete):
# the lock is a POSIX fcntl() record lock, which the kernel drops as soon as the process closes ANY
# descriptor of that file. A cross-device `move` copies the source with fs::copy(), which opens and
# closes the source once more, so the lock is gone before the source is removed.
# (reflink.rs does the same: reflink_into() opens and closes the file to be replaced while making the backup.)
# Needs strace (to widen the window between the end of the copy and the unlink) and /dev/shm on another device.
CHECKOUT=${1:-/repo}
F=$CHECKOUT/target/debug/fclones
command -v strace >/dev/null || { echo "strace not available: cannot test"; exit 0; }
W=$(mktemp -d) || exit 2
X=$(mktemp -d -p /dev/shm) || { echo "no /dev/shm: cannot test"; exit 0; }
trap 'rm -rf "$W" "$X"' EXIT
[ "$(stat -c %d "$W")" != "$(stat -c %d "$X")" ] || { echo "/dev/shm is on the same device: cannot test"; exit 0; }
cd "$W" || exit 2
cat > probe.py <<'PY'
import fcntl, sys, time
p = sys.argv[1]; got = 0; busy = 0
for i in range(60):
    try: f = open(p, "r+b")
    except FileNotFoundError: break
    try:
        fcntl.lockf(f, fcntl.LOCK_EX | fcntl.LOCK_NB); got += 1; fcntl.lockf(f, fcntl.LOCK_UN)
    except OSError: busy += 1
    f.close(); time.sleep(0.05)
print("another process: lock refused %d times, lock OBTAINED %d times while fclones was working on the file" % (busy, got))
sys.exit(1 if got else 0)
PY
prepare() { rm -rf t out; mkdir -p t/a t/b; echo hello-world-1 > t/a/x; cp t/a/x t/b/y; sleep 1.1; "$F" group t -o rep 2>/dev/null; }
prepare
echo "--- move within one device (rename delayed by 1.5 s):"
(strace -f -o /dev/null -e trace=rename -e inject=rename:delay_enter=1500000 "$F" move "$W/out" <rep 2>&1 | grep -o 'Processed.*') &
sleep 0.6; python3 probe.py "$W/t/b/y"; same=$?; wait
prepare
echo "--- move to another device (unlink of the source delayed by 1.5 s):"
(strace -f -o /dev/null -e trace=unlink -e inject=unlink:delay_enter=1500000 "$F" move "$X/out" <rep 2>&1 | grep -o 'Processed.*') &
sleep 0.6; python3 probe.py "$W/t/b/y"; cross=$?; wait
if [ $same = 0 ] && [ $cross = 1 ]; then echo "DEFECT PRESENT: the lock is released before the source of a cross-device move is removed"; exit 1; fi
echo "defect not present (or not observable)"; exit 0

#!/bin/bash
# C11/C05 (sibling of D44): link / link --soft fail with ENAMETOOLONG on files whose absolute path
# is longer than PATH_MAX-26 bytes, because the temporary sibling is <path> + 25 bytes.
# --dry-run lists them and `remove` handles them.
CHECKOUT=${1:-/repo}
F=$CHECKOUT/target/debug/fclones
W=$(mktemp -d) || exit 2
trap 'rm -rf "$W"' EXIT
cd "$W" || exit 2
python3 - <<'PY' || exit 2
import os
W=os.getcwd()
os.makedirs("t/keep")
open("t/keep/k","w").write("same content 123456789\n")
comp="d"*200
p=W+"/t/deep"
os.mkdir(p)
fd=os.open(p,os.O_RDONLY)
cur=p
while len(cur)+1+200 < 4060:
    os.mkdir(comp,dir_fd=fd)
    nfd=os.open(comp,os.O_RDONLY,dir_fd=fd); os.close(fd); fd=nfd
    cur=cur+"/"+comp
name="f"*(4080-len(cur)-1)          # absolute path of the duplicate: 4080 bytes (< PATH_MAX = 4096)
f=os.open(name,os.O_WRONLY|os.O_CREAT,0o644,dir_fd=fd); os.write(f,b"same content 123456789\n"); os.close(f)
print("length of the path of the duplicate:",len(cur+"/"+name),"file name length:",len(name))
PY
"$F" group t -o rep 2>/dev/null || exit 2
bad=0
for op in "link" "link --soft"; do
  dry=$("$F" $op --dry-run <rep 2>&1 >/dev/null | grep -o 'Would process [0-9]* files')
  out=$("$F" $op <rep 2>&1)
  real=$(echo "$out" | grep -o 'Processed [0-9]* files')
  err=$(echo "$out" | grep -o 'File name too long[^)]*)' | head -1)
  echo "fclones $op: dry run: '$dry'   real run: '$real'   $err"
  if [ "$dry" = "Would process 1 files" ] && [ "$real" = "Processed 0 files" ] && [ -n "$err" ]; then bad=1; fi
done
echo "fclones remove on the same report: $("$F" remove <rep 2>&1 | grep -o 'Processed [0-9]* files')"
if [ $bad = 1 ]; then echo "DEFECT PRESENT: the temporary name <path>+25 bytes exceeds PATH_MAX"; exit 1; fi
echo "defect not present"; exit 0

#!/bin/bash
# C11 (printer, dedupe.rs log_script): when writing the script fails (closed pipe, full disk) the error
# is returned from the scope closure, the receiver is dropped, and the producer thread panics in
# `tx.send(item).unwrap()`; the scope then panics too. Instead of "Output error: ..." and exit code 1
# the dry run ends with Rust panics and exit code 101 (SIGABRT in release builds, panic = "abort").
CHECKOUT=${1:-/repo}
F=$CHECKOUT/target/debug/fclones
W=$(mktemp -d) || exit 2
trap 'rm -rf "$W"' EXIT
cd "$W" || exit 2
mkdir -p t/a t/b
for i in $(seq 1 50); do echo "content-$i-xxxxxxxxxxxxxxxx" > t/a/f$i; cp t/a/f$i t/b/g$i; done
"$F" group t -o rep 2>/dev/null || exit 2
bad=0
RUST_BACKTRACE=0 "$F" remove --dry-run <rep 2>err1 | head -1 >/dev/null; rc1=${PIPESTATUS[0]}
echo "fclones remove --dry-run | head -1      : exit code $rc1, panics: $(grep -c panicked err1), 'Output error' lines: $(grep -c 'Output error' err1)"
grep -m1 -A1 panicked err1
if [ -e /dev/full ]; then
  RUST_BACKTRACE=0 "$F" remove --dry-run -o /dev/full <rep >/dev/null 2>err2; rc2=$?
  echo "fclones remove --dry-run -o /dev/full   : exit code $rc2, panics: $(grep -c panicked err2), 'Output error' lines: $(grep -c 'Output error' err2)"
  grep -q panicked err2 && bad=1
fi
grep -q panicked err1 && bad=1
if [ $bad = 1 ]; then echo "DEFECT PRESENT: a failed write of the dry-run script makes fclones panic"; exit 1; fi
echo "defect not present"; exit 0

#!/bin/bash
# C07 (temporary files are gone afterwards): group --transform interrupted by SIGINT (Ctrl-C)
# or SIGTERM leaves its temporary directory behind, with private copies of the user's files.
# usage: repro_3.sh [checkout]      exit 1 = defect present, 0 = not present
CHECKOUT=${1:-/repo}
F=$CHECKOUT/target/debug/fclones
W=$(mktemp -d); cd "$W" || exit 2
mkdir t tmp
for i in $(seq 1 200); do echo "secret $i" > t/f$i; done
printf '#!/bin/sh\nsleep 0.2\ncat "$1"\n' > slowcat.sh; chmod +x slowcat.sh
rc=0
for sig in INT TERM; do
  # (a background job of a non-interactive shell ignores SIGINT, so let timeout(1) deliver it)
  TMPDIR=$W/tmp timeout -s $sig 1.5 "$F" group t --transform "$W/slowcat.sh \$IN" > /dev/null 2> err.txt
  st=$?
  sleep 1   # let the running transform programs finish
  left=$(find tmp -mindepth 1 | wc -l)
  echo "SIG$sig after 1.5 s: timeout exit status $st; entries left under \$TMPDIR: $left"
  find tmp -mindepth 1 -type f | head -3 | while read -r f; do echo "   $f: $(cat "$f")"; done
  [ "$left" -gt 0 ] && rc=1
  rm -r tmp; mkdir tmp
done
[ $rc -eq 1 ] && echo "DEFECT: temporary directory and copies of scanned files left behind" || echo "defect not present"
cd /; rm -r "$W"
exit $rc

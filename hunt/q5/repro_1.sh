#!/bin/bash
# C12: group --cache serves the hashes of deleted files to new files that got their inode
# numbers, when the new files come with restored time stamps (tar, rsync -a, cp -p, unzip).
# usage: repro_1.sh [checkout]      exit 1 = defect present, 0 = not present
CHECKOUT=${1:-/repo}
F=$CHECKOUT/target/debug/fclones
W=$(mktemp -d); cd "$W" || exit 2
export HOME=$W/home XDG_CACHE_HOME=$W/home/.cache; mkdir -p "$HOME"
N=100
# An archive whose members all carry the same time stamp (git archive, reproducible tarballs,
# a directory copied in one go on a file system with 1 s time stamps ...).
mkdir -p src/d src/e src/keep
for i in $(seq 1 $N); do
  head -c 4096 /dev/urandom > src/d/f$i      # unique
  head -c 4096 /dev/urandom > src/e/g$i      # unique, unrelated to everything else
  cp src/d/f$i src/keep/x$i                  # the only real duplicates: d/f<i> == keep/x<i>
done
tar -C src --mtime=@1500000000 -cf data.tar d e keep
mkdir work; cd work || exit 2
tar xf ../data.tar keep d
echo "run 1: group --cache over keep/ + d/ : $($F group . --cache 2>/dev/null | grep -c '^[0-9a-f]*, ') groups (expected $N)"
ls -i d | awk '{print $1}' | sort > ../ino_d.txt
rm -r d                       # delete ...
tar xf ../data.tar e          # ... and create other files (ext4 hands out the freed inode numbers again)
ls -i e | awk '{print $1}' | sort > ../ino_e.txt
echo "inode numbers of d/ reused by e/: $(comm -12 ../ino_d.txt ../ino_e.txt | wc -l)"
$F group .         2>/dev/null | grep -v '^#' > ../uncached.txt
$F group . --cache 2>/dev/null | grep -v '^#' > ../cached.txt
echo "run 2: uncached: $(grep -c '^[0-9a-f]*, ' ../uncached.txt) groups; cached: $(grep -c '^[0-9a-f]*, ' ../cached.txt) groups"
head -3 ../cached.txt
a=$(sed -n 2p ../cached.txt | sed 's/^    //'); b=$(sed -n 3p ../cached.txt | sed 's/^    //')
if [ -n "$a" ] && [ -n "$b" ]; then
  cmp "$a" "$b" >/dev/null 2>&1 && echo "these two files are identical" || echo "these two files DIFFER, but are reported as duplicates"
fi
if cmp -s ../uncached.txt ../cached.txt; then
  echo "cached == uncached: defect not present (or no inode number was reused on this file system)"
  rc=0
else
  echo "DEFECT: the cached run reports other groups than the uncached run"
  rc=1
fi
cd /; rm -r "$W"
exit $rc

#!/bin/bash
# C13 (every run terminates): group --transform '... $OUT' hangs for ever when the program
# creates its output by replacing $OUT (unlink + create, or temporary file + rename) instead
# of opening the existing named pipe: install, cp --remove-destination, mv, rsync, and every
# tool that writes its result "atomically".
# usage: repro_2.sh [checkout]      exit 1 = defect present, 0 = not present
CHECKOUT=${1:-/repo}
F=$CHECKOUT/target/debug/fclones
W=$(mktemp -d); cd "$W" || exit 2
mkdir t tmp
echo "content A" > t/a1; echo "content A" > t/a2; echo "content B" > t/b
# a tool that works for a moment and then publishes its result atomically (temp file + rename)
printf '#!/bin/sh\nsleep 0.3\ncp "$1" "$2.tmp" && mv "$2.tmp" "$2"\n' > atomic.sh; chmod +x atomic.sh
rc=0
try() {
  start=$(date +%s)
  TMPDIR=$W/tmp timeout -k 2 15 "$F" group t --transform "$1" > out.txt 2> err.txt
  st=$?
  echo "--transform '$1': exit status $st after $(( $(date +%s) - start )) s, $(grep -c '^    ' out.txt) paths reported"
  if [ $st -eq 124 ] || [ $st -eq 137 ]; then
    echo "   -> did not finish within 15 s (3 files of 10 bytes), killed"
    rc=1
  fi
}
try 'cp $IN $OUT'                      # control: opens the pipe, works
try "$W/atomic.sh \$IN \$OUT"          # deterministic
for i in 1; do                         # standard tools: a race that fclones nearly always loses
  try 'install -m 644 $IN $OUT'
  try 'cp --remove-destination $IN $OUT'
done
[ $rc -eq 1 ] && echo "DEFECT: group hangs when the transform program replaces \$OUT" || echo "defect not present"
cd /; rm -r "$W"
exit $rc

#!/bin/bash
# C05/C18: a reported symbolic link whose own command is refused (or fails) is left dangling,
# because the file it points to is removed / moved all the same.
CHECKOUT=${1:-/repo}
F=$CHECKOUT/target/debug/fclones
[ -x "$F" ] || F=${1:-/repo}/target/debug/fclones
S=$(mktemp -d)
trap 'chmod -R u+rwx "$S" 2>/dev/null; rm -rf "$S"' EXIT
mk() {
  rm -rf $S/t; mkdir -p $S/t/0k $S/t/a $S/t/l
  echo hello > $S/t/0k/x; echo hello > $S/t/a/x; ln -s ../a/x $S/t/l/x
  touch -h -d 2020-01-01 $S/t/0k/x $S/t/a/x $S/t/l/x
}
mk
$F group -S $S/t -o $S/rep 2>/dev/null
echo "report:"; grep '^    ' $S/rep | sed "s|$S||"
defect=0
# 1. move: the place of the link in the target directory is taken (e.g. by an earlier run)
mkdir -p $S/trash$S/t/l; echo old > $S/trash$S/t/l/x
echo "--- fclones move trash (trash/.../t/l/x exists already)"
$F move $S/trash < $S/rep 2>&1 | grep -o 'warn:.*\|Processed.*' | sed "s|$S||g"
if [ -L $S/t/l/x ] && ! cat $S/t/l/x >/dev/null 2>&1; then
  echo "t/l/x was left in place ($(readlink $S/t/l/x)) but dangles: t/a/x has been moved away"; defect=1
else
  echo "t/l/x readable or gone: ok"
fi
[ "$(cat $S/trash$S/t/l/x)" = old ] || { echo "existing file in trash was altered"; defect=1; }
# 2. remove: the directory of the link cannot be modified (read-only for a user, immutable for root)
mk
if [ "$(id -u)" = 0 ]; then chattr +i $S/t/l 2>/dev/null || chmod 555 $S/t/l; else chmod 555 $S/t/l; fi
echo "--- fclones remove (directory t/l cannot be modified)"
$F remove < $S/rep 2>&1 | grep -o 'warn:.*\|Processed.*' | sed "s|$S||g"
[ "$(id -u)" = 0 ] && chattr -i $S/t/l 2>/dev/null
if [ -L $S/t/l/x ] && ! cat $S/t/l/x >/dev/null 2>&1; then
  echo "t/l/x was refused and left in place but dangles: t/a/x has been removed"; defect=1
else
  echo "t/l/x readable or gone: ok"
fi
[ $defect = 1 ] && { echo "DEFECT PRESENT: a path that was refused with a warning lost its content"; exit 1; }
echo "no defect"; exit 0

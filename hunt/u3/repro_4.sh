#!/bin/bash
# C11: --dry-run announces files in an append-only directory (chattr +a DIR) and hard links to an
# immutable retained file (chattr +i); the real run fails on them. Needs root and a file system with chattr.
CHECKOUT=${1:-/repo}
F=$CHECKOUT/target/debug/fclones
[ -x "$F" ] || F=${1:-/repo}/target/debug/fclones
S=$(mktemp -d)
cleanup() { chattr -R -a -i "$S" 2>/dev/null; rm -rf "$S"; }
trap cleanup EXIT
mkdir -p $S/t/a $S/t/b
echo hello > $S/t/a/x; echo hello > $S/t/b/x
touch -d 2020-01-01 $S/t/a/x $S/t/b/x
$F group $S/t -o $S/rep 2>/dev/null
defect=0
if ! chattr +a $S/t/b 2>/dev/null; then echo "cannot set the append-only attribute here (not root or no chattr support): not tested"; exit 0; fi
for op in remove link "link --soft" "move $S/out"; do
  dry=$($F $op --dry-run < $S/rep 2>&1 >/dev/null | grep -o 'Would process [0-9]* files')
  real=$($F $op < $S/rep 2>&1 | grep -o 'Processed [0-9]* files\|warn:.*' | sed "s|$S||g" | tr '\n' ';')
  echo "append-only directory t/b, fclones $op: dry run: $dry; real run: $real"
  case "$dry/$real" in "Would process 1 files/"*"Processed 0 files"*) defect=1;; esac
done
chattr -a $S/t/b
# second place: the retained file of `link` is immutable, link(2) answers EPERM
chattr +i $S/t/a/x
dry=$($F link --dry-run < $S/rep 2>&1 >/dev/null | grep -o 'Would process [0-9]* files')
real=$($F link < $S/rep 2>&1 | grep -o 'Processed [0-9]* files\|warn:.*' | sed "s|$S||g" | tr '\n' ';')
echo "immutable retained file t/a/x, fclones link: dry run: $dry; real run: $real"
case "$dry/$real" in "Would process 1 files/"*"Processed 0 files"*) defect=1;; esac
chattr -i $S/t/a/x
[ $defect = 1 ] && { echo "DEFECT PRESENT: dry run announces operations the real run refuses"; exit 1; }
echo "no defect"; exit 0

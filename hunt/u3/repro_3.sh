#!/bin/bash
# C11: a duplicate the user can neither read nor write (mode 0000) but may remove (the directory is his)
# is announced by --dry-run; the real run refuses it because the lock cannot open it.
CHECKOUT=${1:-/repo}
F=$CHECKOUT/target/debug/fclones
[ -x "$F" ] || F=${1:-/repo}/target/debug/fclones
S=$(mktemp -d)
trap 'chmod -R u+rwx "$S" 2>/dev/null; rm -rf "$S"' EXIT
chmod 755 $S
mkdir -p $S/t/a $S/t/b
echo hello > $S/t/a/x; echo hello > $S/t/b/x
touch -d 2020-01-01 $S/t/a/x $S/t/b/x
$F group $S/t -o $S/rep 2>/dev/null     # the report is made while the file is readable (or by root)
chmod 644 $S/rep
chmod 000 $S/t/b/x                       # chmod does not change the modification time
if [ "$(id -u)" = 0 ]; then
  chown -R 65534:65534 $S/t
  AS="setpriv --reuid 65534 --regid 65534 --clear-groups"
else
  AS=""
fi
cp -a $S/t $S/bak
defect=0
for op in remove link "link --soft" "move $S/t/out"; do
  $AS $F $op --dry-run < $S/rep > $S/script 2> $S/dry.err
  dry=$(grep -o 'Would process [0-9]* files' $S/dry.err)
  real=$($AS $F $op < $S/rep 2>&1 | grep -o 'Processed [0-9]* files\|warn:.*' | sed "s|$S||g" | tr '\n' ';')
  echo "fclones $op: dry run: $dry; real run: $real"
  case "$dry/$real" in "Would process 1 files/"*"Processed 0 files"*) defect=1;; esac
  rm -rf $S/t; cp -a $S/bak $S/t
done
# the printed script does remove the file, the real run does not
$AS $F remove --dry-run < $S/rep > $S/script 2>/dev/null
chmod 644 $S/script
echo "script: $(cat $S/script | sed "s|$S||g")"
$AS bash $S/script < /dev/null
[ -e $S/t/b/x ] && echo "after bash script: t/b/x still there" || echo "after bash script: t/b/x removed"
rm -rf $S/t; cp -a $S/bak $S/t
$AS $F remove < $S/rep >/dev/null 2>&1
[ -e $S/t/b/x ] && echo "after fclones remove: t/b/x still there" || echo "after fclones remove: t/b/x removed"
$AS $F remove --no-lock < $S/rep 2>&1 | grep -o 'Processed [0-9]* files' | sed 's/^/with --no-lock: /'
[ $defect = 1 ] && { echo "DEFECT PRESENT: dry run announces a file the real run refuses to lock"; exit 1; }
echo "no defect"; exit 0

#!/bin/bash
# C07: `fclones dedupe --dry-run` opens every file it would deduplicate for writing (check_can_overwrite).
# On overlayfs (the root file system of every Docker/Podman container) that copies the file up:
# the dry run consumes disk space and breaks the hard links of the scanned tree.
# Needs root (mount -t overlay).
CHECKOUT=${1:-/repo}
F=$CHECKOUT/target/debug/fclones
[ -x "$F" ] || F=${1:-/repo}/target/debug/fclones
S=$(mktemp -d)
cleanup() { mountpoint -q $S/m && umount $S/m; rm -rf "$S"; }
trap cleanup EXIT
mkdir -p $S/lower/a $S/lower/b $S/upper $S/work $S/m
head -c 1000000 /dev/urandom > $S/lower/a/x
cp $S/lower/a/x $S/lower/b/x
ln $S/lower/b/x $S/lower/b/y
touch -d 2020-01-01 $S/lower/*/*
if ! mount -t overlay overlay -o lowerdir=$S/lower,upperdir=$S/upper,workdir=$S/work $S/m 2>/dev/null; then
  echo "cannot mount an overlay file system here: not tested"; exit 0
fi
$F group $S/m -o $S/rep 2>/dev/null
snap() { (cd $S/m && stat -c '%n nlink=%h size=%s mtime=%Y' */* ; echo "b/x and b/y same inode: $([ b/x -ef b/y ] && echo yes || echo no)"); echo "upper layer: $(find $S/upper -type f | wc -l) files, $(du -sk $S/upper | cut -f1) KB"; }
echo "--- before"; snap > $S/before; cat $S/before
for op in remove link "link --soft" "move $S/out"; do $F $op --dry-run < $S/rep >/dev/null 2>&1; done
snap > $S/after0
cmp -s $S/before $S/after0 && echo "--- remove/link/move --dry-run: tree unchanged" || { echo "--- remove/link/move --dry-run changed the tree:"; cat $S/after0; }
echo "--- fclones dedupe --dry-run"
$F dedupe --dry-run < $S/rep 2>&1 >/dev/null | grep -o 'Would process.*'
snap > $S/after; cat $S/after
if cmp -s $S/before $S/after; then echo "no defect"; exit 0; fi
echo "DEFECT PRESENT: the dry run changed the scanned tree (hard link broken / data copied to the upper layer)"
exit 1

#!/bin/bash
# C09: a symbolic link input path that has the same name as its target makes the PARENT
# directories aliases of each other (PathSelector::add_input_path pops the equal last components).
CHECKOUT="${1:-/repo}"
F="$CHECKOUT/target/debug/fclones"
T=$(mktemp -d)
T=$(cd "$T" && pwd -P)
trap 'rm -rf "$T"' EXIT
mkdir -p "$T/home" "$T/data/Documents" "$T/data/tmp"
ln -s ../data/Documents "$T/home/Documents"      # the usual kind of link: same name as its target
echo AAAA > "$T/data/Documents/a"; echo AAAA > "$T/data/Documents/b"
echo BBBB > "$T/data/tmp/c";       echo BBBB > "$T/data/tmp/d"
cd "$T/home" || exit 2

# 'tmp/**' is relative to the working directory $T/home, where no tmp exists: it describes no scanned file
OUT=$("$F" group Documents ../data --exclude 'tmp/**' 2>/dev/null | grep '^    ')
echo "group Documents ../data --exclude 'tmp/**' reports:"; echo "$OUT"
# control: the same without the link argument
CTL=$("$F" group ../data --exclude 'tmp/**' 2>/dev/null | grep '^    ')

# the dedupe side uses the same aliases
"$F" group Documents ../data 2>/dev/null > "$T/report.txt"
RM=$("$F" remove --path 'tmp/*' --dry-run < "$T/report.txt" 2>/dev/null)
echo "remove --path 'tmp/*' --dry-run prints: $RM"

BAD=0
if ! echo "$OUT" | grep -q "/data/tmp/c"; then
  echo "DEFECT: $T/data/tmp/c,d were excluded by a pattern anchored at $T/home (control run reports them: $(echo "$CTL" | grep -c /data/tmp/) lines)"
  BAD=1
fi
if echo "$RM" | grep -q "/data/tmp/"; then
  echo "DEFECT: remove --path 'tmp/*' (= $T/home/tmp/*) wants to remove a file of $T/data/tmp"
  BAD=1
fi
[ $BAD = 0 ] && echo "OK: not reproduced"
exit $BAD

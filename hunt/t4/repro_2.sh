#!/bin/bash
# C16/C09: a glob alternation whose FIRST alternative is absolute-looking (starts with ** or /) makes
# the whole pattern absolute; the relative alternatives then never match (PathSelector::is_absolute).
CHECKOUT="${1:-/repo}"
F="$CHECKOUT/target/debug/fclones"
T=$(mktemp -d)
T=$(cd "$T" && pwd -P)
trap 'rm -rf "$T"' EXIT
mkdir -p "$T/raw" "$T/sub/deep" "$T/cache"
echo AAAA > "$T/raw/r1";         echo AAAA > "$T/raw/r2"
echo JJJJ > "$T/sub/deep/a.jpg"; echo JJJJ > "$T/sub/b.jpg"
echo CCCC > "$T/cache/c1";       echo CCCC > "$T/cache/c2"
cd "$T" || exit 2
run() { "$F" group . "$@" 2>/dev/null | grep '^    ' | sed "s|$T/||" | sort | tr -d ' ' | tr '\n' ' '; }

A=$(run --path '{**/*.jpg,raw/*}')
B=$(run --path '{raw/*,**/*.jpg}')
C=$(run --path '**/*.jpg' --path 'raw/*')
echo "--path '{**/*.jpg,raw/*}'      : $A"
echo "--path '{raw/*,**/*.jpg}'      : $B"
echo "--path '**/*.jpg' --path 'raw/*': $C"
X=$(run --exclude '{**/*.jpg,cache/**}')
Y=$(run --exclude '{cache/**,**/*.jpg}')
echo "--exclude '{**/*.jpg,cache/**}': $X"
echo "--exclude '{cache/**,**/*.jpg}': $Y"
R1=$(run --regex --path '.*\.jpg|raw/.*')
R2=$(run --regex --path 'raw/.*|.*\.jpg')
echo "--regex --path '.*\.jpg|raw/.*': $R1"
echo "--regex --path 'raw/.*|.*\.jpg': $R2"
BAD=0
[ "$A" != "$B" ] && { echo "DEFECT: the order of the alternatives in {..} changes the selected files (raw/* is dead in the first form)"; BAD=1; }
[ "$X" != "$Y" ] && { echo "DEFECT: --exclude '{**/*.jpg,cache/**}' does not exclude cache/**"; BAD=1; }
[ "$R1" != "$R2" ] && { echo "DEFECT: the same with --regex and a|b"; BAD=1; }
[ $BAD = 0 ] && echo "OK: not reproduced"
exit $BAD

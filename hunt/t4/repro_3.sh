#!/bin/bash
# C09: the documented form `--name '*.jpg' '*.png'` / `--exclude '/dev/**' '/proc/**'` (README.md) takes only
# the first pattern; the second becomes an input path: an error with arguments, silently dropped with --stdin.
CHECKOUT="${1:-/repo}"
F="$CHECKOUT/target/debug/fclones"
T=$(mktemp -d)
T=$(cd "$T" && pwd -P)
trap 'rm -rf "$T"' EXIT
mkdir -p "$T/d"
echo A > "$T/d/a.jpg"; echo A > "$T/d/b.jpg"; echo B > "$T/d/c.png"; echo B > "$T/d/d.png"; echo C > "$T/d/e.txt"; echo C > "$T/d/f.txt"
cd "$T/d" || exit 2
echo "README: fclones group . --name '*.jpg' '*.png'"
"$F" group . --name '*.jpg' '*.png' > "$T/out1" 2> "$T/err1"; RC=$?
grep -h "error" "$T/err1"; echo "exit code $RC, $(grep -c '^    ' "$T/out1") files reported"
echo "find . -type f | fclones group --stdin --name '*.jpg' '*.png'"
find . -type f | "$F" group --stdin --name '*.jpg' '*.png' > "$T/out2" 2> "$T/err2"; RC2=$?
grep '^    ' "$T/out2"; grep -h "warn\|error" "$T/err2"
echo "exit code $RC2"
BAD=0
if ! grep -q 'c.png' "$T/out1"; then echo "DEFECT: the documented command does not select the png files (fails on the second pattern)"; BAD=1; fi
if [ $RC2 = 0 ] && ! grep -q 'c.png' "$T/out2"; then echo "DEFECT: with --stdin the second pattern is dropped without a word"; BAD=1; fi
[ $BAD = 0 ] && echo "OK: not reproduced"
exit $BAD

#!/bin/bash
# C13: `group --transform '... $OUT'` leaks one blocked thread (with a reserved file descriptor)
# for about every second file. When the leak reaches the open-files limit the remaining files
# fail with "Too many open files" and silently drop out of the report; how many do differs
# from run to run. The same tree with a transform that writes to stdout is reported in full.
CO=${1:-/repo}
F=${1:-/repo}/target/debug/fclones
[ -x "$F" ] || F="$CO/target/debug/fclones"
S=$(mktemp -d) || exit 2
trap 'rm -rf "$S"' EXIT
cd "$S" || exit 2
mkdir -p d tmp
export TMPDIR="$S/tmp"
N=1500
for i in $(seq 1 $N); do echo "content $((i % 500))" > d/f$i; done   # 500 groups of 3 files

ulimit -n 512 || exit 2      # soft and hard limit; a common default is 1024
echo "open files limit: $(ulimit -n); files in the tree: $N, every file has 2 duplicates"

ref=$("$F" group d --transform 'cat' 2>/dev/null | grep -c '^    ')
echo "transform 'cat' (stdout):               $ref paths reported"

rc=0
for run in 1 2 3; do
  "$F" group d --transform 'dd status=none if=$IN of=$OUT' > out.$run 2> err.$run &
  P=$!
  maxthr=0
  while kill -0 $P 2>/dev/null; do
    t=$(ls /proc/$P/task 2>/dev/null | wc -l); [ "$t" -gt "$maxthr" ] && maxthr=$t
    sleep 0.05
  done
  wait $P
  n=$(grep -c '^    ' out.$run)
  w=$(grep -c 'Too many open files' err.$run)
  echo "transform 'dd if=\$IN of=\$OUT' run $run:      $n paths reported, $w files failed with 'Too many open files', max threads seen $maxthr"
  [ "$n" != "$ref" ] && rc=1
done
grep -m1 'Too many open files' err.1
if [ $rc = 1 ]; then
  echo "DEFECT: files are missing from the report of the \$OUT transform"
else
  echo "no defect observed"
fi
exit $rc

#!/bin/bash
# C13: with --follow-links the report depends on the order of the input paths / thread timing,
# because the .gitignore rules applied inside a directory are those inherited along the route
# that reached the directory first, and the directory is then marked as visited for all routes.
CO=${1:-/repo}
F=${1:-/repo}/target/debug/fclones
[ -x "$F" ] || F="$CO/target/debug/fclones"
S=$(mktemp -d) || exit 2
trap 'rm -rf "$S"' EXIT
cd "$S" || exit 2
mkdir -p r1/sub r2
printf 'x\n' > r1/.gitignore          # r1 ignores every file named x below it
echo data > r1/sub/x
echo data > r1/sub/y
echo data > r2/z
ln -s ../r1/sub r2/l                  # second route to r1/sub, not under r1/.gitignore

body() { "$F" group -L "$@" 2>/dev/null | grep -v '^#'; }

A=$(body -t 1 r1 r2)
B=$(body -t 1 r2 r1)
echo "== fclones group -L -t 1 r1 r2"; echo "$A"
echo "== fclones group -L -t 1 r2 r1"; echo "$B"
rc=0
if [ "$A" != "$B" ]; then
  echo "DEFECT: the report body depends on the order of the input paths"
  rc=1
fi
# the same command line, default thread pools, repeated
declare -A seen
for i in $(seq 1 40); do
  n=$(body r1 r2 | grep -c '^    ')
  seen[$n]=1
done
echo "numbers of reported paths seen in 40 identical runs (default threads): ${!seen[*]}"
if [ "${#seen[@]}" -gt 1 ]; then
  echo "DEFECT: identical runs gave different reports"
  rc=1
fi
[ $rc = 0 ] && echo "no defect observed"
exit $rc

#!/bin/bash
# C13 ("every run terminates"): `group --transform ... --in-place` hangs forever when the
# transform program writes more than a pipe buffer (64 KiB) to its standard output.
CO=${1:-/repo}
F=${1:-/repo}/target/debug/fclones
[ -x "$F" ] || F="$CO/target/debug/fclones"
S=$(mktemp -d) || exit 2
trap 'rm -rf "$S"' EXIT
cd "$S" || exit 2
mkdir -p d tmp
export TMPDIR="$S/tmp"
echo one > d/a
echo one > d/b
cat > verbose.sh <<'EOS'
#!/bin/sh
# modifies the file given as $1 in place and prints a log to the standard output
tr a-z A-Z < "$1" > "$1.new" && mv "$1.new" "$1"
head -c "${NOISE:-100000}" /dev/zero | tr '\0' '.'
echo
EOS
chmod +x verbose.sh

echo "== small log on stdout (1000 bytes)"
NOISE=1000 timeout 30 "$F" group d --in-place --transform "$S/verbose.sh \$IN" 2>/dev/null | grep -v '^#'
echo "exit status: ${PIPESTATUS[0]}"
echo "== large log on stdout (100000 bytes), time limit 20 s"
NOISE=100000 timeout 20 "$F" group d --in-place --transform "$S/verbose.sh \$IN" 2>/dev/null | grep -v '^#'
st=${PIPESTATUS[0]}
echo "exit status: $st"
pkill -f "$S/verbose.sh" 2>/dev/null
if [ "$st" = 124 ]; then
  echo "DEFECT: fclones group did not terminate (killed by timeout)"
  exit 1
fi
echo "no defect observed"
exit 0

#!/bin/bash
# C06/C14 (cost): the replica count under --isolate compares every file with every root
# (FileSubGroup::group, group.rs:495-523), about a dozen times per run: the run time grows with
# files x roots. 300 roots with 20 files each: seconds instead of a fraction of a second.
# usage: repro_2.sh <checkout>   (uses <checkout>/target/debug/fclones, builds nothing)
CHECKOUT=${1:-/repo}
F=$CHECKOUT/target/debug/fclones
[ -x "$F" ] || F=${1:-/repo}/target/debug/fclones
T=$(mktemp -d)
trap 'rm -rf "$T"' EXIT
ROOTS=300
FILES=20
n=0
for i in $(seq $ROOTS); do
    mkdir -p "$T/tree/a$i"
    for k in $(seq $FILES); do
        # two copies of every content, both in the same root: nothing to report with --isolate
        echo "content $((n / 2))" > "$T/tree/a$i/f$k"
        n=$((n + 1))
    done
done
cd "$T/tree" || exit 2
cpu() { # prints user+system CPU seconds of the command
    local out
    out=$( { /usr/bin/time -f '%U %S' "$@" > /dev/null 2> "$T/stderr.txt"; } 2>&1 )
    tail -1 "$T/stderr.txt" | awk '{print $1 + $2}'
}
PLAIN=$(cpu "$F" group --threads 1 -o /dev/null .)
TWO=$(cpu "$F" group --threads 1 -o /dev/null --isolate a1 a2)
ISO=$(cpu "$F" group --threads 1 -o /dev/null --isolate a*)
echo "CPU seconds: group . = $PLAIN;  group --isolate a1 a2 = $TWO;  group --isolate a* ($ROOTS roots, $((ROOTS * FILES)) files) = $ISO"
RATIO=$(awk -v a="$ISO" -v b="$PLAIN" 'BEGIN { if (b < 0.05) b = 0.05; printf "%d", a / b }')
echo "ratio isolate/plain = $RATIO"
if [ "$RATIO" -ge 8 ]; then
    echo "DEFECT PRESENT: --isolate with $ROOTS roots costs $RATIO times the CPU time of the same scan without it"
    exit 1
fi
echo "defect not observed"
exit 0

#!/bin/bash
# C19: the directory walk opens directories without a permit of the open-file semaphore:
# with more walker threads than descriptors, read_dir fails with EMFILE, whole directories are
# dropped with a warning only, and `group` still exits 0 with a partial report.
# usage: repro_1.sh <checkout>   (uses <checkout>/target/debug/fclones, builds nothing)
CHECKOUT=${1:-/repo}
F=$CHECKOUT/target/debug/fclones
[ -x "$F" ] || F=${1:-/repo}/target/debug/fclones
T=$(mktemp -d)
trap 'rm -rf "$T"' EXIT
DIRS=150
FILES=800
for i in $(seq $DIRS); do
    mkdir -p "$T/tree/d$i"
    (cd "$T/tree/d$i" && seq -f 'f%g' $FILES | xargs touch)
done
EXPECTED=$((DIRS * FILES))

# baseline: the same descriptor limit, few threads: every file is reported
(ulimit -n 32; "$F" group -s 0 --threads 4 "$T/tree" > "$T/base.txt" 2> "$T/base.err"; echo $? > "$T/base.rc")
BASE=$(grep -c '^    /' "$T/base.txt")
echo "baseline  (ulimit -n 32, --threads 4):   exit $(cat "$T/base.rc"), $BASE of $EXPECTED paths reported, $(grep -c 'Too many open files' "$T/base.err") EMFILE warnings"

present=0
for attempt in 1 2 3 4 5; do
    (ulimit -n 32; "$F" group -s 0 --threads 256 "$T/tree" > "$T/out.txt" 2> "$T/err.txt"; echo $? > "$T/rc")
    RC=$(cat "$T/rc")
    GOT=$(grep -c '^    /' "$T/out.txt")
    EMFILE=$(grep -c 'Failed to read dir.*Too many open files' "$T/err.txt")
    echo "attempt $attempt (ulimit -n 32, --threads 256): exit $RC, $GOT of $EXPECTED paths reported, $EMFILE 'Failed to read dir ... Too many open files' warnings"
    if [ "$RC" = "0" ] && [ "$EMFILE" -gt 0 ] && [ "$GOT" -lt "$EXPECTED" ]; then
        present=1
        grep 'Failed to read dir' "$T/err.txt" | head -2
        break
    fi
done
if [ $present = 1 ]; then
    echo "DEFECT PRESENT: the walk exceeded the descriptor budget; directories were left out and fclones exited 0"
    exit 1
fi
echo "defect not observed"
exit 0

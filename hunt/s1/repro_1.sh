#!/bin/bash
# C03/C01: a hard-linked path that is replaced during the run by a copy of the files of
# ANOTHER group is hashed, but is never put together with that group.
CHECKOUT=${1:-/repo}
F=$CHECKOUT/target/debug/fclones
T=$(mktemp -d)
trap 'rm -rf "$T"' EXIT
export XDG_CACHE_HOME=$T/cache
mkdir "$T/t"
mk() { printf "$2" > "$1"; truncate -s 120M "$1"; }     # sparse, quick to create
mk "$T/t/a" A; ln "$T/t/a" "$T/t/b"                      # a, b: one file with two names
mk "$T/t/c" C; cp --sparse=always "$T/t/c" "$T/t/d"      # c, d: two identical files, same length as a
cp --sparse=always "$T/t/c" "$T/new"                     # a third copy of c, outside of the scanned tree

run() {  # $1 = report, further args = options
    local out=$1; shift
    ( "$F" group "$T/t" "$@" 2>"$T/err.txt" >"$out" ) &
    # the prefix and suffix stages are over; the contents of c and d are being hashed now
    while ! grep -q "grouping by suffix" "$T/err.txt" 2>/dev/null; do sleep 0.005; done
    mv "$T/new" "$T/t/b"                                 # b is now a copy of c (another inode)
    wait
}

rc=0
run "$T/r1.txt" --rf-under 3
echo "--- report of 'group --rf-under 3', t/b replaced by a copy of t/c during the run:"
grep -v '^#' "$T/r1.txt" | sed "s#$T/##"
cp --sparse=always "$T/t/c" "$T/new"; rm "$T/t/b"; ln "$T/t/a" "$T/t/b"   # restore
run "$T/r2.txt" -H
echo "--- report of 'group -H', same change:"
grep -v '^#' "$T/r2.txt" | sed "s#$T/##"
echo "--- report of 'group -H' run again on the tree as it is now:"
"$F" group "$T/t" -H 2>/dev/null | grep -v '^#' | sed "s#$T/##"

# 1. the class {b, c, d} must not be split: no two groups with the same hash and length
dups=$(grep -E '^[0-9a-f]{32,}, ' "$T/r1.txt" | cut -d' ' -f1,2 | sort | uniq -d)
if [ -n "$dups" ]; then
    echo "DEFECT: --rf-under 3 reported two groups with the same hash and length ($dups):"
    echo "        t/c and t/d are listed as having 2 replicas, t/b (identical) as having 1"
    rc=1
fi
# 2. b is identical to c and d when it is hashed, so it belongs to their group
# (since D148 a replaced path is left out WITH a warning, like a file whose length changed: that is accepted here)
if grep -q "/t/c" "$T/r2.txt" && ! grep -q "/t/b" "$T/r2.txt" && ! grep -q "t/b was replaced by another file" "$T/err.txt"; then
    echo "DEFECT: -H hashed t/b (now identical to t/c and t/d) but left it out of their group, no warning:"
    grep -v info "$T/err.txt"
    rc=1
fi
[ $rc = 0 ] && echo "defect not present"
exit $rc

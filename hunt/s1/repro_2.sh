#!/bin/bash
# C15/C01: a group that passes every stage without being hashed (all its paths are one file:
# hard links with -H or --isolate) is never opened nor looked at again.
#  A. unreadable files are reported as duplicates, without a warning - unless an unrelated file
#     of the same size happens to be there, then they are left out with a warning.
#  B. a file appended to after the scan is reported with its old length.
CHECKOUT=${1:-/repo}
F=$CHECKOUT/target/debug/fclones
T=$(mktemp -d)
trap 'rm -rf "$T"' EXIT
chmod 755 "$T"
export XDG_CACHE_HOME=$T/cache
rc=0

# ---- A ----
mkdir "$T/d"; chmod 755 "$T/d"
head -c 50000 /dev/urandom > "$T/d/a"; ln "$T/d/a" "$T/d/b"; chmod 000 "$T/d/a"
AS_USER=""
if [ "$(id -u)" = 0 ]; then
    if command -v setpriv >/dev/null; then AS_USER="setpriv --reuid=65534 --regid=65534 --clear-groups"
    else echo "A: skipped (running as root, no setpriv to drop the privileges)"; AS_USER=skip; fi
fi
if [ "$AS_USER" != skip ]; then
    $AS_USER "$F" group "$T/d" -H >"$T/a1.txt" 2>"$T/a1.err"
    echo "--- A: group -H, d/a = d/b (hard links), mode 000, run as a user who cannot read them:"
    grep -v '^#' "$T/a1.txt" | sed "s#$T/##"; grep -v info "$T/a1.err" | grep -v extents | sed "s#$T/##"
    head -c 50000 /dev/urandom > "$T/d/other"; chmod 644 "$T/d/other"      # unrelated, same size
    $AS_USER "$F" group "$T/d" -H >"$T/a2.txt" 2>"$T/a2.err"
    echo "--- A: the same after adding an unrelated readable file of the same size:"
    grep -v '^#' "$T/a2.txt" | sed "s#$T/##"; grep -v info "$T/a2.err" | grep -v extents | sed "s#$T/##"
    if grep -q "/d/a" "$T/a1.txt" && ! grep -q "Failed to compute hash" "$T/a1.err"; then
        echo "DEFECT A: unreadable d/a and d/b are reported as duplicates (hash 0, never opened), no warning"
        rc=1
    fi
fi

# ---- B ----
mkdir "$T/t"
head -c 20000 /dev/urandom > "$T/t/a"; ln "$T/t/a" "$T/t/b"
printf X > "$T/t/big1"; truncate -s 80M "$T/t/big1"; cp --sparse=always "$T/t/big1" "$T/t/big2"  # keeps the run busy
( "$F" group "$T/t" -H 2>"$T/b.err" >"$T/b.txt" ) &
while ! grep -q "grouping by paths" "$T/b.err" 2>/dev/null; do sleep 0.002; done   # the scan is over
printf 'ten bytes!' >> "$T/t/a"
wait
echo "--- B: group -H, t/a = t/b appended to right after the scan (now $(stat -c %s "$T/t/a") bytes):"
grep -v '^#' "$T/b.txt" | sed "s#$T/##"; grep -v info "$T/b.err" | sed "s#$T/##"
if grep -q "20000 B" "$T/b.txt"; then
    echo "DEFECT B: t/a and t/b are reported as 20000 B files, they have 20010 bytes; a hashed file would be left out with 'file length changed'"
    rc=1
fi
[ $rc = 0 ] && echo "defect not present"
exit $rc

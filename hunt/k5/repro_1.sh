#!/bin/bash
# C09/C16: include-side directory pruning (Regex::is_partial_match) mixes byte and char counts:
# a non-ASCII character in the literal prefix of a --path pattern (or in the cwd of a relative
# pattern) makes every directory below the prefix be pruned.
CHECKOUT=${1:-/tmp/hunt/k5}
F="$CHECKOUT/target/debug/fclones"
T=$(mktemp -d /tmp/k5r1XXXXXX)
trap 'rm -rf "$T"' EXIT
mkdir -p "$T/żż/x/y" "$T/zz/x/y"
for d in żż zz; do
  echo "$d-1" > "$T/$d/f1"; echo "$d-2" > "$T/$d/x/f2"; echo "$d-3" > "$T/$d/x/y/f3"
done
sel() { "$F" group --rf-over 0 -f fdupes "$@" 2>/dev/null | grep -v '^$' | sort; }
bad=0
echo "== absolute glob, ASCII directory (control): --path '$T/zz/**'"
a=$(sel "$T" --path "$T/zz/**"); echo "$a"
[ "$(echo "$a" | grep -c .)" = 3 ] || { echo "control failed"; }
echo "== absolute glob, non-ASCII directory: --path '$T/żż/**'  (expected 3 files: f1, x/f2, x/y/f3)"
b=$(sel "$T" --path "$T/żż/**"); echo "$b"
[ "$(echo "$b" | grep -c .)" = 3 ] || { echo "DEFECT: $(echo "$b" | grep -c .) of 3 files selected"; bad=1; }
echo "== relative glob in a non-ASCII working directory: cd '$T/żż' && group . --path 'x/**'  (expected x/f2, x/y/f3)"
c=$(cd "$T/żż" && sel . --path 'x/**'); echo "$c"
[ "$(echo "$c" | grep -c .)" = 2 ] || { echo "DEFECT: $(echo "$c" | grep -c .) of 2 files selected"; bad=1; }
exit $bad

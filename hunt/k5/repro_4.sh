#!/bin/bash
# C09: a cwd-relative pattern that starts with ../ is anchored as <cwd>/../x, which no scanned
# (canonical) path ever matches: --path '../b/*' selects nothing, --exclude '../b/sub/**' excludes nothing.
CHECKOUT=${1:-/tmp/hunt/k5}
F="$CHECKOUT/target/debug/fclones"
T=$(mktemp -d /tmp/k5r4XXXXXX)
trap 'rm -rf "$T"' EXIT
mkdir -p "$T/a" "$T/b/sub"
echo 1 > "$T/b/f"; echo 2 > "$T/b/sub/g"
cd "$T/a"
sel() { "$F" group --rf-over 0 -f fdupes "$@" 2>/dev/null | grep -v '^$' | sort; }
bad=0
echo "== cd $T/a && group ../b --path '../b/*' (expected b/f)"
a=$(sel ../b --path '../b/*'); echo "$a"
[ "$a" = "$T/b/f" ] || { echo "DEFECT: selected '$a'"; bad=1; }
echo "== cd $T/a && group ../b --exclude '../b/sub/**' (expected b/f only)"
b=$(sel ../b --exclude '../b/sub/**'); echo "$b"
[ "$b" = "$T/b/f" ] || { echo "DEFECT: b/sub/g was not excluded"; bad=1; }
exit $bad

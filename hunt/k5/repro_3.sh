#!/bin/bash
# C09/C16: Regex::get_fixed_prefix keeps a character that a following quantifier makes optional:
# '{' (counted repetition {0,1}, {0}, {0,}) just ends the prefix, and for '?'/'*' the last char is
# removed with a byte count used as a char count. The directory that lacks the optional char is pruned.
CHECKOUT=${1:-/tmp/hunt/k5}
F="$CHECKOUT/target/debug/fclones"
T=$(mktemp -d /tmp/k5r3XXXXXX)    # no '.' in the name: an unescaped dot would end the fixed prefix early
trap 'rm -rf "$T"' EXIT
mkdir -p "$T/a" "$T/ab"
echo 1 > "$T/a/f"; echo 2 > "$T/ab/f"
sel() { "$F" group --rf-over 0 -f fdupes "$@" 2>/dev/null | grep -v '^$' | sort; }
bad=0
echo "== control: --regex --path '$T/ab?/.*' (expected a/f and ab/f)"
a=$(sel "$T" --regex --path "$T/ab?/.*"); echo "$a"
echo "== --regex --path '$T/ab{0,1}/.*' (same language; expected a/f and ab/f)"
b=$(sel "$T" --regex --path "$T/ab{0,1}/.*"); echo "$b"
[ "$(echo "$b" | grep -c .)" = 2 ] || { echo "DEFECT: $(echo "$b" | grep -c .) of 2 files selected"; bad=1; }
echo "== relative: cd $T && --regex --path 'ab{0,}/.*' (expected a/f and ab/f)"
c=$(cd "$T" && sel . --regex --path 'ab{0,}/.*'); echo "$c"
[ "$(echo "$c" | grep -c .)" = 2 ] || { echo "DEFECT: $(echo "$c" | grep -c .) of 2 files selected"; bad=1; }
exit $bad

# usage: sel.sh <args to group...> ; prints selected file paths sorted
F="$CHECKOUT/target/debug/fclones"
$F group --rf-over 0 -f fdupes "$@" 2>/tmp/hunt/k5-out/last.err | grep -v '^$' | sort

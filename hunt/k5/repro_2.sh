#!/bin/bash
# C09: Walk::visit_path applies the *directory* pruning test (PathSelector::matches_dir, which appends '/'
# to the path) to regular files given as input paths, read from --stdin, or reached as symlink targets with -L.
# An exclude pattern ending in ** that matches "<file>/" drops a file whose own path does not match the pattern.
CHECKOUT=${1:-/tmp/hunt/k5}
F="$CHECKOUT/target/debug/fclones"
T=$(mktemp -d /tmp/k5r2XXXXXX)
trap 'rm -rf "$T"' EXIT
cd "$T"
mkdir -p cache1 d store links
echo 1 > cache.db; echo 2 > cache1/f; echo 3 > d/e; echo 4 > store/cache.bin
ln -s ../store/cache.bin links/l
sel() { "$F" group --rf-over 0 -f fdupes "$@" 2>/dev/null | grep -v '^$' | sort; }
bad=0
echo "== directory scan (reference): group . --exclude '**/cache*/**'"
a=$(sel . --exclude '**/cache*/**'); echo "$a"
echo "$a" | grep -q "/cache.db$" || echo "unexpected: reference scan lacks cache.db"
echo "== same files given as input paths: group cache.db store/cache.bin d/e --exclude '**/cache*/**' (expected all 3)"
b=$(sel cache.db store/cache.bin d/e --exclude '**/cache*/**'); echo "$b"
[ "$(echo "$b" | grep -c .)" = 3 ] || { echo "DEFECT: $(echo "$b" | grep -c .) of 3 files selected"; bad=1; }
echo "== find | group --stdin (expected cache.db d/e store/cache.bin, not cache1/f)"
c=$(find . -type f | sel --stdin --exclude '**/cache*/**'); echo "$c"
[ "$(echo "$c" | grep -c .)" = 3 ] || { echo "DEFECT: $(echo "$c" | grep -c .) of 3 files selected"; bad=1; }
echo "== symlink target with -L: group links -L --exclude '**/cache*/**' (expected store/cache.bin)"
d=$(sel links -L --exclude '**/cache*/**'); echo "$d"
[ "$(echo "$d" | grep -c .)" = 1 ] || { echo "DEFECT: $(echo "$d" | grep -c .) of 1 files selected"; bad=1; }
exit $bad

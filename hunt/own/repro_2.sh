#!/bin/bash
# C20 / C07-like: `dedupe` on a dropped symbolic link (-S report) cloned the retained file INTO the file the link points to: that file is not
# locked (FileLock refuses links: the lock step is skipped) and need not be one of the reported files.  FICLONE is emulated by ../s3/ficlone_shim.c.
F="${1:-/repo}/target/debug/fclones"
HERE=$(cd "$(dirname "$0")" && pwd)
T=$(mktemp -d); trap 'rm -rf "$T"' EXIT
gcc -shared -fPIC -O1 -o "$T/shim.so" "$HERE/../s3/ficlone_shim.c" -ldl || { echo "cannot build the shim"; exit 2; }
mkdir -p "$T/t/a" "$T/t/b" "$T/out"
echo "same content" > "$T/t/a/k"; echo "same content" > "$T/out/A"; ln -s ../../out/A "$T/t/b/L"
sleep 1.1
"$F" group -S "$T/t" -o "$T/rep" 2>/dev/null
cat > "$T/hold.py" <<PY
import fcntl, time
f=open('$T/out/A','r+b'); fcntl.lockf(f, fcntl.LOCK_EX|fcntl.LOCK_NB); print("another process holds a lock on out/A", flush=True); time.sleep(3)
PY
python3 "$T/hold.py" & sleep 0.5
out=$(LD_PRELOAD="$T/shim.so" strace -f -e trace=openat -o "$T/trace" "$F" dedupe < "$T/rep" 2>&1 | grep -v Started)
echo "$out"
wait
if grep -q 'out/A.*O_WRONLY\|L".*O_WRONLY' "$T/trace"; then echo "DEFECT: out/A (outside the scanned tree, locked by another process) was opened for writing through the link t/b/L"; exit 1; fi
echo "defect not present"; exit 0

/* LD_PRELOAD shim: emulates the FICLONE ioctl on file systems without reflink support
 * (by copying the bytes), so that the Linux code path of `fclones dedupe` can be exercised
 * on ext4/tmpfs.  FICLONE_FAIL_NTH=<n> makes the n-th FICLONE call of the process (1-based)
 * fail with errno FICLONE_FAIL_ERRNO (default EINVAL) without touching the destination,
 * like the kernel does for EINVAL/EXDEV/EPERM/ETXTBSY.  Unlike ../s3/ficlone_shim.c this one does not truncate. */
#define _GNU_SOURCE
#include <dlfcn.h>
#include <errno.h>
#include <stdarg.h>
#include <stdlib.h>
#include <unistd.h>
#include <sys/stat.h>
#include <sys/ioctl.h>
#include <linux/fs.h>

static int calls = 0;

int ioctl(int fd, unsigned long req, ...) {
    va_list ap; va_start(ap, req); void *arg = va_arg(ap, void *); va_end(ap);
    static int (*real)(int, unsigned long, ...) = 0;
    if (!real) real = dlsym(RTLD_NEXT, "ioctl");
    if (req != FICLONE) return real(fd, req, arg);
    int n = __sync_add_and_fetch(&calls, 1);
    const char *nth = getenv("FICLONE_FAIL_NTH");
    if (nth && atoi(nth) == n) {
        const char *e = getenv("FICLONE_FAIL_ERRNO");
        errno = e ? atoi(e) : EINVAL;
        return -1;
    }
    int src = (int)(long)arg;
    struct stat st, dst;
    if (fstat(src, &st) != 0 || fstat(fd, &dst) != 0) return -1;
    /* the kernel refuses to clone a file onto itself (overlapping ranges of one inode) */
    if (st.st_dev == dst.st_dev && st.st_ino == dst.st_ino) { errno = EINVAL; return -1; }
    char buf[65536]; off_t off = 0;
    while (off < st.st_size) {
        ssize_t r = pread(src, buf, sizeof buf, off);
        if (r < 0) return -1;
        if (r == 0) break;
        ssize_t w = pwrite(fd, buf, r, off);
        if (w != r) { if (w >= 0) errno = EIO; return -1; }
        off += r;
    }
    /* the kernel does NOT shorten a longer destination: FICLONE shares [0, size of src) and leaves the rest */
    return 0;
}

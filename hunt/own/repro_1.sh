#!/bin/bash
# C03 (follow-up of D120): a single-inode group that is examined after the hashing (one of its paths was replaced) was regrouped on its own:
# the replaced path, now identical to the files of ANOTHER group, was not joined with them.
F="${1:-/repo}/target/debug/fclones"
T=$(mktemp -d); cd "$T" || exit 2
mkdir t; head -c 4000000 /dev/urandom > t/a; ln t/a t/b
head -c 4000000 /dev/urandom > t/x; cp t/x t/y; cp t/x spare
"$F" group t -H --hash-fn sha3-512 > out.txt 2> err.txt &
for i in $(seq 1 400); do grep -q 'grouping by prefix' err.txt && break; sleep 0.02; done
sleep 0.3
mv spare t/b                                   # b is now a copy of x
wait
grep -v '^#' out.txt
bad=0
# (since D148 a replaced path is left out WITH a warning, like a file whose length changed: that is accepted here)
if cmp -s t/b t/x && ! grep -qx "    $T/t/b" out.txt && ! grep -q "t/b was replaced by another file" err.txt; then echo "DEFECT: t/b (identical to t/x and t/y at the time of the report) is missing from the report"; bad=1; fi
if grep -qx "    $T/t/b" out.txt; then
  # b must be listed with x and y, not with a
  awk -v b="    $T/t/b" -v x="    $T/t/x" 'BEGIN{g=0} /^[0-9a-f]/{g++} $0==b{gb=g} $0==x{gx=g} END{exit !(gb==gx)}' out.txt || { echo "DEFECT: t/b is reported in another group than t/x"; bad=1; }
fi
cd /; rm -rf "$T"; [ $bad = 0 ] && echo "defect not observed"; exit $bad

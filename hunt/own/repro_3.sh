#!/bin/bash
# C05 (unverified observation of reviewer t3, reproduced with a FICLONE shim that, like the kernel, does not shorten a longer destination (own/ficlone_notrunc.c)): after `group --transform`
# the size check is off; `dedupe` of a LONGER duplicate cloned the retained file into it and left the tail: a file that is neither of the two.
F="${1:-/repo}/target/debug/fclones"
HERE=$(cd "$(dirname "$0")" && pwd)
T=$(mktemp -d); trap 'rm -rf "$T"' EXIT
gcc -shared -fPIC -O1 -o "$T/shim.so" "$HERE/ficlone_notrunc.c" -ldl || { echo "cannot build the shim"; exit 2; }
mkdir "$T/t"; printf abcSHORT > "$T/t/a"; printf abcLONGER-TAIL-DATA > "$T/t/b"
sleep 1.1
"$F" group "$T/t" --transform 'head -c 3' -o "$T/rep" 2>/dev/null
LD_PRELOAD="$T/shim.so" "$F" dedupe < "$T/rep" 2>&1 | grep -v Started
echo "t/a = $(cat "$T/t/a")   t/b = $(cat "$T/t/b")"
if [ "$(cat "$T/t/b")" != "abcSHORT" ] && [ "$(cat "$T/t/b")" != "abcLONGER-TAIL-DATA" ]; then echo "DEFECT: t/b is neither its old content nor a clone of t/a"; exit 1; fi
echo "defect not present"; exit 0

#!/bin/bash
# C08: relative --keep-path / --path patterns of remove/link/move/dedupe are matched against the absolute
# report paths without being anchored at the working directory (as `group --path` does),
# so `remove --keep-path 'd2/**'` removes the very file the user asked to keep.
CHECKOUT=${1:-/tmp/hunt/h3}
F=$CHECKOUT/target/debug/fclones
W=$(mktemp -d); cd "$W" || exit 2
mkdir d1 d2; echo hello > d1/a; echo hello > d2/c
$F group d1 d2 -o rep.txt 2>/dev/null; grep -v '^#' rep.txt
echo "--- group . --unique --path 'd2/**'   (relative pattern is anchored at the cwd by group):"
$F group . --unique --path 'd2/**' 2>/dev/null | grep -v '^#'
ABS=$($F remove --dry-run --keep-path "$W/d2/**" < rep.txt 2>/dev/null)
REL=$($F remove --dry-run --keep-path 'd2/**' < rep.txt 2>/dev/null)
echo "--- remove --keep-path \"\$PWD/d2/**\":"; echo "$ABS"
echo "--- remove --keep-path 'd2/**':"; echo "$REL"
if echo "$REL" | grep -q '/d2/c$'; then
  echo "DEFECT: d2/c is removed although it matches --keep-path 'd2/**'"; exit 1
fi
echo "no defect"; exit 0

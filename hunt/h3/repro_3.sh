#!/bin/bash
# C08: --priority top / bottom are not applied as sort keys. In a chain where they are NOT the last
# priority, the result is wrong: `--priority top --priority X` keeps the top file (opposite of
# `--priority top`), `--priority bottom --priority X` behaves like `--priority X` alone.
CHECKOUT=${1:-/tmp/hunt/h3}
F=$CHECKOUT/target/debug/fclones
W=$(mktemp -d); cd "$W" || exit 2
mkdir t; echo hello > t/a; echo hello > t/b; echo hello > t/c
touch -d '2020-01-03' t/a; touch -d '2020-01-01' t/b; touch -d '2020-01-02' t/c
$F group t -o rep.txt 2>/dev/null; grep -v '^#' rep.txt
dropped() { $F remove --dry-run "$@" < rep.txt 2>/dev/null | sed 's/^rm //' | xargs -n1 basename | sort | tr '\n' ' '; }
TOP=$(dropped --priority top)
TOP_MRM=$(dropped --priority top --priority most-recently-modified)
BOT=$(dropped --priority bottom)
BOT_MRM=$(dropped --priority bottom --priority most-recently-modified)
MRM=$(dropped --priority most-recently-modified)
echo "dropped with --priority top:                                   $TOP"
echo "dropped with --priority top --priority most-recently-modified:    $TOP_MRM"
echo "dropped with --priority bottom:                                $BOT"
echo "dropped with --priority bottom --priority most-recently-modified: $BOT_MRM"
echo "dropped with --priority most-recently-modified:                $MRM"
# top/bottom are total orders (no ties), so a lower-ranked priority must never change the outcome
if [ "$TOP" != "$TOP_MRM" ] || [ "$BOT" != "$BOT_MRM" ]; then
  echo "DEFECT: a secondary priority overrides the primary top/bottom priority"; exit 1
fi
echo "no defect"; exit 0

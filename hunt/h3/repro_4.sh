#!/bin/bash
# C08: --isolate given on the command line of remove/link/move/dedupe is used verbatim:
# a relative root, or a root reached through a symlink, never matches the (absolute, canonical)
# report paths, so the option is silently ignored and files of one root are not kept/dropped as a whole.
CHECKOUT=${1:-/tmp/hunt/h3}
F=$CHECKOUT/target/debug/fclones
W=$(mktemp -d); cd "$W" || exit 2
mkdir d1 d2; echo hello > d1/a; echo hello > d1/b; echo hello > d2/c; ln -s d1 l1
$F group d1 d2 -o rep.txt 2>/dev/null; grep -v '^#' rep.txt
ABS=$($F remove --dry-run --isolate "$W/d1" --isolate "$W/d2" < rep.txt 2>/dev/null)
REL=$($F remove --dry-run --isolate d1 --isolate d2 < rep.txt 2>/dev/null)
LNK=$($F remove --dry-run --isolate "$W/l1" --isolate "$W/d2" < rep.txt 2>/dev/null)
INH=$($F group --isolate d1 d2 2>/dev/null | $F remove --dry-run 2>/dev/null)
echo "--- remove --isolate \$PWD/d1 --isolate \$PWD/d2:"; echo "$ABS"
echo "--- remove --isolate d1 --isolate d2 (relative):"; echo "$REL"
echo "--- remove --isolate \$PWD/l1 (symlink to d1) --isolate \$PWD/d2:"; echo "$LNK"
echo "--- group --isolate d1 d2 | remove (inherited):"; echo "$INH"
if [ "$REL" != "$ABS" ] || [ "$LNK" != "$ABS" ]; then
  echo "DEFECT: the spelling of --isolate changes which files are removed (d1/a and d1/b are split up)"; exit 1
fi
echo "no defect"; exit 0

#!/bin/bash
# C06 (also C14): --unique / --rf-under together with --skip-content-hash reports every class,
# including classes that have 2+ replicas.
CHECKOUT=${1:-/tmp/hunt/h3}
F=$CHECKOUT/target/debug/fclones
W=$(mktemp -d); cd "$W" || exit 2
mkdir t; echo same > t/dup1; echo same > t/dup2; echo same > t/dup3; echo only-one > t/uniq
echo "--- group --unique t"
$F group --unique t 2>/dev/null | grep -v '^# [RTCB]'
echo "--- group --unique --skip-content-hash t"
OUT=$($F group --unique --skip-content-hash t 2>/dev/null); echo "$OUT" | grep -v '^# [RTCB]'
echo "--- group --rf-under 2 --skip-content-hash --isolate t/dup1 t/dup2 t/uniq"
OUT2=$($F group --rf-under 2 --skip-content-hash --isolate t/dup1 t/dup2 t/uniq 2>/dev/null); echo "$OUT2" | grep -v '^# [RTCB]'
if echo "$OUT" | grep -q '/t/dup1$' || echo "$OUT2" | grep -q '/t/dup1$'; then
  echo "DEFECT: a class with 3 (resp. 2) replicas is reported although the filter is 'fewer than 2 replicas'"; exit 1
fi
echo "no defect"; exit 0

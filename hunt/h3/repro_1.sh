#!/bin/bash
# C12: the hash cache collapses every modification time before 1970-01-01 to 0,
# so a content change that moves the mtime from one pre-epoch instant to another is not noticed.
CHECKOUT=${1:-/tmp/hunt/h3}
F=$CHECKOUT/target/debug/fclones
W=$(mktemp -d); cd "$W" || exit 2
export XDG_CACHE_HOME=$W/cache HOME=$W/home; mkdir -p t cache home
head -c 100000 /dev/urandom > t/a; cp t/a t/b
touch -d '1960-01-01 00:00:00' t/a t/b
echo "--- run 1 (a == b), --cache:"
$F group --cache t 2>/dev/null | grep -v '^#'
# same-length content change of b, mtime changes by 5 years (both before the epoch)
printf 'XXXX' | dd of=t/b bs=1 seek=50000 conv=notrunc 2>/dev/null
touch -d '1965-06-01 00:00:00' t/b
echo "--- after edit: $(stat -c '%n mtime=%Y len=%s' t/a t/b | tr '\n' ' ')"
cmp -s t/a t/b && { echo "setup failed: files still equal"; exit 2; }
CACHED=$($F group --cache t 2>/dev/null | grep -v '^#')
PLAIN=$($F group t 2>/dev/null | grep -v '^#')
echo "--- run 2 with --cache:";    echo "$CACHED"
echo "--- run 2 without --cache:"; echo "$PLAIN"
if [ "$CACHED" != "$PLAIN" ]; then
  echo "DEFECT: cached run differs from uncached run (stale hash served for t/b)"; exit 1
fi
echo "no defect"; exit 0

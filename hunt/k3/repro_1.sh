#!/bin/bash
# C08: --isolate given to a dedupe command reorders the replicas: roots first (in command line order),
# so the default "first listed is kept" and --priority top/bottom no longer follow the input file.
CHECKOUT=${1:-/tmp/hunt/k3}
F=$CHECKOUT/target/debug/fclones
[ -x "$F" ] || F=/tmp/hunt/k3/target/debug/fclones
T=$(mktemp -d) || exit 2
trap 'rm -rf "$T"' EXIT
cd "$T" || exit 2
mkdir a r1 r2
echo data > a/f; cp a/f r1/f; cp a/f r2/f
touch -d 2020-01-01 a/f r1/f r2/f
"$F" group a r1 r2 2>/dev/null > rep.txt
echo "report lists (in this order):"; grep '^    ' rep.txt
echo "--- remove --isolate r1 --dry-run  (default priority: first listed file a/f must be kept)"
"$F" remove --isolate r1 --dry-run < rep.txt 2>/dev/null | tee out1.txt
echo "--- remove --isolate r1 --priority bottom --dry-run  (files listed lower are removed first: r1/f and r2/f)"
"$F" remove --isolate r1 --priority bottom --dry-run < rep.txt 2>/dev/null | tee out2.txt
echo "--- the real run:"
"$F" remove --isolate r1 < rep.txt 2>/dev/null
ls a r1 r2
bad=0
grep -q "^rm $T/a/f\$" out1.txt && { echo "DEFECT: default order removes the first listed file a/f"; bad=1; }
grep -q "^rm $T/a/f\$" out2.txt && { echo "DEFECT: --priority bottom removes the first listed file a/f"; bad=1; }
[ -e a/f ] || { echo "DEFECT: a/f (first listed) was removed, r1/f (second listed) kept"; bad=1; }
[ $bad = 0 ] && echo "not reproduced"
exit $bad

#!/bin/bash
# C11: the "lock" opens the file for writing; for an executable that is currently running the open
# fails with ETXTBSY, so the real run refuses a file that the dry run announced (and that rm / mv / ln
# of the printed script handle without any problem).
CHECKOUT=${1:-/tmp/hunt/k3}
F=$CHECKOUT/target/debug/fclones
[ -x "$F" ] || F=/tmp/hunt/k3/target/debug/fclones
T=$(mktemp -d) || exit 2
trap 'kill $PID 2>/dev/null; rm -rf "$T"' EXIT
cd "$T" || exit 2
mkdir d
cp "$(command -v sleep)" d/a; cp d/a d/b
touch -d 2020-01-01 d/a d/b
d/b 60 & PID=$!
sleep 0.3
"$F" group d 2>/dev/null > rep.txt
bad=0
for op in "remove" "link" "link --soft"; do
  echo "--- fclones $op --dry-run:"
  "$F" $op --dry-run < rep.txt 2>&1 | grep -v Started | tee dry.txt
  echo "--- fclones $op:"
  "$F" $op < rep.txt 2>&1 | grep -v Started | tee real.txt
  if grep -q "Would process 1 files" dry.txt && grep -q "Processed 0 files" real.txt; then
     echo "DEFECT ($op): dry run announced d/b, real run refused it: $(grep -o 'Text file busy' real.txt | head -1)"; bad=1
  fi
done
ls -li d
[ $bad = 0 ] && echo "not reproduced"
exit $bad

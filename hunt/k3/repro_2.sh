#!/bin/bash
# C11/C18: `move` on a --symbolic-links report: a dropped symbolic link is moved by copying the file it
# points to, but that file is dropped (renamed away) by a sibling command of the same group.
# Depending on the schedule the link is left behind dangling; the dry run announced 2 moved files.
CHECKOUT=${1:-/tmp/hunt/k3}
F=$CHECKOUT/target/debug/fclones
[ -x "$F" ] || F=/tmp/hunt/k3/target/debug/fclones
T=$(mktemp -d) || exit 2
trap 'rm -rf "$T"' EXIT
cd "$T" || exit 2
mk() { rm -rf d out; mkdir d; echo data > d/K; echo data > d/M; ln -s M d/Z; touch -h -d 2020-01-01 d/K d/M d/Z; }
mk
"$F" group -S d 2>/dev/null > rep.txt
grep '^    ' rep.txt
echo "--- dry run:"
"$F" move out --dry-run < rep.txt 2>&1 | grep -v Started | tee dry.txt
echo "--- real run, one worker thread (RAYON_NUM_THREADS=1):"
RAYON_NUM_THREADS=1 "$F" move out < rep.txt 2>&1 | grep -v Started | tee real.txt
ls -l d | tail -n +2
bad=0
if grep -q "Would process 2 files" dry.txt && ! grep -q "Processed 2 files" real.txt; then
  echo "DEFECT: dry run announced 2 files, real run: $(grep -o 'Processed [0-9]* files' real.txt)"; bad=1
fi
if [ -L d/Z ] && [ ! -e d/Z ]; then echo "DEFECT: d/Z was left behind as a dangling symbolic link"; bad=1; fi
echo "--- real run with the default thread pool, 40 attempts:"
fails=0
for i in $(seq 1 40); do mk; "$F" move out < rep.txt 2>&1 | grep -q "Processed 2 files" || fails=$((fails+1)); done
echo "runs in which the link was not moved: $fails / 40"
[ $fails -gt 0 ] && bad=1
[ $bad = 0 ] && echo "not reproduced"
exit $bad

#!/bin/bash
# C18 (minor): when the copy of a cross-device move fails in the middle (here: ENOSPC), the truncated
# target file is left under DIR with the name of the source; later runs refuse the source
# ("Target already exists"). Needs the permission to mount a small tmpfs; exits 0 if that is impossible.
CHECKOUT=${1:-/tmp/hunt/k3}
F=$CHECKOUT/target/debug/fclones
[ -x "$F" ] || F=/tmp/hunt/k3/target/debug/fclones
T=$(mktemp -d) || exit 2
cleanup() { umount "$T/mnt" 2>/dev/null; rm -rf "$T"; }
trap cleanup EXIT
cd "$T" || exit 2
mkdir mnt d
mount -t tmpfs -o size=64k none "$T/mnt" 2>/dev/null || { echo "cannot mount a tmpfs here, not tested"; exit 0; }
head -c 200000 /dev/urandom > d/a; cp d/a d/b
touch -d 2020-01-01 d/a d/b
"$F" group d 2>/dev/null > rep.txt
echo "--- fclones move mnt/out (64 KiB file system, 200000 byte file):"
"$F" move "$T/mnt/out" < rep.txt 2>&1 | grep -v Started
echo "source:"; ls -l d
echo "below the target directory:"; find "$T/mnt" -type f -exec ls -l {} \;
P=$(find "$T/mnt" -type f | head -1)
echo "--- second run:"
"$F" move "$T/mnt/out" < rep.txt 2>&1 | grep -v Started
if [ -n "$P" ] && ! cmp -s "$P" d/b; then
  echo "DEFECT: a truncated copy ($(stat -c %s "$P") of 200000 bytes) was left at the move target"
  exit 1
fi
echo "not reproduced"; exit 0

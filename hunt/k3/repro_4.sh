#!/bin/bash
# C02/C08: with a `group -S --isolate -n 2` report a retained symbolic link is counted as one of the
# 2 replicas to keep, while the file it points to is dropped: one readable copy is left, the "kept"
# replica dangles (D39 was repaired only for the case that *all* retained files are links).
CHECKOUT=${1:-/tmp/hunt/k3}
F=$CHECKOUT/target/debug/fclones
[ -x "$F" ] || F=/tmp/hunt/k3/target/debug/fclones
T=$(mktemp -d) || exit 2
trap 'rm -rf "$T"' EXIT
cd "$T" || exit 2
mkdir d1 d2 d3
echo data > d1/K; cp d1/K d3/A; ln -s ../d3/A d2/Z
touch -h -d 2020-01-01 d1/K d3/A d2/Z
"$F" group -S --isolate -n 2 d2 d1 d3 2>/dev/null > rep.txt
grep '^    ' rep.txt
echo "--- fclones remove (n=2 inherited from the report):"
"$F" remove < rep.txt 2>&1 | grep -v Started
ls -l d1 d2 d3
readable=0
for f in d1/K d2/Z d3/A; do cat "$f" >/dev/null 2>&1 && readable=$((readable+1)); done
echo "paths of the group that can still be read: $readable (2 replicas were to be kept)"
if [ $readable -lt 2 ]; then
  echo "DEFECT: only $readable readable replica left; d2/Z -> $(readlink d2/Z) dangles"
  exit 1
fi
echo "not reproduced"; exit 0

#!/bin/bash
# C04: a member whose modification time is outside the range of chrono (year > 262142 or
# < -262143; possible on tmpfs, btrfs, ZFS, NFS... whose time stamps have 64-bit seconds) makes
# remove / link / move and their --dry-run panic in dedupe::was_modified instead of skipping the group:
# exit code 101, the run is aborted half-way.
CHECKOUT=${1:-/repo}
F=${1:-/repo}/target/debug/fclones
[ -x "$F" ] || F="$CHECKOUT/target/debug/fclones"
export RUST_BACKTRACE=0
T=""
for base in "${TMPDIR:-/tmp}" /dev/shm /run/shm; do
  [ -d "$base" ] || continue
  D=$(mktemp -d -p "$base") || continue
  touch "$D/probe"
  if touch -d '@99999999999999' "$D/probe" 2>/dev/null && [ "$(stat -c %Y "$D/probe")" = 99999999999999 ]; then T=$D; break; fi
  rm -rf "$D"
done
if [ -z "$T" ]; then echo "no file system here keeps such a time stamp (need tmpfs/btrfs/...): cannot test"; exit 0; fi
echo "scratch directory: $T ($(stat -f -c %T "$T"))"
rm -f "$T/probe"
mkdir "$T/a" "$T/b"
for i in $(seq 1 60); do echo "content $i" > "$T/a/f$i"; echo "content $i" > "$T/b/f$i"; done
"$F" group "$T" > "$T.rep" 2>/dev/null
# after the report one duplicate gets a crazy time stamp (damaged metadata, a buggy tool, touch)
touch -d '@99999999999999' "$T/b/f30"
echo "--- remove --dry-run:"
"$F" remove --dry-run < "$T.rep" > "$T.dry" 2> "$T.err"; rc1=$?
grep -m1 -A1 panicked "$T.err" | cut -c1-200
echo "exit code $rc1, $(grep -c '^rm ' "$T.dry") of the 59 removable files listed"
echo "--- remove:"
"$F" remove < "$T.rep" > /dev/null 2> "$T.err"; rc2=$?
grep -m1 -A1 panicked "$T.err" | cut -c1-200
left=$(ls "$T/b" | wc -l)
echo "exit code $rc2, $left of 60 files left in b/ (expected: 1, only f30 whose group is to be skipped)"
rm -rf "$T" "$T.rep" "$T.dry" "$T.err"
if [ $rc1 = 101 ] || [ $rc2 = 101 ]; then echo "RESULT: defect present (panic instead of skipping the group)"; exit 1; fi
echo "RESULT: not reproduced"; exit 0

#!/bin/bash
# C04: --modified-before (-m) misreads common spellings of the UTC offset:
#  (a) "+0530" (the form fclones itself writes into the report header, %z): the minutes are dropped
#  (b) "UTC+09:00" / "GMT+9": the sign is inverted;  "UTC +9": the offset is ignored
#  (c) "12:00:00JST" (zone glued to the time): the unknown zone is ignored (D103 only covers ' JST')
# In every case the limit used is LATER than the one given, and a duplicate of a file that
# was rewritten after the given limit is removed.
CHECKOUT=${1:-/repo}
F=${1:-/repo}/target/debug/fclones
[ -x "$F" ] || F="$CHECKOUT/target/debug/fclones"
export RUST_BACKTRACE=0
export TZ=UTC
T=$(mktemp -d)
bad=0
# $1 = value of -m, $2 = the instant that value denotes (UTC), $3 = mtime of the rewritten file (UTC, later than $2)
try() {
  local m="$1" meant="$2" mtime="$3"
  local D; D=$(mktemp -d -p "$T")
  mkdir "$D/a" "$D/b"
  printf AAAA > "$D/a/x"; printf AAAA > "$D/b/x"
  touch -d '2024-04-01 00:00:00 UTC' "$D/a/x" "$D/b/x"
  "$F" group "$D" > "$D.rep" 2>/dev/null
  # after the report: b/x is rewritten with other data of the same length
  printf BBBB > "$D/b/x"; touch -d "$mtime UTC" "$D/b/x"
  local out; out=$("$F" remove -m "$m" < "$D.rep" 2>&1)
  local used; used=$(echo "$out" | grep -o 'updated after [^(]*' | head -1)
  if [ -e "$D/b/x" ] && [ -e "$D/a/x" ]; then
    echo "ok      -m '$m' (= $meant UTC), file rewritten at $mtime UTC: nothing removed  [$used$(echo "$out" | grep -o 'error:.*' | cut -c1-90)]"
  else
    echo "DEFECT  -m '$m' (= $meant UTC), file rewritten at $mtime UTC, i.e. AFTER the limit:"
    echo "        $(echo "$out" | grep -i 'processed' | sed 's/^.*fclones: *//')"
    echo "        a/x: $(cat "$D/a/x" 2>/dev/null || echo '<removed>')   b/x: $(cat "$D/b/x" 2>/dev/null || echo '<removed>')   -> the only copy of BBBB is gone"
    bad=1
  fi
}
# controls: spellings that are read correctly
try '2024-05-01 12:00:00.000 +05:30' '06:30:00' '2024-05-01 06:45:00'
try '2024-05-01 12:00:00 +09:00'     '03:00:00' '2024-05-01 05:00:00'
# (a) the format of the "# Timestamp:" line of the report, half-hour / 45-minute zones
try '2024-05-01 12:00:00.000 +0530'  '06:30:00' '2024-05-01 06:45:00'
try '2024-05-01 12:00:00.000 +0545'  '06:15:00' '2024-05-01 06:50:00'
try 'Wed, 01 May 2024 12:00:00 +0930' '02:30:00' '2024-05-01 02:50:00'
# (b) offset written after UTC/GMT
try '2024-05-01 12:00:00 UTC+09:00'  '03:00:00' '2024-05-01 05:00:00'
try '2024-05-01 12:00:00 GMT+9'      '03:00:00' '2024-05-01 05:00:00'
try '2024-05-01 12:00:00 UTC +9'     '03:00:00' '2024-05-01 05:00:00'
# (c) unknown zone name glued to the time (with a space it is rejected since D103)
try '2024-05-01 12:00:00JST'         '03:00:00' '2024-05-01 05:00:00'
rm -rf "$T"
if [ $bad = 1 ]; then echo "RESULT: defect present"; exit 1; else echo "RESULT: not reproduced"; exit 0; fi

#!/bin/bash
# repro_2: the report timestamp is written with the UTC offset rounded to whole minutes
# (text: %z, JSON: RFC 3339), so with a local offset that has a seconds part the timestamp
# read back by remove/link/move/dedupe is up to 30 s away from the moment `group` started.
# With an offset of +00:00:29 it lies 29 s in the future and a file rewritten 3 s after the
# scan is deleted although its contents are now unique.
# usage: repro_2.sh <checkout>   (the binary ${1:-/repo}/target/debug/fclones is used)
CHECKOUT=${1:-/repo}
F=${1:-/repo}/target/debug/fclones
T=$(mktemp -d) || exit 2
trap 'rm -rf "$T"' EXIT
cd "$T" || exit 2
mkdir d; echo hello > d/a; echo hello > d/b
sleep 1.2
export TZ='XXX-0:00:29'          # POSIX TZ string: local time = UTC + 29 s
START=$(date -u '+%Y-%m-%d %H:%M:%S')
$F group d > rep.txt 2>/dev/null
$F group d -f json > rep.json 2>/dev/null
echo "true start of group (UTC):  $START"
echo "text report:  $(sed -n 2p rep.txt)"
echo "json report: $(grep timestamp rep.json)"
sleep 3
echo HELLO > d/b                  # same length, different contents, 3 s after the scan
RC=0
for r in rep.txt rep.json; do
  OUT=$($F remove --dry-run < $r 2>&1)
  echo "--- remove --dry-run < $r"; echo "$OUT" | grep -v ' info: '
  if echo "$OUT" | grep -q '^rm .*d/b'; then
    echo "DEFECT: d/b was modified after the scan but would be removed (timestamp shifted by the dropped offset seconds)"
    RC=1
  fi
done
exit $RC

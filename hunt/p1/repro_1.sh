#!/bin/bash
# repro_1: --skip-content-hash merges groups whose prefix AND suffix differ, because the
# prefix hash and the suffix hash are combined with XOR and cancel each other when the
# first and the last block of a file are equal.
# usage: repro_1.sh <checkout>   (the binary ${1:-/repo}/target/debug/fclones is used)
CHECKOUT=${1:-/repo}
F=${1:-/repo}/target/debug/fclones
T=$(mktemp -d) || exit 2
trap 'rm -rf "$T"' EXIT
cd "$T" || exit 2
# 64 MiB + 8 KiB sparse files (8 KiB on disk each): zeros in the middle,
# a = a2 begin and end with 4 KiB of 'X';  b = b2 begin and end with 4 KiB of 'Y'
python3 - <<'PY'
L = 64*1024*1024 + 8192
for names, c in ((('a', 'a2'), b'X'), (('b', 'b2'), b'Y')):
    for n in names:
        with open(n, 'wb') as f:
            f.write(c*4096); f.seek(L-4096); f.write(c*4096)
PY
# --max-suffix-size 4KiB makes the suffix as long as the prefix read from large files
# (this is the default on SSDs, where the threshold is 64 KiB instead of 64 MiB)
OUT=$($F group . --skip-content-hash --max-suffix-size 4KiB 2>/dev/null)
echo "$OUT"
GROUPS_N=$(echo "$OUT" | grep -c '^[0-9a-f]\{32,\}, ')
if echo "$OUT" | grep -q '^0\{32\}, .* \* 4:'; then
  echo "DEFECT: a/a2 (X...X) and b/b2 (Y...Y) differ in the first and in the last byte, yet they are one group of 4 with hash 0"
  echo "remove would do:"; echo "$OUT" | $F remove --dry-run 2>/dev/null
  exit 1
fi
if [ "$GROUPS_N" = 2 ]; then echo "ok: two groups"; exit 0; fi
echo "unexpected output"; exit 2

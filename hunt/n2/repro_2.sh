#!/bin/bash
# C02: a file replaced after the scan by rename (mv keeps the old mtime, only ctime changes)
# is not seen as modified: `fclones remove` destroys the last copy of the original content.
CHECKOUT=${1:-/repo}
F=$CHECKOUT/target/debug/fclones
D=$(mktemp -d); trap 'rm -rf "$D"' EXIT
cd "$D"; mkdir a b
printf 'AAAA1111' > a/x; printf 'AAAA1111' > b/x
printf 'BBBB2222' > a/x.new            # prepared before the scan, same length, other content
sleep 0.3
"$F" group a b -o rep 2>/dev/null
grep -v '^#' rep
mv a/x.new a/x                          # after the scan: a/x is another file now
echo "a/x: mtime $(stat -c %y a/x)  ctime $(stat -c %z a/x)"
grep '^# Timestamp' rep
"$F" remove < rep 2>&1
echo "after remove:"; for f in a/x b/x; do [ -e "$f" ] && echo "  $f: $(cat "$f")" || echo "  $f: <removed>"; done
if grep -qs AAAA1111 a/x b/x; then echo "OK: content AAAA1111 still exists"; exit 0
else echo "DEFECT: the only remaining copy of AAAA1111 (b/x) was removed"; exit 1; fi

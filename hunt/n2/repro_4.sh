#!/bin/bash
# C11: `move --dry-run` announces a move the real run refuses because the target exists
# (and the printed `mv` would overwrite the existing target file).
CHECKOUT=${1:-/repo}
F=$CHECKOUT/target/debug/fclones
D=$(mktemp -d); trap 'rm -rf "$D"' EXIT
cd "$D"; mkdir t; echo data > t/a; echo data > t/b
sleep 0.3
"$F" group t > rep 2>/dev/null
mkdir -p "trash$D/t"; echo precious > "trash$D/t/b"     # e.g. left by an earlier `fclones move trash`
echo "--- dry run"; "$F" move trash --dry-run < rep 2> dry.err; cat dry.err
echo "--- real run"; "$F" move trash < rep 2> real.err; cat real.err
dry=$(sed -n 's/.*Would process \([0-9]*\) files.*/\1/p' dry.err)
real=$(sed -n 's/.*Processed \([0-9]*\) files.*/\1/p' real.err)
if [ "$dry" != "$real" ]; then echo "DEFECT: dry run announces $dry moved files, the real run moved $real"; exit 1; fi
echo OK; exit 0

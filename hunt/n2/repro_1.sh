#!/bin/bash
# C02: a file rewritten (same length) after the scan, within the same second as the report
# timestamp, on a file system with 1-second timestamps, is not seen as modified:
# `fclones remove` destroys the last copy of the original content.
# Needs root (loop mount of an ext4 image with 128-byte inodes = 1 s timestamp granularity).
CHECKOUT=${1:-/repo}
F=$CHECKOUT/target/debug/fclones
D=$(mktemp -d)
cleanup() { cd /; umount "$D/mnt" 2>/dev/null; rm -rf "$D"; }
trap cleanup EXIT
dd if=/dev/zero of="$D/img" bs=1M count=8 2>/dev/null
mkfs.ext4 -q -F -I 128 "$D/img" >/dev/null 2>&1
mkdir "$D/mnt"
if ! mount -o loop "$D/img" "$D/mnt" 2>/dev/null; then
    echo "SKIPPED: cannot loop-mount an ext4 image with 1 s timestamps (need root)"; exit 0
fi
for attempt in 1 2 3 4 5 6; do
    K="$D/mnt/k$attempt"; mkdir -p "$K/a" "$K/b"
    printf 'AAAA1111' > "$K/a/x"; printf 'AAAA1111' > "$K/b/x"
    sleep 2.1
    # start shortly after the beginning of a second
    python3 -c 'import time; t=time.time(); time.sleep(1.10-(t%1))' 2>/dev/null || sleep 0.$(( (1100000000 - 10#$(date +%N)) / 1000000 ))
    "$F" group "$K" -o "$D/rep" 2>/dev/null
    printf 'BBBB2222' > "$K/a/x"          # genuine modification, after the scan, same length
    ts=$(sed -n 's/^# Timestamp: [0-9-]* \([0-9:]*\)\..*/\1/p' "$D/rep")
    mt=$(stat -c %y "$K/a/x" | cut -d' ' -f2 | cut -d. -f1)
    echo "attempt $attempt: report timestamp second=$ts, mtime of the rewritten file=$(stat -c %y "$K/a/x")"
    [ "$ts" = "$mt" ] && break
    echo "  (the second changed between scan and write, retrying)"
done
sleep 1
"$F" remove < "$D/rep" 2>&1
echo "after remove:"; for f in "$K/a/x" "$K/b/x"; do [ -e "$f" ] && echo "  $f: $(cat "$f")" || echo "  $f: <removed>"; done
if grep -qs AAAA1111 "$K/a/x" "$K/b/x"; then
    echo "OK: the original content AAAA1111 still exists"; exit 0
else
    echo "DEFECT: content AAAA1111 existed in b/x only (a/x was rewritten after the scan) and was removed"; exit 1
fi

#!/bin/bash
# C02/C08: with a `group -S --isolate` report a symbolic link under a retained root and the file
# it points to under another root are split: the file is removed, the retained (even
# --keep-path protected) link is left dangling.
CHECKOUT=${1:-/repo}
F=$CHECKOUT/target/debug/fclones
D=$(mktemp -d); trap 'rm -rf "$D"' EXIT
cd "$D"; mkdir d1 d2 d3
echo data > d2/A; echo data > d3/B; ln -s ../d2/A d1/L
sleep 0.3
"$F" group -S --isolate d3 d1 d2 2>/dev/null > rep; grep -v '^#' rep
echo "before: d1/L reads: $(cat d1/L)"
"$F" remove --keep-path 'd1/**' < rep 2>&1
ls -l d1 d2 d3
if [ -L d1/L ] && ! [ -e d1/L ]; then
    echo "DEFECT: d1/L was protected by --keep-path and listed as retained, but it dangles now: d2/A was removed"; exit 1
fi
echo OK; exit 0

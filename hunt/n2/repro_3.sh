#!/bin/bash
# C11 (and the C02 mechanism "hard links only inside one device"): `link` partitions a group by
# the device of the file a symbolic link points to, not by the device the link itself is on.
# Dry run announces 1 processed file, the real run fails with EXDEV and processes 0;
# the printed script, run by bash, deletes the symbolic link.
CHECKOUT=${1:-/repo}
F=$CHECKOUT/target/debug/fclones
D=$(mktemp -d); S=$(mktemp -d -p /dev/shm 2>/dev/null)
trap 'rm -rf "$D" "$S"' EXIT
if [ -z "$S" ] || [ "$(stat -c %d "$D")" = "$(stat -c %d "$S")" ]; then
    echo "SKIPPED: need /dev/shm on another device than $D"; exit 0
fi
mkdir "$D/t" "$S/x" "$S/y"
echo data > "$S/x/K"; echo data > "$S/y/A"; ln -s "$S/y/A" "$D/t/Z"
sleep 0.3
"$F" group -S "$S/x" "$D/t" > "$D/rep" 2>/dev/null
grep -v '^#' "$D/rep"
echo "--- dry run"; "$F" link --dry-run < "$D/rep" > "$D/script" 2> "$D/dry.err"; cat "$D/script" "$D/dry.err"
echo "--- real run"; "$F" link < "$D/rep" 2> "$D/real.err"; cat "$D/real.err"; ls -l "$D/t"
dry=$(sed -n 's/.*Would process \([0-9]*\) files.*/\1/p' "$D/dry.err")
real=$(sed -n 's/.*Processed \([0-9]*\) files.*/\1/p' "$D/real.err")
echo "--- the printed script run by bash on the same tree"; bash "$D/script"; ls -l "$D/t"
if [ "$dry" != "$real" ]; then
    echo "DEFECT: dry run announces $dry processed files, the real run processed $real"
    [ -L "$D/t/Z" ] || echo "        and the dry-run script removed the symbolic link Z, the real run kept it"
    exit 1
fi
echo "OK"; exit 0

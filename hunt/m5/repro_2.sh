#!/bin/bash
# C17: '!' is printed bare in shell-quoted output (dry-run script, "# Command:" line);
# a bash that performs history expansion (every interactive bash, i.e. a pasted script) decodes other bytes.
CHECKOUT="${1:-/tmp/hunt/m5}"
F="$CHECKOUT/target/debug/fclones"
[ -x "$F" ] || F=/tmp/hunt/m5/target/debug/fclones
T=$(mktemp -d) || exit 2
cd "$T" || exit 2
mkdir x
echo dup > x/0keep
echo dup > 'x/a!e'
"$F" group x 2>/dev/null > report.txt
"$F" remove --dry-run < report.txt 2>/dev/null > script.sh
echo "dry-run script:"; cat script.sh
LINE=$(grep '^rm ' script.sh | head -1)
WORD=${LINE#rm }
EXPECTED="$T/x/a!e"
# paste "printf <word>" into an interactive bash (history expansion is on by default there)
DECODED=$(printf 'echo first\nprintf "%%s\\n" %s\n' "$WORD" \
          | HISTFILE=/dev/null bash --norc --noprofile -i 2>/dev/null | tail -1)
# non-interactive bash for comparison
DECODED_NI=$(printf 'printf "%%s\\n" %s\n' "$WORD" | bash --norc --noprofile 2>/dev/null | tail -1)
echo "printed word            : $WORD"
echo "expected bytes          : $EXPECTED"
echo "bash (interactive)      : $DECODED"
echo "bash (non-interactive)  : $DECODED_NI"
cd /; rm -rf "$T"
if [ "$DECODED" != "$EXPECTED" ]; then
  echo "DEFECT: the printed word is not decoded back to the path by an interactive bash (bare '!')"
  exit 1
fi
echo "ok"
exit 0

#!/bin/bash
# C13: with --follow-links the set of reported files depends on --threads and on the order of the roots,
# because the walk marks a path as visited before the route-specific checks are made (one_fs in visit_dir)
# and the first route to reach a directory also decides which .gitignore stack is applied below it.
CHECKOUT="${1:-/tmp/hunt/m5}"
F="$CHECKOUT/target/debug/fclones"
[ -x "$F" ] || F=/tmp/hunt/m5/target/debug/fclones
T=$(mktemp -d) || exit 2
cd "$T" || exit 2
DEFECT=0

echo "== variant 1: .gitignore stack of the first route wins (no symbolic link needed) =="
mkdir -p d/a/sub
printf '*.tmp\n' > d/a/.gitignore
echo dup > d/a/sub/x.tmp
echo dup > d/a/sub/y.tmp
count() { "$F" group "$@" 2>/dev/null | grep -c '^    /'; }
A=$(count -t 1 -L d d/a/sub)
B=$(count -t 1 -L d/a/sub d)
C=$(count -t 4 -L d/a/sub d)
N1=$(count -t 1 d d/a/sub)
N2=$(count -t 1 d/a/sub d)
echo "files reported, -t 1 -L d d/a/sub : $A"
echo "files reported, -t 1 -L d/a/sub d : $B"
echo "files reported, -t 4 -L d/a/sub d : $C   (same command line as the previous one, other pool size)"
echo "files reported without -L         : $N1 / $N2 (both orders)"
if [ "$A" != "$B" ] || [ "$B" != "$C" ]; then DEFECT=1; fi

echo "== variant 1b: one root, a link into a directory below another .gitignore =="
mkdir -p e/b; ln -s ../a/sub e/b/link; mkdir -p e/a/sub      # b gets the smaller inode number
printf '*.tmp\n' > e/a/.gitignore
echo dup2 > e/a/sub/x.tmp; echo dup2 > e/a/sub/y.tmp
S1=$(count -t 1 -L e); S4=$(count -t 4 -L e)
echo "files reported, -t 1 -L e : $S1"
echo "files reported, -t 4 -L e : $S4"
if [ "$S1" != "$S4" ]; then DEFECT=1; fi

echo "== variant 2: --one-fs, a mount point that is also given as a root (needs /dev/shm mounted below /dev) =="
if [ -d /dev/shm ] && [ "$(stat -c %d /dev)" != "$(stat -c %d /dev/shm)" ] && X=$(mktemp -d -p /dev/shm); then
  echo dupm5 > "$X/p"; echo dupm5 > "$X/q"
  cnt() { timeout 120 "$F" group "$@" 2>/dev/null | grep -c "$X/"; }
  O1=$(cnt -t 1 -L --one-fs /dev /dev/shm)
  O2=$(cnt -t 1 -L --one-fs /dev/shm /dev)
  O3=$(cnt -t 4 -L --one-fs /dev/shm /dev)
  echo "files reported, -t 1 -L --one-fs /dev /dev/shm : $O1"
  echo "files reported, -t 1 -L --one-fs /dev/shm /dev : $O2"
  echo "files reported, -t 4 -L --one-fs /dev/shm /dev : $O3"
  rm -rf "$X"
  if [ "$O1" != "$O2" ] || [ "$O2" != "$O3" ]; then DEFECT=1; fi
else
  echo "skipped (no nested tmpfs mount available)"
fi
cd /; rm -rf "$T"
if [ $DEFECT = 1 ]; then
  echo "DEFECT: the report body depends on the order of the input paths / on --threads"
  exit 1
fi
echo "ok: same result for all orders and pool sizes"
exit 0

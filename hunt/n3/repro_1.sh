#!/bin/bash
# C18/C05: `fclones move` leaves a complete copy under DIR when the source cannot be unlinked
# (rename failed for a reason other than EXDEV -> silent copy fall-back -> unlink fails -> no roll-back).
# usage: repro_1.sh <checkout>      exit 1 = defect present, 0 = not present
CHECKOUT=${1:-/repo}
FC=${1:-/repo}/target/debug/fclones
[ -x "$FC" ] || FC="$CHECKOUT/target/debug/fclones"
T=$(mktemp -d) || exit 2
chmod 755 "$T"
mkdir -p "$T/src/a" "$T/src/b" "$T/out"
echo hello > "$T/src/a/x"; echo hello > "$T/src/b/x"
( cd "$T" && "$FC" group src -o rep.txt 2>/dev/null )
RUN=()
if [ "$(id -u)" = 0 ]; then
  if chattr +a "$T/src/b" 2>/dev/null; then
    MODE="append-only source directory (chattr +a), same file system, run as root"
  else
    # run as an unprivileged user who may write to DIR but not to the source directory
    MODE="source directory not writable for the (unprivileged) user, same file system"
    chown -R nobody "$T/out"
    RUN=(setpriv --reuid=nobody --regid=nogroup --clear-groups)
  fi
else
  MODE="source directory without write permission (chmod 555), same file system"
  chmod 555 "$T/src/b"
fi
echo "scenario: $MODE"
echo "--- fclones move out  (1st run)"
( cd "$T" && "${RUN[@]}" "$FC" move out < rep.txt ) 2>&1 | sed 's/^/    /'
TARGET="$T/out$T/src/b/x"
echo "--- state after the 1st run"
( cd "$T" && find src out -type f | sort | sed 's/^/    /' )
defect=0
if [ -e "$T/src/b/x" ] && [ -e "$TARGET" ]; then
  echo "DEFECT: the move failed (source still in place, 0 files processed) but a copy was left at"
  echo "        $TARGET"
  defect=1
fi
# remove the cause of the failure and try again
chattr -a "$T/src/b" 2>/dev/null; chmod 755 "$T/src/b"
echo "--- fclones move out  (2nd run, cause of the failure removed)"
( cd "$T" && "$FC" move out < rep.txt ) 2>&1 | sed 's/^/    /'
if [ $defect = 1 ] && [ -e "$T/src/b/x" ]; then
  echo "DEFECT: the 2nd run refuses the file: the leftover of the 1st run blocks it (Target already exists)"
fi
rm -rf "$T"
exit $defect

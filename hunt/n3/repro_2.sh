#!/bin/bash
# C18: `fclones move` panics (device.rs get_mount_point: self.mount_points[0]) when the system has no
# mount point that sysinfo regards as a disk (everything on tmpfs/ramfs), while `group`, `remove`, `link` work.
# Needs root (unshare -m, mount, chroot). exit 1 = defect present, 0 = not present, 2 = could not set up.
CHECKOUT=${1:-/repo}
FC=${1:-/repo}/target/debug/fclones
[ -x "$FC" ] || FC="$CHECKOUT/target/debug/fclones"
T=$(mktemp -d) || exit 2
export FC T
unshare -m bash -s <<'INNER'
R=$T/root
mkdir -p $R || exit 2
mount -t tmpfs none $R || { echo "cannot mount tmpfs (need root)"; exit 2; }
mkdir -p $R/bin $R/proc $R/work/a $R/work/b $R/work/out
cp "$FC" $R/bin/fclones || exit 2
for l in $(ldd "$FC" | grep -o '/[^ ]*'); do mkdir -p $R$(dirname $l); cp -L $l $R$l; done
mount -t proc proc $R/proc || exit 2
echo hello > $R/work/a/x; echo hello > $R/work/b/x
chroot $R /bin/fclones --version >/dev/null 2>&1 || { echo "cannot run fclones in chroot"; exit 2; }
echo "--- inside the chroot /proc/mounts lists only:  none / tmpfs   and   proc /proc proc"
echo "--- fclones group /work/a /work/b -o /work/rep.txt"
chroot $R /bin/fclones group /work/a /work/b -o /work/rep.txt 2>&1 | grep -c "info" >/dev/null
grep "^    " $R/work/rep.txt
echo "--- fclones move /work/out < rep.txt"
chroot $R /bin/fclones move /work/out < $R/work/rep.txt > $R/out.txt 2>&1
rc=$?
grep -v "^ \|^note\|^stack" $R/out.txt | sed 's/^/    /'
echo "    exit status: $rc"
echo "--- state"
( cd $R/work && find a b out -type f | sort | sed 's/^/    /' )
if grep -q "panicked" $R/out.txt; then
  echo "DEFECT: fclones move crashed instead of moving /work/b/x to /work/out/work/b/x"
  exit 1
fi
if [ -e $R/work/out/work/b/x ] && [ ! -e $R/work/b/x ]; then echo "moved correctly"; exit 0; fi
echo "unexpected state"; exit 2
INNER
rc=$?
rm -rf "$T" 2>/dev/null
exit $rc

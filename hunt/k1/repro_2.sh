#!/bin/bash
# C19: the open-file semaphore (RLIMIT_OPEN_FILES) hands out one permit per hashing task, but a
# --transform task keeps ~5 descriptors open (child stdin file / stdout pipe / stderr pipe / spawn
# status pipe / $IN copy / $OUT fifo). The open-file budget is exceeded, files fail with EMFILE and
# are silently left out of the groups.
CHECKOUT=${1:-/tmp/hunt/k1}
F="${1:-/tmp/hunt/k1}/target/debug/fclones"
T=$(mktemp -d)
mkdir $T/d
for i in $(seq 1 1500); do echo "content $((i % 500))" > $T/d/f$i; done   # 500 groups of 3 identical files
ulimit -n 256 || { echo "cannot lower RLIMIT_NOFILE"; rm -rf $T; exit 0; }
# 64 threads = the default pool size for an SSD on a 16-core machine (4 * cores); permits = 256 - 5 = 251
$F group $T/d --threads 64 --transform 'cp $IN $OUT' -o $T/report.txt 2>$T/err
emfile=$(grep -c "Too many open files" $T/err)
groups=$(grep -c "^[0-9a-f]\{32\}," $T/report.txt)
files=$(grep -c "^    " $T/report.txt)
echo "rlimit nofile=256 (semaphore permits=251), threads=64"
echo "warnings 'Too many open files': $emfile"
echo "groups reported: $groups (expected 500), files in groups: $files (expected 1500)"
grep "Too many open files" $T/err | head -2
rm -rf "$T"
if [ "$emfile" -gt 0 ] || [ "$files" != 1500 ]; then
  echo "DEFECT PRESENT: open-file budget exceeded although at most 64 permits were held"
  exit 1
fi
echo "defect not present"
exit 0

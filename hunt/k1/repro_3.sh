#!/bin/bash
# C01 (minor): `group -o FILE` creates/truncates FILE before the scan (check_can_create_output_file).
# If FILE lies inside the scanned tree and empty files are included (--min 0), the still-empty report
# file is scanned, grouped with the empty files, and then filled with the report: the report lists
# itself as a 0-byte duplicate although it is neither empty nor identical to the other members.
CHECKOUT=${1:-/tmp/hunt/k1}
F="${1:-/tmp/hunt/k1}/target/debug/fclones"
T=$(mktemp -d)
mkdir $T/d
touch $T/d/e1 $T/d/e2
echo x > $T/d/x1; echo x > $T/d/x2
(cd $T/d && $F group . --min 0 -o report.txt 2>/dev/null)
cat $T/d/report.txt
size=$(stat -c %s $T/d/report.txt)
listed=$(grep -c "^    .*/report.txt$" $T/d/report.txt)
rm -rf "$T"
if [ "$listed" -gt 0 ]; then
  echo "DEFECT PRESENT: report.txt ($size bytes) is reported as a member of the 0 B group"
  exit 1
fi
echo "defect not present"
exit 0

#!/bin/bash
# C12/C01: the hash cache is keyed by the transform command string only; --in-place (which changes
# where the transform output is read from) is not part of the key, so a run with --in-place gets the
# hashes cached by a run without it (and vice versa).
CHECKOUT=${1:-/tmp/hunt/k1}
F="${1:-/tmp/hunt/k1}/target/debug/fclones"
T=$(mktemp -d)
export XDG_CACHE_HOME=$T/cache      # private, empty hash cache
mkdir $T/d
printf 'axx\n' > $T/d/f1; printf 'bxx\n' > $T/d/f2; printf 'cxx\n' > $T/d/f3   # three DIFFERENT files
TR='sed -i s/x/y/ $IN'

echo "== run 1: --cache, --in-place forgotten (output = empty stdout of sed -i; all outputs equal, 0 B)"
$F group $T/d --cache --transform "$TR" 2>/dev/null | grep -v '^#'
echo "== run 2: --cache --in-place (corrected command line)"
$F group $T/d --cache --in-place --transform "$TR" -o $T/cached.txt 2>/dev/null
grep -v '^#' $T/cached.txt
echo "== run 3: same as run 2, but without --cache"
$F group $T/d --in-place --transform "$TR" -o $T/uncached.txt 2>/dev/null
grep -v '^#' $T/uncached.txt
echo "== what 'fclones remove' would do with the report of run 2:"
$F remove --dry-run < $T/cached.txt 2>/dev/null

c=$(grep -c "^    " $T/cached.txt); u=$(grep -c "^    " $T/uncached.txt)
rm -rf "$T"
if [ "$c" != "$u" ]; then
  echo "DEFECT PRESENT: cached run reports $c files in groups, uncached run reports $u (files differ in byte 0)"
  exit 1
fi
echo "defect not present"
exit 0

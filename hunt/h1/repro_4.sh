#!/bin/bash
# C13 (also C03): `--stdin` must give the same report as passing the same paths as arguments,
# and every run must terminate with a report. A single path that is not valid UTF-8 on stdin
# makes fclones panic (config.rs input_paths: `s.unwrap()`), no report is written at all.
# usage: repro_4.sh <checkout>   (exit 1 = defect present, 0 = not present)
CHECKOUT="${1:-/tmp/hunt/h1}"
FCLONES="$CHECKOUT/target/debug/fclones"
[ -x "$FCLONES" ] || FCLONES=/tmp/hunt/h1/target/debug/fclones
D=$(mktemp -d) || exit 2
trap 'rm -rf "$D"' EXIT
mkdir "$D/t"
echo hello > "$D/t/ok1"
echo hello > "$D/t/ok2"
echo hello > "$D/t/$(printf 'bad\377name')"   # legal file name on Linux, not valid UTF-8
cd "$D" || exit 2
export RUST_BACKTRACE=0

echo "== paths as arguments: fclones group --depth 0 t/*"
"$FCLONES" group --depth 0 t/* >"$D/args.out" 2>"$D/args.err"; RC_ARGS=$?
grep -v '^#' "$D/args.out"; echo "-- exit status: $RC_ARGS"

echo "== same paths on stdin: find t -type f | fclones group --depth 0 --stdin"
find t -type f | "$FCLONES" group --depth 0 --stdin >"$D/stdin.out" 2>"$D/stdin.err"; RC_STDIN=${PIPESTATUS[1]}
grep -v '^#' "$D/stdin.out"
echo "-- stderr:"; grep -v ' info: ' "$D/stdin.err"
echo "-- exit status: $RC_STDIN"

A=$(grep -v '^#' "$D/args.out"); S=$(grep -v '^#' "$D/stdin.out")
if [ "$RC_STDIN" = 0 ] && [ "$A" = "$S" ]; then
    echo "OK: --stdin gives the same report as arguments"
    exit 0
fi
if grep -q panicked "$D/stdin.err"; then
    echo "DEFECT: fclones panicked on a non-UTF-8 input path given via --stdin; no report was produced"
else
    echo "DEFECT: --stdin report differs from the report for the same paths given as arguments"
fi
exit 1

#!/bin/bash
# C13 / C03: with --follow-links the "already visited" set is updated before the depth limit is
# applied, so with overlapping roots the result depends on the order of the roots and on the
# number of threads; duplicates under an explicitly given root are silently dropped.
# usage: repro_2.sh <checkout>   (exit 1 = defect present, 0 = not present)
CHECKOUT="${1:-/tmp/hunt/h1}"
FCLONES="$CHECKOUT/target/debug/fclones"
[ -x "$FCLONES" ] || FCLONES=/tmp/hunt/h1/target/debug/fclones
D=$(mktemp -d) || exit 2
trap 'rm -rf "$D"' EXIT
mkdir -p "$D/dir/sub"
echo hello > "$D/dir/sub/x"
echo hello > "$D/dir/sub/y"
echo other > "$D/dir/top"
cd "$D" || exit 2

body() { "$FCLONES" group "$@" 2>/dev/null | grep -v '^#'; }

echo "== A: -L --depth 1 -t 1 dir dir/sub"
A=$(body -L --depth 1 -t 1 dir dir/sub); echo "$A"
echo "== B: -L --depth 1 -t 1 dir/sub dir   (same roots, other order)"
B=$(body -L --depth 1 -t 1 dir/sub dir); echo "$B"
echo "== C: -L --depth 1 -t 4 dir/sub dir   (same as B, more threads)"
C=$(body -L --depth 1 -t 4 dir/sub dir); echo "$C"
echo "== D: --depth 1 -t 1 dir/sub dir      (same as B without -L)"
Dd=$(body --depth 1 -t 1 dir/sub dir); echo "$Dd"


# Variant with a SINGLE root: a symbolic link deep in the tree points to a shallow directory.
mkdir -p "$D/r/real/deep" "$D/r/z/z"
echo hello > "$D/r/real/deep/f1"
echo hello > "$D/r/real/deep/f2"
ln -s ../../real "$D/r/z/z/link"
echo "== E: -L --depth 3 -t 1 r   (r/real/deep/f1,f2 are at depth 3)"
E=$(body -L --depth 3 -t 1 r); echo "$E"
echo "== F: -L --depth 3 -t 8 r"
Ff=$(body -L --depth 3 -t 8 r); echo "$Ff"
echo "== G: --depth 3 -t 1 r      (without -L)"
G=$(body --depth 3 -t 1 r); echo "$G"

RC=0
if [ "$A" = "$B" ] && [ "$B" = "$C" ] && [ -n "$B" ]; then
    echo "OK (overlapping roots): report body independent of root order and thread count"
else
    echo "DEFECT (overlapping roots): report body depends on root order / thread count; dir/sub/x and dir/sub/y were dropped"
    RC=1
fi
if [ "$E" = "$Ff" ] && [ -n "$E" ]; then
    echo "OK (single root): report body independent of thread count"
else
    echo "DEFECT (single root): r/real/deep/f1,f2 (within --depth 3) reported or not depending on --threads"
    RC=1
fi
exit $RC

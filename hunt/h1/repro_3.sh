#!/bin/bash
# C03 / C15: when the transform program cannot be started (ENOENT from spawn), every scanned file
# is dropped WITHOUT any warning and an empty report is written with exit status 0.
# The start-up check only probes the base name of the program on $PATH, so a wrong directory
# in the command goes unnoticed.
# usage: repro_3.sh <checkout>   (exit 1 = defect present, 0 = not present)
CHECKOUT="${1:-/tmp/hunt/h1}"
FCLONES="$CHECKOUT/target/debug/fclones"
[ -x "$FCLONES" ] || FCLONES=/tmp/hunt/h1/target/debug/fclones
D=$(mktemp -d) || exit 2
trap 'rm -rf "$D"' EXIT
mkdir "$D/t"
echo hello > "$D/t/x"
echo hello > "$D/t/y"
echo other > "$D/t/z"

echo "== reference: --transform cat"
"$FCLONES" group "$D/t" --transform cat 2>/dev/null | grep -v '^#'

echo "== --transform '/nonexistent/dir/cat'"
"$FCLONES" group "$D/t" --transform '/nonexistent/dir/cat' >"$D/out" 2>"$D/err"
RC=$?
grep -v '^#' "$D/out"
echo "-- stderr:"; cat "$D/err"
echo "-- exit status: $RC"
GROUPS_N=$(grep -c '^[0-9a-f]\{32,\},' "$D/out")
WARNS=$(grep -c -i -E 'warn|error' "$D/err")
echo "groups=$GROUPS_N warnings_or_errors=$WARNS"
if [ "$GROUPS_N" = 0 ] && [ "$WARNS" = 0 ] && [ "$RC" = 0 ]; then
    echo "DEFECT: all 3 readable files were dropped silently (no warning, no error, exit 0, empty report)"
    exit 1
fi
echo "OK: the failure was reported (or the files were grouped)"
exit 0

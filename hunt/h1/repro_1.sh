#!/bin/bash
# C01 (also C03/C13): files with DIFFERENT content are reported as one duplicate group when
# --max-prefix-size > file length >= suffix threshold and --max-suffix-size >= file length.
# usage: repro_1.sh <checkout>   (exit 1 = defect present, 0 = not present)
CHECKOUT="${1:-/tmp/hunt/h1}"
FCLONES="$CHECKOUT/target/debug/fclones"
[ -x "$FCLONES" ] || FCLONES=/tmp/hunt/h1/target/debug/fclones
D=$(mktemp -d) || exit 2
trap 'rm -rf "$D"' EXIT
mkdir "$D/t"
# 64 MiB >= suffix threshold of every device type (64 KiB on SSD, 64 MiB on HDD/unknown).
# The files are sparse; a/a2 and b/b2 differ in their very first byte.
SIZE=67108864
for f in a b; do
    truncate -s $SIZE "$D/t/$f"
done
printf 'A' | dd of="$D/t/a" conv=notrunc status=none
printf 'B' | dd of="$D/t/b" conv=notrunc status=none
cp --sparse=always "$D/t/a" "$D/t/a2"
cp --sparse=always "$D/t/b" "$D/t/b2"
cmp -s "$D/t/a" "$D/t/b" && { echo "setup error: a and b are equal"; exit 2; }

echo "== reference run (default prefix/suffix sizes)"
"$FCLONES" group "$D/t" 2>/dev/null | grep -v '^#'
echo "== run with --max-prefix-size 128M --max-suffix-size 128M"
OUT=$("$FCLONES" group "$D/t" --max-prefix-size 128M --max-suffix-size 128M 2>/dev/null | grep -v '^#')
echo "$OUT"
GROUPS_N=$(echo "$OUT" | grep -c '^[0-9a-f]\{32,\},')
BIGGEST=$(echo "$OUT" | grep '^[0-9a-f]\{32,\},' | sed 's/.*\* \([0-9]*\):$/\1/' | sort -n | tail -1)
echo "groups=$GROUPS_N biggest_group=$BIGGEST"
if [ "$GROUPS_N" = 2 ] && [ "$BIGGEST" = 2 ]; then
    echo "OK: a/a2 and b/b2 reported as two separate groups"
    exit 0
fi
echo "DEFECT: files a and b differ in byte 0 but are reported in the same group"
exit 1

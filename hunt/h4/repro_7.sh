#!/bin/bash
# C09/C16: patterns that are absolute / cwd-relative but are not recognised as such
. "$(dirname "$0")/common.sh"
mk "$T/a/f1"; mk "$T/a/f2"; mk "$T/b/f1"; mk "$T/c/f1"
abs=$(count "$BIN" group "$T" --path "{$T/a,$T/b}/**")
ctl=$(count "$BIN" group "$T" --path "$T/{a,b}/**")
dot=$(cd "$T" && count "$BIN" group . --path './a/*')
dotx=$(cd "$T" && count "$BIN" group . --exclude './a/*')
echo "--path '{$T/a,$T/b}/**' selected $abs files (expected 3)"
echo "--path '$T/{a,b}/**'   selected $ctl files (control, expected 3)"
echo "cwd=$T --path './a/*'    selected $dot files (expected 2)"
echo "cwd=$T --exclude './a/*' selected $dotx files (expected 2: b/f1 c/f1)"
if [ "$abs" != 3 ] || [ "$dot" != 2 ] || [ "$dotx" != 2 ]; then echo "DEFECT PRESENT"; exit 1; fi
echo "defect not present"; exit 0

# sourced by the repro scripts
CHECKOUT="${1:-/tmp/hunt/h4}"
BIN="$CHECKOUT/target/debug/fclones"
[ -x "$BIN" ] || BIN=/tmp/hunt/h4/target/debug/fclones
T=$(mktemp -d)
trap 'rm -rf "$T"' EXIT
mk() { mkdir -p "$(dirname "$1")"; echo "same content" > "$1"; }
# prints the number of files that passed the selection (walk + path/name/size filters),
# taken from the log line "Found N (..) files matching selection criteria"
count() { "$@" 2>&1 >/dev/null | sed -n 's/.*Found \([0-9]*\) (.*files matching selection criteria.*/\1/p' | head -1; }

#!/bin/bash
# C09/C16: directory pruning rejects ancestors of matching paths when the literal
# prefix of the pattern contains a non-ASCII character (bytes vs chars in regex.rs)
. "$(dirname "$0")/common.sh"
mk "$T/ż/sub/a"; mk "$T/ż/sub/b"      # non-ASCII directory
mk "$T/z/sub/a"; mk "$T/z/sub/b"      # ASCII control
ascii=$(count "$BIN" group "$T" --path "$T/z/**")
uni=$(count "$BIN" group "$T" --path "$T/ż/**")
rel=$(cd "$T/ż" && count "$BIN" group . --path 's*/*')      # relative glob, cwd contains ż
echo "--path '$T/z/**'  selected $ascii files (expected 2)"
echo "--path '$T/ż/**'  selected $uni files (expected 2)"
echo "cwd=$T/ż --path 's*/*' selected $rel files (expected 2)"
# --regex variant: get_fixed_prefix fails to drop the optional char before '?'
R=$(mktemp -d /tmp/h4r1XXXXXX); trap 'rm -rf "$T" "$R"' EXIT   # path without '.'
mk "$R/a/f1"; mk "$R/a/f2"
rx=$(count "$BIN" group "$R" --regex --path "$R/aż?/.*")
echo "--regex --path '$R/aż?/.*' selected $rx files (expected 2: a/f1 a/f2)"
if [ "$ascii" = 2 ] && { [ "$uni" != 2 ] || [ "$rel" != 2 ] || [ "$rx" != 2 ]; }; then
  echo "DEFECT PRESENT"; exit 1
fi
echo "defect not present"; exit 0

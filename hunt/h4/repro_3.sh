#!/bin/bash
# C16: a glob whose last character is '$' crashes fclones (the escaped "\$" is stripped
# to a dangling "\" by trim_end_matches('$'))
. "$(dirname "$0")/common.sh"
mk "$T/d/a\$"; mk "$T/d/copy-of-a\$"; mk "$T/d/a\$bc"
out=$("$BIN" group "$T/d" --name '*a$' 2>&1); rc=$?
echo "$out" | grep -E 'panicked|regex parse error|incomplete escape|^    /' | head -5
echo "exit code: $rc"
n=$(echo "$out" | grep -c '^    /')
echo "--name '*a\$' selected $n files (expected 2: 'a\$' and 'copy-of-a\$')"
if echo "$out" | grep -q panicked || [ "$n" != 2 ]; then echo "DEFECT PRESENT"; exit 1; fi
echo "defect not present"; exit 0

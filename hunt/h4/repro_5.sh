#!/bin/bash
# C09: .fdignore is not read in a directory that also has a .gitignore;
#      a '!pattern' in a nested .gitignore cannot re-include a file ignored by a parent
. "$(dirname "$0")/common.sh"
bad=0
R="$T/g2"; mk "$R/a.txt"; mk "$R/b.txt"; mk "$R/c.txt"; mk "$R/d.txt"
echo 'a.txt' > "$R/.gitignore"; echo 'b.txt' > "$R/.fdignore"
"$BIN" group "$R" 2>/dev/null | grep '^    /' | sed 's|.*/||' | sort | tr '\n' ' ' > "$T/sel"
echo "(a) .gitignore lists a.txt, .fdignore lists b.txt; selected: $(cat "$T/sel") (expected: c.txt d.txt)"
grep -q 'b.txt' "$T/sel" && bad=1
R="$T/g1"; mk "$R/x.txt"; mk "$R/a.log"; mk "$R/sub/keep.log"; mk "$R/sub/other.log"
echo '*.log' > "$R/.gitignore"; echo '!keep.log' > "$R/sub/.gitignore"
"$BIN" group "$R" 2>/dev/null | grep '^    /' | sed 's|.*/||' | sort | tr '\n' ' ' > "$T/sel"
echo "(b) root .gitignore '*.log', sub/.gitignore '!keep.log'; selected: $(cat "$T/sel") (git semantics: keep.log x.txt)"
grep -q 'keep.log' "$T/sel" || bad=1
if [ $bad = 1 ]; then echo "DEFECT PRESENT"; exit 1; fi
echo "defect not present"; exit 0

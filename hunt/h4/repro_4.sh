#!/bin/bash
# C16/C09: '**' is translated to '.*' which does not match a newline, so '**' does not
# cross a path component that contains a newline character
. "$(dirname "$0")/common.sh"
mk "$T/d/a"$'\n'"b/f"; mk "$T/d/ab/f"; mk "$T/d/a"$'\n'"b/g"; mk "$T/d/ab/g"
inc=$(count "$BIN" group "$T/d" --path '**/f')
exc=$(count "$BIN" group "$T/d" --exclude '**/g')
star=$(count "$BIN" group "$T/d" --path "$T/d/*/f")
echo "--path '**/f'     selected $inc files (expected 2: 'a\\nb/f' and 'ab/f')"
echo "--path '$T/d/*/f' selected $star files (control, expected 2: single '*' does match the newline)"
echo "--exclude '**/g'  selected $exc files (expected 2: both g files excluded, both f files kept)"
if [ "$inc" != 2 ] || [ "$exc" != 2 ]; then echo "DEFECT PRESENT"; exit 1; fi
echo "defect not present"; exit 0

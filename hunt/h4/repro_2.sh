#!/bin/bash
# C09: with --follow-links the visited set is updated before the --depth cut-off, so a
# directory first reached at the depth limit is never read when it is reached again at a
# smaller level (overlapping roots, or a symlink that is a shortcut into the tree)
. "$(dirname "$0")/common.sh"
bad=0
# (a) overlapping roots
R="$T/root"; mk "$R/a/b/f1"; mk "$R/a/b/f2"; mk "$R/a/b/c/f3"
nolinks=$(count "$BIN" group "$R/a/b" "$R" --depth 2 -t 1)
links=$(count "$BIN" group "$R/a/b" "$R" --depth 2 -t 1 -L)
echo "(a) group root/a/b root --depth 2 -t 1     : $nolinks files (expected 3)"
echo "(a) group root/a/b root --depth 2 -t 1 -L  : $links files (expected 3, there are no links at all)"
[ "$links" = 3 ] || bad=1
# (b) symlink shortcut; outcome depends on the inode order of two sibling directories
for order in "z deep" "deep z"; do
  S="$T/s_${order// /_}"; mkdir -p "$S"; for d in $order; do mkdir "$S/$d"; done
  mk "$S/deep/a/b/c/f1"; mk "$S/deep/a/b/c/f2"; ln -s ../deep/a/b "$S/z/link"
  n=$(count "$BIN" group "$S" --depth 4 -L -t 1)
  echo "(b) created '$order': group S --depth 4 -L : $n files (expected 2: S/z/link/c/f{1,2} is 4 levels deep)"
  [ "$n" = 2 ] || bad=1
done
if [ $bad = 1 ]; then echo "DEFECT PRESENT"; exit 1; fi
echo "defect not present"; exit 0

#!/bin/bash
# C09: a cwd-relative pattern selects nothing when the working directory name is not valid UTF-8
. "$(dirname "$0")/common.sh"
D="$T/"$'\xff'"dir"; mk "$D/a/x"; mk "$D/a/y"
if [ ! -d "$D" ]; then echo "file system does not allow non-UTF-8 names; skipped"; exit 0; fi
all=$(cd "$D" && count "$BIN" group .)
rel=$(cd "$D" && count "$BIN" group . --path 'a/*')
echo "cwd=<tmp>/\\xFFdir: group .              selected $all files (expected 2)"
echo "cwd=<tmp>/\\xFFdir: group . --path 'a/*' selected $rel files (expected 2)"
if [ "$all" = 2 ] && [ "$rel" != 2 ]; then echo "DEFECT PRESENT"; exit 1; fi
echo "defect not present"; exit 0

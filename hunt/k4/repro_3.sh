#!/bin/bash
# C04 (one level above D38): after the report a DIRECTORY holding members is replaced by a symbolic
# link to the directory holding the other members. The reported paths d1/a and d2/a are now the
# same directory entry; the file passes every staleness test and `remove` / `link --soft` destroy the only copy.
CK=${1:-/tmp/hunt/k4}
F=$CK/target/debug/fclones
[ -x "$F" ] || F=/tmp/hunt/k4/target/debug/fclones
T=$(mktemp -d)
trap 'rm -rf "$T"' EXIT
defect=0
run() {  # $1 = label, $2 = group options ("ROOTS" is replaced by the two dirs), $3... = dedupe command
  local label=$1 gopts=$2; shift 2
  local D=$T/$RANDOM; mkdir -p $D/photos $D/photos_backup
  echo "precious payload" > $D/photos/a.jpg; cp $D/photos/a.jpg $D/photos_backup/a.jpg
  touch -d '2 hours ago' $D/photos/a.jpg $D/photos_backup/a.jpg
  ( cd $D && $F group ${gopts/ROOTS/photos photos_backup} -o $D/report.txt 2>/dev/null )
  # the user consolidates the two directories ...
  rm -rf $D/photos_backup; ln -s photos $D/photos_backup
  # ... and later feeds the old report to a dedupe command
  echo "=== $label: fclones $* < report"
  $F "$@" < $D/report.txt 2>&1 | grep -v ' info: Started' | sed 's/^/    /'
  if [ "$(cat $D/photos/a.jpg 2>/dev/null)" = "precious payload" ]; then
    echo "    ok: photos/a.jpg still has its content"
  else
    echo "    DEFECT: the only copy of the data is gone:"; ls -l $D/photos | sed 's/^/      /'
    defect=1
  fi
}
run "--isolate, remove"          "--isolate ROOTS"      remove
run "--isolate, link --soft"     "--isolate ROOTS"      link --soft
run "--match-links, remove"      "--match-links ROOTS"  remove
run "--match-links, link --soft" "--match-links ROOTS"  link --soft
run "control: no option, remove" "ROOTS"                remove
if [ $defect = 1 ]; then echo "RESULT: defect present"; exit 1; else echo "RESULT: defect not present"; exit 0; fi

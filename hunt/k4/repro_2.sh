#!/bin/bash
# C20 (sibling of D41): the lock is taken by opening the file for writing; a duplicate that is a
# currently running executable cannot be opened for writing (ETXTBSY), so remove/link/move fail on it
# although nobody holds a lock on it and the --dry-run script (mv, ln, rm) works on such files.
CK=${1:-/tmp/hunt/k4}
F=$CK/target/debug/fclones
[ -x "$F" ] || F=/tmp/hunt/k4/target/debug/fclones
D=$(mktemp -d)
trap 'kill $PID 2>/dev/null; rm -rf "$D"' EXIT
defect=0
for op in "remove" "link" "link --soft" "move $D/trash"; do
  rm -rf $D/t $D/trash; mkdir $D/t
  cp /bin/sleep $D/t/prog1; cp /bin/sleep $D/t/prog2
  $D/t/prog2 30 & PID=$!
  sleep 0.2
  $F group $D/t -o $D/rep 2>/dev/null
  echo "=== fclones $op"
  echo "dry run says:"; $F $op --dry-run < $D/rep 2>&1 | grep -v ' info: Started' | sed 's/^/    /'
  echo "real run:";     $F $op < $D/rep 2>&1 | grep -v ' info: Started' | sed 's/^/    /'
  if [ "$(stat -c %i $D/t/prog1)" != "$(stat -c %i $D/t/prog2 2>/dev/null)" ] && [ -f $D/t/prog2 ] && [ ! -L $D/t/prog2 ]; then
    echo "DEFECT: prog2 was left alone although no process holds a lock on it"
    defect=1
  fi
  echo "with --no-lock:"; $F $op --no-lock < $D/rep 2>&1 | grep -v ' info: Started' | sed 's/^/    /'
  kill $PID; wait $PID 2>/dev/null
done
if [ $defect = 1 ]; then echo "RESULT: defect present"; exit 1; else echo "RESULT: defect not present"; exit 0; fi

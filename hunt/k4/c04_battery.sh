#!/bin/bash
# battery: for each op and each modification of member f2 (or f1), check that the new content survives
F=/tmp/hunt/k4/target/debug/fclones
mods=("same_len_rewrite" "append" "truncate" "delete" "recreate" "to_dir" "to_symlink_other" "to_symlink_member" "touch" "to_fifo" "replace_mv_new")
for op in "remove" "link" "link --soft" "move TRASH" "dedupe"; do
 for victim in f1 f2 f3; do
 for mod in "${mods[@]}"; do
  D=$(mktemp -d); mkdir $D/d; for i in 1 2 3; do echo original-content > $D/d/f$i; done
  echo zzzzzzzz-content > $D/other
  touch -d '1 hour ago' $D/d/* $D/other
  $F group $D/d -o $D/rep.txt 2>/dev/null
  sleep 0.01
  V=$D/d/$victim
  case $mod in
   same_len_rewrite) echo ORIGINAL-CONTENT > $V; new=ORIGINAL-CONTENT;;
   append) echo more >> $V; new=more;;
   truncate) : > $V; new="";;
   delete) rm $V; new="";;
   recreate) rm $V; echo NEWNEWNE-content > $V; new=NEWNEWNE-content;;
   to_dir) rm $V; mkdir $V; new="";;
   to_symlink_other) ln -sf $D/other $V; new="";;
   to_symlink_member) o=f1; [ $victim = f1 ] && o=f2; ln -sf $D/d/$o $V; new="";;
   touch) touch $V; new="";;
   to_fifo) rm $V; mkfifo $V; new="";;
   replace_mv_new) echo REPLACED-content > $D/tmp; mv $D/tmp $V; new=REPLACED-content;;
  esac
  cmd=${op/TRASH/$D/trash}
  out=$($F $cmd < $D/rep.txt 2>&1)
  bad=""
  # new content must still exist somewhere under $D
  if [ -n "$new" ] && ! grep -rqs -- "$new" $D/d $D/trash 2>/dev/null; then bad="new content '$new' lost"; fi
  # the original content must exist under d
  if ! grep -rqs -- "original-content" $D/d; then bad="$bad original lost"; fi
  if ! grep -qs zzzzzzzz $D/other; then bad="$bad other lost"; fi
  # dangling links
  for f in $D/d/*; do if [ -L $f ] && [ ! -e $f ]; then bad="$bad dangling:$f"; fi; done
  if [ -n "$bad" ]; then echo "VIOLATION op=$op victim=$victim mod=$mod: $bad"; echo "$out"; ls -l $D/d; fi
  rm -rf $D
 done; done
done
echo battery done

#!/bin/bash
F=/tmp/hunt/k4/target/debug/fclones
for op in "link" "link --soft" "remove" "move TRASH"; do
for delay in 0.03 0.05 0.08 0.12 0.2; do
  D=$(mktemp -d); mkdir $D/d
  for i in $(seq 1 600); do echo "content-$((i%100))-xxxxxxxxxxxxxxxx" > $D/d/f$i; done
  touch -d '1 hour ago' $D/d/*
  $F group $D/d -o $D/rep 2>/dev/null
  cmd=${op/TRASH/$D/trash}
  $F $cmd < $D/rep >/dev/null 2>&1 & PID=$!
  sleep $delay; kill -9 $PID 2>/dev/null; wait $PID 2>/dev/null
  bad=0; tmpc=0; done_c=0
  for i in $(seq 1 600); do
    want="content-$((i%100))-xxxxxxxxxxxxxxxx"; p=$D/d/f$i
    if [ -e $p ] && [ "$(cat $p)" = "$want" ]; then
       if [ -L $p ] || [ "$(stat -c %h $p)" -gt 1 ]; then done_c=$((done_c+1)); fi
       continue; fi
    # tmp sibling?
    t=$(ls $D/d/f$i.* 2>/dev/null | head -1)
    if [ -n "$t" ] && [ "$(cat $t)" = "$want" ]; then tmpc=$((tmpc+1)); continue; fi
    if [[ "$op" == remove* ]] || [[ "$op" == move* ]]; then
       # content must exist in some other file of the class
       if grep -rqsx -- "$want" $D/d; then continue; fi
    fi
    bad=$((bad+1)); echo "BAD: $p"
  done
  # every content class must still exist
  for c in $(seq 0 99); do grep -rqsx -- "content-$c-xxxxxxxxxxxxxxxx" $D/d || { echo "LOST class $c"; bad=$((bad+1)); }; done
  echo "op=$op delay=$delay bad=$bad tmp_siblings=$tmpc linked=$done_c leftover=$(ls $D/d | grep -c '\.')"
  rm -rf $D
done; done

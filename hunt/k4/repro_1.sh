#!/bin/bash
# C15: a vanished hard link takes its surviving siblings out of the report
# (and vanished siblings that were never opened stay in the report).
# usage: repro_1.sh <checkout>     exit 1 = defect present, 0 = not present
CK=${1:-/tmp/hunt/k4}
F=$CK/target/debug/fclones
[ -x "$F" ] || F=/tmp/hunt/k4/target/debug/fclones
D=$(mktemp -d)
trap 'rm -rf "$D"' EXIT
defect=0

scenario() {   # $1 = name, $2 = command creating the file content at path $3
  local name=$1 S=$D/$1
  mkdir -p $S/snap1 $S/snap2 $S/snap3 $S/snap4 $S/copy
  $2 $S/snap1/data                      # one inode ...
  ln $S/snap1/data $S/snap2/data        # ... with four names
  ln $S/snap1/data $S/snap3/data
  ln $S/snap1/data $S/snap4/data
  $2 $S/copy/b                          # an independent file with the same content
  cmp -s $S/snap1/data $S/copy/b || cp $S/snap1/data $S/copy/b
  sync
  # The paths are streamed on stdin, so all of them are stat-ed while they exist;
  # three of the four names vanish before stdin is closed, i.e. before hashing starts.
  ( printf '%s\n' $S/snap1/data $S/snap2/data $S/snap3/data $S/snap4/data $S/copy/b
    sleep 1
    rm $S/snap1/data $S/snap2/data $S/snap3/data ) |
    $F group --stdin -o $S.report 2>$S.err
  echo "--- scenario $name: exit code of group: $?"
  grep -v ' info: ' $S.err
  grep -v '^#' $S.report
  local bad=0
  if ! grep -q "snap4/data" $S.report || ! grep -q "copy/b" $S.report; then
    echo "DEFECT($name): snap4/data and copy/b are duplicates that exist and are readable, but they are not reported"
    bad=1
  fi
  if grep -q "snap[123]/data" $S.report; then
    echo "DEFECT($name): the report lists paths that vanished before hashing and were never opened"
    bad=1
  fi
  return $bad
}

sparse() { truncate -s 200000 "$1"; }                      # no extents: same behaviour on every fs / disk kind
random() { [ -e $D/seed ] || head -c 200000 /dev/urandom > $D/seed; cp $D/seed "$1"; }

# control: nothing vanishes -> the group is complete
C=$D/control; mkdir -p $C/a $C/b $C/c; truncate -s 200000 $C/a/data; ln $C/a/data $C/b/data; truncate -s 200000 $C/c/b
printf '%s\n' $C/a/data $C/b/data $C/c/b | $F group --stdin 2>/dev/null | grep -v '^#' | grep -c data | { read n; echo "control: $n hard-linked names reported together with the copy (expected 2)"; }

scenario sparse sparse || defect=1
# With ordinary content the outcome depends on the storage: on SSDs and on file systems without FIEMAP
# (tmpfs, ...) it is the same as above; on rotational/unknown disks the failed extent lookup of the
# vanished name happens to separate it from its siblings, unless it vanishes after that lookup.
scenario random random || { echo "(also reproduced with ordinary file content on this file system)"; defect=1; }

if [ $defect = 1 ]; then echo "RESULT: defect present"; exit 1; else echo "RESULT: defect not present"; exit 0; fi

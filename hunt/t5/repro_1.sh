#!/bin/bash
# C14: the file COUNTS of the report statistics overflow (sibling of the byte totals repaired in 2f93098):
# `group --rf-under N` with a large N makes the sum of the missing replicas exceed usize.
# Debug build: panic "attempt to add with overflow" (no report at all). Release build: the count wraps.
CHECKOUT=${1:-/repo}
F=${1:-/repo}/target/debug/fclones
T=$(mktemp -d)
trap 'rm -rf "$T"' EXIT
mkdir "$T/d"
echo aaaa   > "$T/d/a1"; cp "$T/d/a1" "$T/d/a2"
echo bbbbbb > "$T/d/b1"; cp "$T/d/b1" "$T/d/b2"
cd "$T" || exit 2
N=10000000000000000000     # 1e19 < 2^64, a value clap accepts for --rf-under
"$F" group --rf-under $N d > out.txt 2> err.txt
rc=$?
echo "exit code: $rc"
grep -m1 -A1 "panicked" err.txt
grep "^# Missing" out.txt
if [ $rc -ne 0 ] && grep -q "attempt to add with overflow" err.txt; then
    echo "DEFECT: group panicked while adding up the number of missing replicas (2 groups x ~1e19)"
    exit 1
fi
# a build without overflow checks (release): the header must not show fewer missing files than
# one single group is missing (N - 2 each); the exact sum does not fit, so it has to saturate
missing=$(sed -n 's/^# Missing: .* in \([0-9]*\) files$/\1/p' out.txt)
if [ -n "$missing" ] && [ "$missing" != "18446744073709551615" ]; then
    # compare as strings of equal length: anything below N-2 is a wrapped value
    if [ ${#missing} -lt 20 ] || [[ "$missing" < "09999999999999999998" ]]; then
        echo "DEFECT: header says $missing missing files, each of the 2 groups alone misses $N - 2"
        exit 1
    fi
fi
echo "no defect observed"
exit 0

#!/bin/bash
# --one-fs is not applied to symbolic links that are reported themselves (--symbolic-links):
# a link whose target lives on another file system is matched with the files of the scanned one.
CHECKOUT=${1:-/repo}
F=${1:-/repo}/target/debug/fclones
T=$(mktemp -d)
S=$(mktemp -d -p /dev/shm 2>/dev/null)
trap 'rm -rf "$T" "$S"' EXIT
if [ -z "$S" ] || [ "$(stat -c %d "$T")" = "$(stat -c %d "$S")" ]; then
    echo "need two file systems (mktemp dir and /dev/shm are the same device): cannot test"; exit 0
fi
mkdir "$T/d"
echo hello > "$T/d/a"
cp "$T/d/a" "$S/b"              # the same data on the OTHER file system
ln -s "$S/b" "$T/d/l"           # file link crossing the file systems
cd "$T" || exit 2
echo "--- group -L --one-fs d   (the crossing link is not followed: nothing reported)"
"$F" group -L --one-fs d 2>/dev/null | grep -v '^#'
echo "--- group -S --one-fs d"
"$F" group -S --one-fs d 2>/dev/null | grep -v '^#' | tee out.txt
if grep -q "/d/l$" out.txt; then
    echo "DEFECT: d/l (data on $(stat -c %d "$S")) is reported as a duplicate of d/a (device $(stat -c %d "$T")) in spite of --one-fs"
    exit 1
fi
echo "no defect observed"; exit 0

#!/bin/bash
# C08: `remove --keep-path '*/originals/**'` removes photos/originals/a.jpg when the input path
# `photos` of the earlier `group` run is a symbolic link to a directory elsewhere.
# `group --path` with the same glob (repaired in b452e55) does select the file.
CO=${1:-/repo}
F=$CO/target/debug/fclones
T=$(mktemp -d) || exit 2
cd "$T" || exit 2
mkdir -p disk/photos/originals work/backup
ln -s ../disk/photos work/photos
cd work || exit 2
echo img > photos/originals/a.jpg
cp photos/originals/a.jpg backup/a.jpg
# make the protected file the one that the priority would drop
touch -d '2020-01-01 00:00:00' backup/a.jpg
touch -d '2021-01-01 00:00:00' photos/originals/a.jpg

"$F" group backup photos > ../rep.txt 2>/dev/null
echo "--- report:"; grep '^    ' ../rep.txt

echo "--- group --path '*/originals/**' --path 'backup/**' backup photos  (the glob matches the file for group):"
"$F" group --path '*/originals/**' --path 'backup/**' backup photos 2>/dev/null | grep '^    '
GROUP_MATCH=$("$F" group --path '*/originals/**' --path 'backup/**' backup photos 2>/dev/null | grep -c 'originals/a.jpg')

echo "--- control: remove --dry-run --priority most-recently-modified --keep-path 'photos/originals/**'"
"$F" remove --dry-run --priority most-recently-modified --keep-path 'photos/originals/**' < ../rep.txt 2>/dev/null

echo "--- remove --priority most-recently-modified --keep-path '*/originals/**'"
"$F" remove --priority most-recently-modified --keep-path '*/originals/**' < ../rep.txt 2>&1 | grep -v 'info:'
ls -l photos/originals/ backup/ 2>&1

if [ "$GROUP_MATCH" -ge 1 ] && [ ! -e photos/originals/a.jpg ]; then
    echo "DEFECT: photos/originals/a.jpg matches --keep-path '*/originals/**' (group selects it by that glob) but remove deleted it"
    exit 1
fi
echo "not reproduced"
exit 0

#!/bin/bash
# C04: `remove -m '2024-05-01 12:00:00 UT'` (also ET, PT, or a military letter such as N) takes the
# limit for local time: with TZ=EST5 the limit becomes 17:00 UTC and a file rewritten at 13:00 UTC
# passes as unmodified and is removed.
CO=${1:-/repo}
F=$CO/target/debug/fclones
T=$(mktemp -d) || exit 2
cd "$T" || exit 2
mkdir a b
echo data > a/x
cp a/x b/x
touch -d '2024-04-01 00:00:00 UTC' a/x
"$F" group a b > rep.txt 2>/dev/null
# b/x is rewritten (same length, other content) at 13:00 UTC, one hour after the limit
echo DATA > b/x
touch -d '2024-05-01 13:00:00 UTC' b/x

export TZ=EST5
echo "--- control, -m '2024-05-01 12:00:00 UTC':"
"$F" remove --dry-run -m '2024-05-01 12:00:00 UTC' < rep.txt 2>&1 | grep -v 'info:'
echo "--- control, -m '2024-05-01 12:00:00 XYZ':"
"$F" remove --dry-run -m '2024-05-01 12:00:00 XYZ' < rep.txt 2>&1 | grep -v 'info:' | cut -c1-200
BAD=0
for z in UT ET N; do
    echo "--- -m '2024-05-01 12:00:00 $z' (dry run):"
    OUT=$("$F" remove --dry-run -m "2024-05-01 12:00:00 $z" < rep.txt 2>&1 | grep -v 'info:')
    echo "$OUT"
    echo "$OUT" | grep -q '^rm .*b/x' && BAD=1
done
echo "--- real run, -m '2024-05-01 12:00:00 UT':"
"$F" remove -m '2024-05-01 12:00:00 UT' < rep.txt 2>&1 | grep -v 'info: Started'
ls -l --time-style=full-iso a b
if [ ! -e b/x ] && [ "$BAD" = 1 ]; then
    echo "DEFECT: b/x (content 'DATA', modified 13:00 UTC) was removed although the limit is 12:00 UT; only a/x ('data') is left"
    exit 1
fi
echo "not reproduced"
exit 0

#!/bin/bash
# C13 (every run terminates) / C09: with --follow-links, directories that contain ignore files and link to
# each other are walked once per *route* (ordered list of ignore files collected on the way): n! growth.
F="${1:-/repo}/target/debug/fclones"
mk() { # $1 = number of directories, complete link graph
  local n=$1; mkdir root
  for i in $(seq 1 $n); do
    mkdir root/d$i; echo '*.tmp' > root/d$i/.gitignore; echo data$i > root/d$i/file
    for j in $(seq 1 $n); do [ $i != $j ] && ln -s ../d$j root/d$i/to$j; done
  done
}
bad=0
T=$(mktemp -d); cd "$T" || exit 2; mk 6
ctl=$("$F" group -L root --no-ignore 2>&1 | sed -n 's/.*Scanned \([0-9]*\) file entries.*/\1/p')
got=$("$F" group -L root 2>&1 | sed -n 's/.*Scanned \([0-9]*\) file entries.*/\1/p')
echo "6 dirs, 6 files, 30 links: scanned entries with --no-ignore: $ctl, with the (harmless) .gitignore files honoured: $got"
if [ "${got:-0}" -gt 5000 ]; then echo "DEFECT: the walk visited $got entries in a tree of 48 entries"; bad=1; fi
cd /; rm -rf "$T"
T=$(mktemp -d); cd "$T" || exit 2; mk 8
s=$(date +%s)
timeout 20 "$F" group -L root >/dev/null 2>&1; rc=$?
echo "8 dirs, 8 files, 56 links: exit code $rc after $(( $(date +%s) - s )) s (124 = killed by timeout 20; --no-ignore needs 0.02 s)"
if [ $rc = 124 ]; then echo "DEFECT: the run does not terminate in reasonable time"; bad=1; fi
cd /; rm -rf "$T"
# acyclic variant: package i links to its dependencies i+1..n  -> 2^n
T=$(mktemp -d); cd "$T" || exit 2; mkdir root; n=14
for i in $(seq 1 $n); do mkdir -p root/p$i/deps; echo 'dist/' > root/p$i/.gitignore; echo data$i > root/p$i/file
  for j in $(seq $((i+1)) $n); do ln -s ../../p$j root/p$i/deps/p$j; done; done
ctl=$("$F" group -L root --no-ignore 2>&1 | sed -n 's/.*Scanned \([0-9]*\) file entries.*/\1/p')
got=$("$F" group -L root 2>&1 | sed -n 's/.*Scanned \([0-9]*\) file entries.*/\1/p')
echo "acyclic, 14 packages: scanned entries with --no-ignore: $ctl, default: $got (doubles with every further package)"
if [ "${got:-0}" -gt $(( ${ctl:-1} * 50 )) ]; then bad=1; fi
cd /; rm -rf "$T"
exit $bad

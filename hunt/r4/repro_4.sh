#!/bin/bash
# C09/C13 (error path): a read error on the --stdin list is unwrap()ed -> panic, exit 101, no report
F="${1:-/repo}/target/debug/fclones"
T=$(mktemp -d); cd "$T" || exit 2
mkdir d; echo x > d/a; echo x > d/b
"$F" group --stdin < d > out.txt 2> err.txt; rc=$?
echo "exit code: $rc"; grep -m1 -A1 panicked err.txt | cut -c1-200
bad=0
if [ $rc = 101 ] || grep -q panicked err.txt; then echo "DEFECT: panic instead of an error message"; bad=1; fi
cd /; rm -rf "$T"
exit $bad

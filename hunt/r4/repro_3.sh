#!/bin/bash
# C09: a path pattern that names the symlinked input directory other than by a fully literal,
# exactly-cased prefix matches nothing (the D95 repair canonicalises only a literal leading directory)
F="${1:-/repo}/target/debug/fclones"
T=$(mktemp -d); cd "$T" || exit 2
mkdir -p disk/private disk/public w
for f in disk/private/a disk/private/b disk/public/a disk/public/b; do echo same > $f; done
cd w; ln -s ../disk photos
bad=0
run() { # $@ = extra options; expected: the two files in private/ are excluded
  out=$("$F" group photos "$@" 2>/dev/null | grep '^    /')
  n=$(echo "$out" | grep -c private)
  if [ "$n" = 0 ]; then echo "ok     : group photos $*"; else echo "DEFECT : group photos $*   -> $n files of photos/private still reported"; bad=1; fi
}
run --exclude 'photos/private/**'              # control: repaired as D95
run --exclude '*/private/**'
run --exclude 'phot?s/private/**'
run --exclude '{photos,pictures}/private/**'
run -i --exclude 'photos/PRIVATE/**'
run -i --exclude 'Photos/private/**'
echo "-- the same as --path (expected: the 2 files of photos/private are reported)"
out=$("$F" group photos --path '*/private/*' 2>/dev/null | grep -c '^    /')
if [ "$out" != 2 ]; then echo "DEFECT : group photos --path '*/private/*' selected $out files instead of 2"; bad=1; fi
cd /; rm -rf "$T"
exit $bad

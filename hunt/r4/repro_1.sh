#!/bin/bash
# C09/C16: a relative glob whose first component can be empty and is followed by `**`
# (`*/**`, `*/**/x`, `[!_]**`, `?(a)/**`) is taken for an absolute pattern and is not anchored at the cwd.
F="${1:-/repo}/target/debug/fclones"
T=$(mktemp -d); cd "$T" || exit 2
mkdir -p w/sub other/sub
for f in w/top w/sub/in other/top other/sub/in; do echo same > $f; done
cd w
bad=0
echo "== fclones group . ../other --path '*/**'   (expected: only w/sub/in is selected -> no group at all)"
out=$("$F" group . ../other --path '*/**' 2>/dev/null | grep -v '^#')
echo "$out"
if echo "$out" | grep -q -e '/w/top$' -e '/other/'; then echo "DEFECT: files outside <cwd>/*/ were selected"; bad=1; fi
echo "== fclones group . ../other --exclude '*/**' (expected: other/top, w/top, other/sub/in remain, w/sub/in excluded)"
out=$("$F" group . ../other --exclude '*/**' 2>/dev/null | grep -v '^#')
echo "$out"
n=$(echo "$out" | grep -c "^    /")
if [ "$n" != 3 ]; then echo "DEFECT: $n files left instead of 3 (everything was excluded)"; bad=1; fi
echo "== fclones remove --path '*/**' --dry-run  (expected: only w/sub/in may be removed)"
"$F" group . ../other 2>/dev/null > ../rep.txt
out=$("$F" remove --path '*/**' --dry-run < ../rep.txt 2>/dev/null)
echo "$out"
if echo "$out" | grep -q -e '/w/top$' -e '/other/'; then echo "DEFECT: remove would delete files that are not below a subdirectory of the cwd"; bad=1; fi
cd /; rm -rf "$T"
exit $bad

#!/bin/bash
# C11 (and C18 sibling of D89): `move --dry-run` announces a move whose target cannot be created
# because a non-directory already occupies a parent position of the target (or DIR itself is a file).
CO=${1:-/repo}
F=$CO/target/debug/fclones
[ -x "$F" ] || F=${1:-/repo}/target/debug/fclones
T=$(mktemp -d) || exit 2
trap 'rm -rf "$T"' EXIT
cd "$T" || exit 2
T=$(pwd -P)
mkdir -p src/a trash
echo hello > src/a/f
echo hello > src/a/g
"$F" group "$T/src" > rep 2>/dev/null

defect=0
count() { sed -n 's/.*[Pp]rocess\(ed\)\? \([0-9]*\) files.*/\2/p' "$1"; }

echo "### variant A: a regular file exists where a parent directory of the target is needed"
mkdir -p "trash$T/src"
echo "precious" > "trash$T/src/a"           # DIR/<abs path of src>/a is a FILE, the move needs it as a directory
"$F" move trash --dry-run < rep > dryA.out 2> dryA.err
"$F" move trash           < rep > /dev/null 2> realA.err
cat dryA.out; grep -h -E "warn|rocess" dryA.err realA.err | sed 's/^[^]]*] //'
d=$(count dryA.err); r=$(count realA.err)
echo "dry-run announced: $d file(s); real run processed: $r file(s)"
[ "$d" != "$r" ] && defect=1

echo
echo "### variant B: DIR itself is a regular file"
echo "i am a file" > notadir
"$F" move notadir --dry-run < rep > dryB.out 2> dryB.err
"$F" move notadir           < rep > /dev/null 2> realB.err
cat dryB.out; grep -h -E "warn|rocess" dryB.err realB.err | sed 's/^[^]]*] //'
d=$(count dryB.err); r=$(count realB.err)
echo "dry-run announced: $d file(s); real run processed: $r file(s)"
[ "$d" != "$r" ] && defect=1

if [ $defect = 1 ]; then echo "DEFECT PRESENT: dry-run summary/script differs from the real run"; exit 1; fi
echo "defect not present"; exit 0

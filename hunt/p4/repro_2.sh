#!/bin/bash
# C11: `link` between two bind mounts of the SAME file system. st_dev is equal, so the group is not split
# (the D85 repair partitions by st_dev only), but link(2) fails with EXDEV across mount points.
# --dry-run announces the file and prints mv/ln/rm; the real run fails and rolls back; the printed script deletes the file.
CO=${1:-/repo}
F=$CO/target/debug/fclones
[ -x "$F" ] || F=${1:-/repo}/target/debug/fclones
if [ -z "$P4_IN_NS" ]; then
  # need the right to mount; use a private mount namespace (and a user namespace when not root)
  if [ "$(id -u)" = 0 ]; then P4_IN_NS=1 exec unshare -m bash "$0" "$@"; else P4_IN_NS=1 exec unshare -rm bash "$0" "$@"; fi
fi
T=$(mktemp -d) || exit 2
cleanup() { umount "$T/view" 2>/dev/null; rm -rf "$T"; }
trap cleanup EXIT
cd "$T" || exit 2
T=$(pwd -P)
mkdir -p data/x view
mount --bind "$T/data/x" "$T/view" || { echo "SKIP: cannot bind-mount here"; exit 0; }

setup() { rm -f view/* data/g; echo hello > data/g; echo hello > view/f; touch -d '2020-01-01' data/g view/f; }
snap()  { for p in data/g view/f; do if [ -e $p ]; then echo "$p: $(cat $p) (inode $( [ $p -ef data/g ] && echo of-g || echo own))"; else echo "$p: MISSING"; fi; done; ls -A view | sed 's/\.[A-Za-z0-9]\{24\}$/.<tmp>/;s/^/view: /'; }
count() { sed -n 's/.*[Pp]rocess\(ed\)\? \([0-9]*\) files.*/\2/p' "$1"; }

setup
"$F" group "$T/data/g" "$T/view" > rep 2>/dev/null
echo "st_dev of the two files: $(stat -c %d data/g) $(stat -c %d view/f)"
"$F" link --dry-run < rep > script.sh 2> dry.err
echo "--- dry-run script:"; cat script.sh
"$F" link < rep > /dev/null 2> real.err
grep -h -E "warn|rocess" dry.err real.err | sed 's/^[^]]*] //'
echo "--- tree after the real run:"; snap > snap.real; cat snap.real
setup
bash script.sh 2>&1 | sed 's/^/bash: /'
echo "--- tree after executing the dry-run script on an identical tree:"; snap > snap.script; cat snap.script
d=$(count dry.err); r=$(count real.err)
echo "dry-run announced: $d file(s); real run processed: $r file(s)"
if [ "$d" != "$r" ] || ! cmp -s snap.real snap.script; then echo "DEFECT PRESENT"; exit 1; fi
echo "defect not present"; exit 0

#!/bin/bash
# C11: `link` when the retained file runs out of hard links (EMLINK: 65000 on ext4, 32000 on ext2/3, 1023 on NTFS...).
# --dry-run announces every duplicate and prints mv/ln/rm for it; the real run fails on those beyond the limit and
# rolls them back; the printed script removes them.
CO=${1:-/repo}
F=$CO/target/debug/fclones
[ -x "$F" ] || F=${1:-/repo}/target/debug/fclones
T=$(mktemp -d) || exit 2
trap 'rm -rf "$T"' EXIT
cd "$T" || exit 2
T=$(pwd -P)
mkdir scan links
echo hello > links/l0
# give the file as many links as the file system allows, outside of the scanned directory
n=$(python3 - <<'PY'
import os
n = 1
try:
    for i in range(1, 70001):
        os.link('links/l0', 'links/l%d' % i); n += 1
except OSError:
    pass
print(n)
PY
)
if [ "$n" -gt 70000 ]; then echo "SKIP: this file system has no practical hard link limit"; exit 0; fi
echo "link limit of this file system: $n"
for i in 1 2 3 4 5; do rm links/l$i; done         # room for 4 more links after A below

setup() { rm -rf scan; mkdir scan; ln links/l0 scan/A; for i in 1 2 3 4 5 6 7 8; do echo hello > scan/D$i; done; touch -d 2020-01-01 scan/*; }
snap()  { for p in A D1 D2 D3 D4 D5 D6 D7 D8; do if [ -e scan/$p ]; then [ scan/$p -ef scan/A ] && echo "$p: link of A" || echo "$p: own inode"; else echo "$p: MISSING"; fi; done; }
count() { sed -n 's/.*[Pp]rocess\(ed\)\? \([0-9]*\) files.*/\2/p' "$1"; }

setup
"$F" group "$T/scan" > rep 2>/dev/null
"$F" link --dry-run < rep > script.sh 2> dry.err
"$F" link < rep > /dev/null 2> real.err
grep -h -E "warn|rocess" dry.err real.err | sed 's/^[^]]*] //'
echo "--- tree after the real run (names D1..D8 summarised):"; snap > snap.real; sed 's/D[0-9]/D*/' snap.real | sort | uniq -c | tee sum.real
setup
bash script.sh 2>&1 | sed 's/^/bash: /' | head -3
echo "--- tree after executing the dry-run script on an identical tree:"; snap > snap.script; sed 's/D[0-9]/D*/' snap.script | sort | uniq -c | tee sum.script
d=$(count dry.err); r=$(count real.err)
echo "dry-run announced: $d file(s); real run processed: $r file(s)"
if [ "$d" != "$r" ] || ! cmp -s sum.real sum.script; then echo "DEFECT PRESENT"; exit 1; fi
echo "defect not present"; exit 0

#!/bin/bash
# C11: `link` run by a user who neither owns nor can write the retained file, with fs.protected_hardlinks=1
# (the default of all major distributions): link(2) fails with EPERM. --dry-run announces the file and prints
# mv/ln/rm; the real run fails and rolls back; the printed script deletes the duplicate.
CO=${1:-/repo}
F=$CO/target/debug/fclones
[ -x "$F" ] || F=${1:-/repo}/target/debug/fclones
[ "$(id -u)" = 0 ] || { echo "SKIP: needs root to create files of another owner"; exit 0; }
[ "$(cat /proc/sys/fs/protected_hardlinks 2>/dev/null)" = 1 ] || { echo "SKIP: fs.protected_hardlinks is not 1"; exit 0; }
command -v setpriv >/dev/null || { echo "SKIP: no setpriv"; exit 0; }
AS="setpriv --reuid=65534 --regid=65534 --clear-groups"
$AS "$F" --version >/dev/null 2>&1 || { echo "SKIP: uid 65534 cannot execute $F"; exit 0; }
T=$(mktemp -d) || exit 2
trap 'rm -rf "$T"' EXIT
chmod 755 "$T"; cd "$T" || exit 2
T=$(pwd -P)
$AS test -x "$T" || { echo "SKIP: uid 65534 cannot reach $T"; exit 0; }

# a shared directory writable by everybody; the files belong to root and are read-only for the others
setup() { rm -rf d; mkdir d; echo hello > d/a; echo hello > d/b; chmod 644 d/a d/b; touch -d 2020-01-01 d/a d/b; chmod 777 d; }
snap()  { for p in d/a d/b; do if [ -e $p ]; then echo "$p: $(cat $p)"; else echo "$p: MISSING"; fi; done; }
count() { sed -n 's/.*[Pp]rocess\(ed\)\? \([0-9]*\) files.*/\2/p' "$1"; }

setup
"$F" group "$T/d" > rep 2>/dev/null; chmod 644 rep
$AS "$F" link --dry-run < rep > script.sh 2> dry.err
echo "--- dry-run script:"; cat script.sh
$AS "$F" link < rep > /dev/null 2> real.err
grep -h -E "warn|rocess" dry.err real.err | sed 's/^[^]]*] //'
echo "--- tree after the real run:"; snap | tee snap.real
setup
$AS bash script.sh 2>&1 | sed 's/^/bash: /'
echo "--- tree after executing the dry-run script (same user) on an identical tree:"; snap | tee snap.script
d=$(count dry.err); r=$(count real.err)
echo "dry-run announced: $d file(s); real run processed: $r file(s)"
if [ "$d" != "$r" ] || ! cmp -s snap.real snap.script; then echo "DEFECT PRESENT"; exit 1; fi
echo "defect not present"; exit 0

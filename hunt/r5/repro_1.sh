#!/bin/bash
# C14: `group -o FILE` lists the report itself (through a hard link or, with -S, a symbolic link
# to FILE) as an empty file, while `group > FILE` on the same tree does not.
CHECKOUT=${1:-/repo}
F=${1:-/repo}/target/debug/fclones
T=$(mktemp -d) || exit 2
cd "$T" || exit 2
mkdir d
: > d/e1
: > d/e2
echo "previous report" > d/report.txt
ln d/report.txt d/latest.txt          # e.g. a "latest report" alias kept next to the report

"$F" group -s 0 d -o d/report.txt 2>/dev/null
cp d/report.txt "$T/with_o.txt"
alias_size_after=$(stat -c %s d/latest.txt)
"$F" group -s 0 d > d/report.txt 2>/dev/null
cp d/report.txt "$T/with_redirect.txt"

echo "== report written with -o d/report.txt:"
grep -v '^# [TC][io]m' "$T/with_o.txt"
echo "== report written with > d/report.txt:"
grep -v '^# [TC][io]m' "$T/with_redirect.txt"

# the same with a symbolic link and --symbolic-links
rm d/latest.txt; ln -s report.txt d/latest.txt
"$F" group -S -s 0 d -o d/report.txt 2>/dev/null
cp d/report.txt "$T/with_o_symlink.txt"

defect=0
if grep -q '/d/latest.txt$' "$T/with_o.txt"; then
  echo "DEFECT: -o report lists its own hard link d/latest.txt as an empty file although it is the report: $alias_size_after bytes once the report is written"
  defect=1
fi
if grep -q '/d/latest.txt$' "$T/with_o_symlink.txt"; then
  echo "DEFECT: -S -o report lists the symbolic link d/latest.txt -> report.txt as an empty file"
  defect=1
fi
if grep -q '/d/latest.txt$' "$T/with_redirect.txt"; then
  echo "note: the redirected report lists the alias as well"
else
  echo "the redirected report (> d/report.txt) leaves the alias out, as intended by the repairs"
fi
cd /; rm -rf "$T"
exit $defect

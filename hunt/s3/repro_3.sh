#!/bin/bash
# C11/C18: --dry-run announces files that the real run refuses because the directory holding the
# duplicate is not writable (only the target side of `move` is checked since the D127 repair).
# Must run as an unprivileged user; when started as root it switches to uid/gid 65534 with setpriv.
CHECKOUT=${1:-/repo}
F=$CHECKOUT/target/debug/fclones
base=$(mktemp -d) || exit 2
trap 'chmod -R u+rwx "$base" 2>/dev/null; rm -rf "$base"' EXIT
chmod 755 "$base"
AS=()
if [ "$(id -u)" = 0 ]; then
    AS=(setpriv --reuid 65534 --regid 65534 --clear-groups)
    if ! "${AS[@]}" "$F" --version >/dev/null 2>&1; then
        cp "$F" "$base/fclones" && chmod 755 "$base/fclones" && F=$base/fclones
    fi
fi
mkdir -p "$base/t/a" "$base/t/b" "$base/out"
echo 'duplicate data' > "$base/t/a/f"
echo 'duplicate data' > "$base/t/b/f"
[ "$(id -u)" = 0 ] && chown -R 65534:65534 "$base/t" "$base/out"
"${AS[@]}" "$F" group "$base/t/a" "$base/t/b" > "$base/report" 2>/dev/null
chmod 555 "$base/t/b"            # t/b/f is the duplicate that is going to be dropped
before=$(cd "$base" && find t out | sort)
defect=0
for op in "remove" "link" "link --soft" "move $base/out"; do
    dry=$("${AS[@]}" "$F" $op --dry-run < "$base/report" 2>&1 >/dev/null | grep -o 'Would process [0-9]* files')
    real_out=$("${AS[@]}" "$F" $op < "$base/report" 2>&1)
    real=$(echo "$real_out" | grep -o 'Processed [0-9]* files')
    echo "== fclones $op"
    echo "   dry run : $dry"
    echo "   real run: $real   ($(echo "$real_out" | grep -o 'warn: Failed to [a-z]* file' | head -1) ... $(echo "$real_out" | grep -o 'Permission denied' | head -1))"
    if [ "$dry" = "Would process 1 files" ] && [ "$real" = "Processed 0 files" ]; then defect=1; fi
done
after=$(cd "$base" && find t out | sort)
if [ "$before" != "$after" ]; then
    echo "-- left behind under the target directory by the failed move:"
    diff <(echo "$before") <(echo "$after") | grep '^>' | head -3
fi
if [ $defect = 1 ]; then
    echo "DEFECT PRESENT: the dry run announces 1 file, the real run processes 0"
    exit 1
fi
echo "defect not observed"
exit 0

#!/bin/bash
# C05: a failed `dedupe` (the clone of the retained file into the duplicate fails after the backup
# clone was made) puts the data back with another clone and leaves the duplicate with a new
# modification time, although "Processed 0 files"; the report is then refused for that group.
# The sandbox has no reflink-capable file system, so FICLONE is emulated by an LD_PRELOAD shim
# (ficlone_shim.c next to this script; the prebuilt ficlone_shim.so is used when present).
CHECKOUT=${1:-/repo}
F=$CHECKOUT/target/debug/fclones
HERE=$(cd "$(dirname "$0")" && pwd)
base=$(mktemp -d) || exit 2
trap 'rm -rf "$base"' EXIT
SHIM=$HERE/ficlone_shim.so
if [ ! -r "$SHIM" ]; then
    SHIM=$base/ficlone_shim.so
    gcc -shared -fPIC -O1 -o "$SHIM" "$HERE/ficlone_shim.c" -ldl || { echo "cannot build the shim"; exit 2; }
fi
mkdir -p "$base/t/a" "$base/t/b"
echo 'same content' > "$base/t/a/f"
echo 'same content' > "$base/t/b/f"
touch -d '2021-03-04 05:06:07' "$base/t/a/f" "$base/t/b/f" "$base/t/a" "$base/t/b"
"$F" group "$base/t" > "$base/report" 2>/dev/null
before=$(stat -c '%Y %i %a' "$base/t/b/f")
# 1st FICLONE = backup of b/f into b/f.<random>, 2nd = a/f into b/f: make the 2nd fail (EINVAL,
# as the kernel does e.g. for a NOCOW/COW mix on btrfs; EXDEV between bind mounts is the same)
out=$(LD_PRELOAD=$SHIM FICLONE_FAIL_NTH=2 "$F" dedupe < "$base/report" 2>&1)
echo "$out" | grep -E 'warn|Processed' | sed 's/^\[[^]]*\] //'
after=$(stat -c '%Y %i %a' "$base/t/b/f")
echo "b/f before (mtime inode mode): $before"
echo "b/f after  (mtime inode mode): $after"
echo "content of b/f: $(cat "$base/t/b/f")"
echo "--- second attempt with the same report, no failure injected:"
out2=$(LD_PRELOAD=$SHIM "$F" dedupe < "$base/report" 2>&1)
echo "$out2" | grep -E 'warn|Processed' | sed 's/^\[[^]]*\] //'
if echo "$out" | grep -q 'Processed 0 files' && [ "${before%% *}" != "${after%% *}" ]; then
    echo "DEFECT PRESENT: the failed dedupe changed the modification time of the file it did not process"
    exit 1
fi
echo "defect not observed"
exit 0

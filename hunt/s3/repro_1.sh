#!/bin/bash
# C05/C11: link (and link --soft, dedupe) still fails with ENAMETOOLONG on a long path whose
# file name is shorter than the excess over PATH_MAX; --dry-run announces the file.
CHECKOUT=${1:-/repo}
F=$CHECKOUT/target/debug/fclones
base=$(mktemp -d) || exit 2
base=$(cd "$base" && pwd -P)
trap 'rm -rf "$base"' EXIT
target=4090                      # length of the paths of the two duplicates, < PATH_MAX
cd "$base" || exit 2
mkdir t && cd t
cur=$(( ${#base} + 2 ))
comp=$(printf 'd%.0s' $(seq 200))
while [ $(( target - 2 - (cur + 201) )) -ge 2 ]; do
    mkdir "$comp" && cd "$comp" || exit 2
    cur=$(( cur + 201 ))
done
rem=$(( target - 2 - cur ))
last=$(printf 'e%.0s' $(seq $(( rem - 1 ))))
mkdir "$last" && cd "$last" || exit 2
echo 'duplicate data' > f
echo 'duplicate data' > g
cd "$base"
"$F" group "$base/t" > "$base/report" 2>/dev/null
echo "length of the longest reported path: $(awk '{ sub(/^ +/, ""); if (length($0) > m) m = length($0) } END { print m }' "$base/report")"
dry=$("$F" link --dry-run < "$base/report" 2>&1 >/dev/null | grep -o 'Would process [0-9]* files')
real_out=$("$F" link < "$base/report" 2>&1)
real=$(echo "$real_out" | grep -o 'Processed [0-9]* files')
echo "dry run : $dry"
echo "real run: $real"
echo "$real_out" | grep -o 'warn: Failed to rename file' | head -1
echo "$real_out" | grep -o 'File name too long.*' | head -1
if [ "$dry" = "Would process 1 files" ] && [ "$real" = "Processed 0 files" ] \
   && echo "$real_out" | grep -q 'File name too long'; then
    echo "DEFECT PRESENT: the temporary sibling name of a 1-byte file name makes the path longer than PATH_MAX"
    exit 1
fi
echo "defect not observed"
exit 0

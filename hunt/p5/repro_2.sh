#!/bin/bash
# C09: --regex patterns that match absolute paths but do not literally start with '/' or '.*'
# (e.g. '.+/sub/.+', '\/tmp\/...', '[/]tmp/...') get the working directory prepended
# (fclones/src/selector.rs PathSelector::is_absolute) and then select / exclude nothing.
CHECKOUT=${1:-/repo}
F=$CHECKOUT/target/debug/fclones
T=$(mktemp -d)
trap 'rm -rf "$T"' EXIT
mkdir -p "$T/R/sub/deep" "$T/cwd"
for f in R/a R/b R/sub/c R/sub/deep/d; do echo hello > "$T/$f"; done
cd "$T/cwd" || exit 2
count() { grep -c '^    /' ; }
esc=$(printf '%s' "$T" | sed 's,/,\\/,g')
ref=$($F group "$T/R" --regex --path '.*/sub/.*' 2>/dev/null | count)
plus=$($F group "$T/R" --regex --path '.+/sub/.+' 2>/dev/null | count)
escd=$($F group "$T/R" --regex --path "$esc\\/R\\/sub\\/.*" 2>/dev/null | count)
cls=$($F group "$T/R" --regex --path "[/]tmp/.*/sub/.*" 2>/dev/null | count)
exc_ref=$($F group "$T/R" --regex --exclude '.*/sub/.*' 2>/dev/null | count)
exc_plus=$($F group "$T/R" --regex --exclude '.+/sub/.+' 2>/dev/null | count)
echo "--path '.*/sub/.*'            : $ref files (expected 2: R/sub/c, R/sub/deep/d)"
echo "--path '.+/sub/.+'            : $plus files (expected 2)"
echo "--path '$esc\\/R\\/sub\\/.*'  : $escd files (expected 2)"
echo "--path '[/]tmp/.*/sub/.*'     : $cls files (expected 2 if the scratch dir is under /tmp)"
echo "--exclude '.*/sub/.*'         : $exc_ref files (expected 2: R/a, R/b)"
echo "--exclude '.+/sub/.+'         : $exc_plus files (expected 2)"
if [ "$ref" = 2 ] && { [ "$plus" != 2 ] || [ "$escd" != 2 ] || [ "$exc_plus" != 2 ]; }; then
  echo "DEFECT PRESENT: a regex matching the absolute paths was anchored at the working directory"
  exit 1
fi
echo "defect not present"
exit 0

#!/bin/bash
# C09: --path with a non-ASCII directory name in the literal part of the pattern prunes the
# sub-directories below it (fclones/src/regex.rs Regex::is_partial_match mixes bytes and chars).
CHECKOUT=${1:-/repo}
F=$CHECKOUT/target/debug/fclones
T=$(mktemp -d)
trap 'rm -rf "$T"' EXIT
mkdir -p "$T/Фото/2024/май" "$T/Photo/2024/may"
for d in "Фото/c" "Фото/2024/a" "Фото/2024/май/b" "Photo/c" "Photo/2024/a" "Photo/2024/may/b"; do
  echo same-content > "$T/$d"
done
cd "$T" || exit 2
count() { grep -c '^    /' ; }
ascii_abs=$($F group "$T" --path "$T/Photo/**" 2>/dev/null | count)
uni_abs=$($F group "$T" --path "$T/Фото/**" 2>/dev/null | count)
uni_rel=$($F group . --path 'Фото/**' 2>/dev/null | count)
uni_ctl=$($F group "$T/Фото" 2>/dev/null | count)
echo "files reported with --path '$T/Photo/**' : $ascii_abs (expected 3)"
echo "files reported with --path '$T/Фото/**'  : $uni_abs (expected 3)"
echo "files reported with --path 'Фото/**' (cwd-relative): $uni_rel (expected 3)"
echo "files reported for 'group $T/Фото' without pattern: $uni_ctl (expected 3)"
if [ "$uni_abs" != 3 ] || [ "$uni_rel" != 3 ]; then
  echo "DEFECT PRESENT: files in sub-directories of the non-ASCII directory were not scanned"
  exit 1
fi
echo "defect not present"
exit 0

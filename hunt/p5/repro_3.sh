#!/bin/bash
# C09 (--one-fs as documented): "--one-fs  Don't match files on different filesystems or devices".
# one_fs is only used by the directory walk (fclones/src/walk.rs:395,424); group_files never
# separates the files by device, so files of two input paths on different file systems are
# reported as duplicates of each other.
CHECKOUT=${1:-/repo}
F=$CHECKOUT/target/debug/fclones
T=$(mktemp -d)
trap 'rm -rf "$T"' EXIT
mkdir -p "$T/disk1" "$T/disk2"
# a second file system, visible only inside a private mount namespace
if ! unshare -m sh -c "mount -t tmpfs none '$T/disk2'" 2>/dev/null; then
  echo "cannot mount a tmpfs in a private mount namespace here; not tested"
  exit 0
fi
out=$(unshare -m sh -c "
  mount -t tmpfs none '$T/disk2' || exit 2
  echo same-content > '$T/disk1/a'
  echo same-content > '$T/disk2/b'
  echo \"device of disk1: \$(stat -c %d '$T/disk1/a'), device of disk2: \$(stat -c %d '$T/disk2/b')\"
  '$F' group --one-fs '$T/disk1' '$T/disk2' 2>/dev/null | grep -v '^#'
")
echo "$out"
n=$(echo "$out" | grep -c '^    /')
echo "files reported as duplicates across the two file systems with --one-fs: $n (expected 0)"
if [ "$n" != 0 ]; then
  echo "DEFECT PRESENT: --one-fs matched files on different file systems"
  exit 1
fi
echo "defect not present"
exit 0

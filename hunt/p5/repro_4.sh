#!/bin/bash
# C09 (--name/--path/--exclude as documented): the README documents several patterns after one
# option: "fclones group . --name '*.jpg' '*.png'", "fclones group / --exclude '/dev/**' '/proc/**'".
# The options are declared as plain Vec<String> (fclones/src/config.rs:302-312), which takes one value
# per occurrence; the second pattern is taken for an input path.
CHECKOUT=${1:-/repo}
F=$CHECKOUT/target/debug/fclones
T=$(mktemp -d)
trap 'rm -rf "$T"' EXIT
mkdir -p "$T/R/tmp" "$T/R/private"
for f in 1.jpg 2.png 3.txt tmp/4.txt private/5.txt; do echo same > "$T/R/$f"; done
cd "$T/R" || exit 2
echo "\$ fclones group . --name '*.jpg' '*.png'     (the README example)"
out=$($F group . --name '*.jpg' '*.png' 2>&1); rc=$?
echo "$out" | grep -v '^#' | sed 's/^/    | /'
echo "exit code: $rc (expected 0 and a group of 1.jpg and 2.png)"
n=$(echo "$out" | grep -c '^    /')
bad=0
if [ "$rc" != 0 ] || [ "$n" != 2 ]; then bad=1; fi
echo
echo "\$ fclones group . --exclude tmp/4.txt private/5.txt   (two patterns that happen to be existing paths)"
out2=$($F group . --exclude tmp/4.txt private/5.txt 2>&1)
echo "$out2" | grep -v '^#' | grep -v info: | sed 's/^/    | /'
if echo "$out2" | grep -q 'private/5.txt'; then
  echo "private/5.txt was not excluded: the second pattern was silently used as an input path"
  bad=1
fi
if [ $bad = 1 ]; then
  echo "DEFECT PRESENT: only the first pattern after --name/--path/--exclude is a pattern"
  exit 1
fi
echo "defect not present"
exit 0

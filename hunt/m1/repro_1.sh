#!/bin/bash
# C03: `group --stdin --isolate <roots>` consumes the standard input while building the group
# filter, so the scan gets no paths: 0 files scanned, empty report, exit status 0.
CHECKOUT="${1:-/tmp/hunt/m1}"
BIN="$CHECKOUT/target/debug/fclones"
T=$(mktemp -d) || exit 2
trap 'rm -rf "$T"' EXIT
cd "$T" || exit 2
mkdir a b
echo hello > a/f
echo hello > b/f

echo "--- reference: the same paths without --isolate"
find a b -type f | "$BIN" group --stdin 2>/dev/null | grep -v '^#'

echo "--- find a b -type f | fclones group --stdin --isolate a b"
OUT=$(find a b -type f | "$BIN" group --stdin --isolate a b 2>"$T/err")
STATUS=$?
grep -E "Scanned|warn|error" "$T/err"
echo "$OUT" | grep -v '^#'
echo "exit status: $STATUS"

echo "--- printf 'a\\nb\\n' | fclones group --stdin --isolate   (roots only on stdin)"
printf 'a\nb\n' | "$BIN" group --stdin --isolate 2>&1 | grep -v '^#' | head -3

if [ $STATUS -eq 0 ] && ! echo "$OUT" | grep -q "/a/f" && grep -q "Scanned 0 file entries" "$T/err"; then
    echo "DEFECT PRESENT: a/f and b/f are identical, but nothing was scanned and nothing reported (exit 0, no warning)"
    exit 1
fi
echo "defect not present"
exit 0

#!/bin/bash
# C12 / C15: with --cache a file that cannot be read any more is reported from its cached hashes;
# the same run without --cache warns and leaves it out.
# The runs are made as an unprivileged user (root can read files of mode 000).
CHECKOUT="${1:-/tmp/hunt/m1}"
BIN="$CHECKOUT/target/debug/fclones"
T=$(mktemp -d) || exit 2
trap 'chmod -R u+rwx "$T" 2>/dev/null; rm -rf "$T"' EXIT
chmod 755 "$T"
cd "$T" || exit 2
mkdir t home
echo hello > t/a
echo hello > t/b
AS=()
if [ "$(id -u)" = 0 ]; then
    command -v setpriv >/dev/null || { echo "setpriv not available, cannot drop privileges"; exit 2; }
    chown -R 65534:65534 "$T"
    AS=(setpriv --reuid=65534 --regid=65534 --clear-groups)
    "${AS[@]}" "$BIN" --version >/dev/null 2>&1 || { echo "unprivileged user cannot run $BIN"; exit 2; }
fi
run() { HOME="$T/home" XDG_CACHE_HOME="$T/home/.cache" "${AS[@]}" "$BIN" group "$@" 2>"$T/err" | grep -v '^#'; grep "warn" "$T/err" | grep -v "extents"; }

echo "--- run 1: group --cache t"
run --cache t
chmod 000 t/a
echo "--- chmod 000 t/a; run 2: group --cache t"
CACHED=$(run --cache t)
echo "$CACHED"
echo "--- the same moment without --cache: group t"
UNCACHED=$(run t)
echo "$UNCACHED"

if echo "$CACHED" | grep -q "^ .*/t/a" && ! echo "$UNCACHED" | grep -q "^ .*/t/a"; then
    echo "DEFECT PRESENT: the cached run reports the unreadable t/a as a duplicate without a warning, the uncached run warns and reports nothing"
    exit 1
fi
echo "defect not present"; exit 0

#!/bin/bash
# C01 / C15: a file whose size changes between the scan (stat) and the hashing is hashed over
# the scanned length only (growth) or over fewer bytes than scanned (shrink); the number of bytes
# really read is discarded in hasher.rs file_hash(), so the file is still reported as a duplicate.
# The list of paths is streamed with --stdin so that the change happens deterministically
# after the files were stat-ed and before they are hashed.
CHECKOUT="${1:-/tmp/hunt/m1}"
BIN="$CHECKOUT/target/debug/fclones"
T=$(mktemp -d) || exit 2
trap 'rm -rf "$T"' EXIT
cd "$T" || exit 2
DEFECT=0

echo "=== case 1: file grows after the scan"
head -c 20000 /dev/urandom > A
cp A B
OUT=$( (echo "$T/A"; echo "$T/B"; sleep 1; printf 'more data\n' >> A) | "$BIN" group --stdin 2>"$T/err1")
echo "$OUT" | grep -v '^#'
grep -i "warn" "$T/err1"
echo "sizes now: A=$(stat -c %s A) B=$(stat -c %s B); cmp: $(cmp A B 2>&1)"
if echo "$OUT" | grep -q "/A$" && ! cmp -s A B; then
    echo "-> A (20010 B) reported as a 20000 B duplicate of B although their contents differ"
    DEFECT=1
fi

echo "=== case 2: files shrink after the scan (never read completely)"
head -c 20000 /dev/urandom > C
head -c 20000 /dev/urandom > D     # C and D are different
OUT=$( (echo "$T/C"; echo "$T/D"; sleep 1; : > C; : > D) | "$BIN" group --stdin 2>"$T/err2")
echo "$OUT" | grep -v '^#'
grep -i "warn" "$T/err2"
echo "sizes now: C=$(stat -c %s C) D=$(stat -c %s D)"
if echo "$OUT" | grep -q "20000 B" && echo "$OUT" | grep -q "/C$"; then
    echo "-> C and D (0 bytes could be read of the 20000 expected) reported as a group of 20000 B files, 20.0 KB redundant, no warning"
    DEFECT=1
fi

if [ $DEFECT -eq 1 ]; then echo "DEFECT PRESENT"; exit 1; fi
echo "defect not present"; exit 0

#!/bin/bash
# C09: --min / --max values of 2^64 and more (and decimal values close to 2^64) wrap around modulo 2^64
CO=${1:-/repo}; F=$CO/target/debug/fclones
T=$(mktemp -d); trap 'rm -rf "$T"' EXIT; cd "$T" || exit 2
head -c 1000 /dev/zero > z1; head -c 1000 /dev/zero > z2; : > e1; : > e2
bad=0
# prints the number of reported files, or "refused" if fclones rejects the arguments
cnt() { local out; out=$($F group . "$@" 2>/dev/null) || { echo refused; return; }; echo "$out" | grep -c '^ '; }
for o in "--max 18446744073709551615" "--max 18446744073709550000" "--max 16EiB" "--max 18446744073709551616"; do
  n=$(cnt $o); echo "group . $o  -> $n (expected 2 files: z1 z2, or a refusal of the value)"
  [ "$n" = 2 ] || [ "$n" = refused ] || bad=1
done
for o in "-s 16EiB" "-s 18446744073709551616"; do
  n=$(cnt $o); echo "group . $o  -> $n (expected 0 files, or a refusal of the value)"
  [ "$n" = 0 ] || [ "$n" = refused ] || bad=1
done
n=$(cnt --max 15EiB); echo "group . --max 15EiB -> $n (control, expected 2)"
[ $bad = 1 ] && echo "DEFECT: size limits wrap around"
exit $bad

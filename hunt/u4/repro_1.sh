#!/bin/bash
# C09/C16: inline flags of a --regex pattern are lost for all but the first top-level alternative
# of --path / --exclude (regression of 4e56c51 "alternatives()").
CO=${1:-/repo}; F=$CO/target/debug/fclones
T=$(mktemp -d); trap 'rm -rf "$T"' EXIT; cd "$T" || exit 2
mkdir pics Photos Docs
for n in x.JPG y.JPG p.PNG q.PNG t.txt u.txt; do echo pic > pics/$n; done
for d in Photos Docs; do echo same > $d/a; echo same > $d/b; done
bad=0
echo "== group pics --regex --exclude '(?i).*\.jpg|.*\.png'   (expected: only t.txt, u.txt)"
out=$($F group pics --regex --exclude '(?i).*\.jpg|.*\.png' 2>/dev/null | grep '^ '); echo "$out"
echo "$out" | grep -q 'PNG' && { echo "DEFECT: *.PNG not excluded - (?i) applies to the first alternative only"; bad=1; }
echo "== same pattern as --name (not split into alternatives; selects JPG and PNG):"
$F group pics --regex --name '(?i).*\.jpg|.*\.png' 2>/dev/null | grep '^ '
echo "== group . --regex --path '(?i)$T/photos/.*|$T/docs/.*'   (expected: Photos/a,b and Docs/a,b)"
out=$($F group . --regex --path "(?i)$T/photos/.*|$T/docs/.*" 2>/dev/null | grep '^ '); echo "$out"
echo "$out" | grep -q '/Docs/' || { echo "DEFECT: Docs/* not selected"; bad=1; }
echo "== relative: group . --regex --path '(?i)photos/.*|docs/.*'"
out=$($F group . --regex --path '(?i)photos/.*|docs/.*' 2>/dev/null | grep '^ '); echo "$out"
echo "$out" | grep -q '/Docs/' || { echo "DEFECT: Docs/* not selected (relative form)"; bad=1; }
exit $bad

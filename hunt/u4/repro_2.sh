#!/bin/bash
# C09: with --follow-links, pruning a directory by an --exclude pattern ending in ** changes the
# result: links located in that directory are not followed, while with an equivalent exclude
# pattern that cannot be used for pruning they are followed.
CO=${1:-/repo}; F=$CO/target/debug/fclones
T=$(mktemp -d); trap 'rm -rf "$T"' EXIT; cd "$T" || exit 2
mkdir -p scan/skip scan/keep store
echo data > store/f1; echo data > store/f2; echo data > scan/keep/k
ln -s "$T/store" scan/skip/l          # the only way to reach store/ from scan/
run() { $F group -L scan --rf-over 0 "$@" 2>/dev/null | grep '^ ' | sort; }
echo "== A: --exclude '$T/scan/skip/**'"
A=$(run --exclude "$T/scan/skip/**"); echo "$A"
echo "== B: --exclude '{$T/scan/skip/**,/nonexistent}'   (same set of excluded paths)"
B=$(run --exclude "{$T/scan/skip/**,/nonexistent}"); echo "$B"
echo "== C: --regex --exclude '$T/scan/skip/.+'            (same again)"
C=$(run --regex --exclude "$T/scan/skip/.+"); echo "$C"
if [ "$A" != "$B" ] || [ "$A" != "$C" ]; then
  echo "DEFECT: equivalent exclude patterns give different scans; store/f1, store/f2 (paths not excluded, reachable through scan/skip/l) are lost only when the directory is pruned"
  exit 1
fi
exit 0

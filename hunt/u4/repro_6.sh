#!/bin/bash
# C09 (minor): the root directory "/" is a special case that two repairs do not handle.
#  (a) names_of()/names_with_aliases() never find the alias of an input path given through a link to "/"
#  (b) IgnoreStack::push() takes /.gitignore for "already on the stack" when a global git ignore file exists
CO=${1:-/repo}; F=$CO/target/debug/fclones
T=$(mktemp -d); trap 'rm -rf "$T"' EXIT; cd "$T" || exit 2
bad=0
mkdir -p deep/private; echo sec > deep/private/a; echo sec > deep/private/b
ln -s / r; ln -s "$T/.." up; B=$(basename "$T")
echo "== (a) group r$T/deep --exclude '*/tmp/**'   (r -> /; expected: nothing, like the next command)"
out=$($F group "r$T/deep" --exclude "*/$(echo "$T" | cut -d/ -f2)/**" 2>/dev/null | grep '^ '); echo "$out"
[ -n "$out" ] && { echo "DEFECT: the files below the link to / are not seen under the path given"; bad=1; }
echo "== control: group up/$B/deep --exclude '*/$B/**'   (up -> $T/..)"
$F group "up/$B/deep" --exclude "*/$B/**" 2>/dev/null | grep '^ '
if [ "$(id -u)" = 0 ] && command -v unshare >/dev/null && command -v chroot >/dev/null; then
  R=$T/root; mkdir -p $R/bin $R/proc $R/data $R/home/u/.config/git
  for l in $(ldd $F | grep -o '/[^ ]*'); do mkdir -p $R$(dirname $l); cp $l $R$l; done
  cp $F $R/bin/fclones
  echo same > $R/data/a.log; echo same > $R/data/b.log; echo keep > $R/data/k1; echo keep > $R/data/k2
  echo '*.log' > $R/.gitignore; echo '*.bak' > $R/home/u/.config/git/ignore
  echo "== (b) chroot: /.gitignore contains *.log, ~/.config/git/ignore exists; fclones group /data-only view of /"
  out=$(unshare -m --propagation private sh -c "mount -t proc proc $R/proc && HOME=/home/u chroot $R /bin/fclones group / --exclude '/lib*/**' --exclude '/bin/**' --exclude '/proc/**' --exclude '/usr/**' 2>/dev/null" | grep '^ '); echo "$out"
  echo "$out" | grep -q '\.log' && { echo "DEFECT: /.gitignore was not applied"; bad=1; }
else
  echo "(b) skipped: needs root, unshare and chroot"
fi
exit $bad

#!/bin/bash
# C09: the README examples `--name '*.jpg' '*.png'` / `--exclude '/dev/**' '/proc/**'` do not work:
# only the first value is a pattern, the following ones are taken for input paths.
CO=${1:-/repo}; F=$CO/target/debug/fclones
T=$(mktemp -d); trap 'rm -rf "$T"' EXIT; cd "$T" || exit 2
mkdir -p d skip1 skip2
for n in a.jpg b.jpg c.png d.png; do echo pic > d/$n; done
for d in skip1 skip2; do echo x > $d/1; echo x > $d/2; done
bad=0
echo "== fclones group d --name '*.jpg' '*.png'     (README: 'Filter by file name or path pattern')"
$F group d --name '*.jpg' '*.png' 2>&1 | grep -E '^ |error' ; rc=${PIPESTATUS[0]}
[ $rc = 0 ] || { echo "DEFECT: exit code $rc, '*.png' was taken for an input path"; bad=1; }
echo "== fclones group . --exclude 'skip1/**' 'skip2/**'   (README: 'Exclude a part of the directory tree')"
$F group . --exclude 'skip1/**' 'skip2/**' 2>&1 | grep -E '^ |error'; rc=${PIPESTATUS[0]}
[ $rc = 0 ] || { echo "DEFECT: exit code $rc"; bad=1; }
exit $bad

#!/bin/bash
# C13/C09: with -L --one-fs a symbolic link is marked visited before the route specific --one-fs test:
# the report depends on the order of the input paths, and adding an input path loses files.
CO=${1:-/repo}; F=$CO/target/debug/fclones
[ -d /dev/shm ] || { echo "no /dev/shm, cannot test"; exit 0; }
X=$(mktemp -d); Y=$(mktemp -d /dev/shm/u4r4.XXXXXX); trap 'rm -rf "$X" "$Y"' EXIT
[ "$(stat -c %d "$X")" != "$(stat -c %d "$Y")" ] || { echo "same file system, cannot test"; exit 0; }
mkdir -p $X/A $X/other $Y/B
echo data > $X/other/f1; echo data > $X/other/f2
ln -s $X/other/f1 $Y/B/P1; ln -s $X/other/f2 $Y/B/P2      # links on the tmpfs to files on the disk
ln -s $Y/B/P1 $X/A/a1;     ln -s $Y/B/P2 $X/A/a2           # links on the disk to those links
run() { $F group -L --one-fs --no-ignore "$@" 2>/dev/null | grep '^ ' | sort; }
echo "== group -L --one-fs A            :"; R0=$(run $X/A); echo "$R0"
echo "== group -L --one-fs -t 1 A B     :"; R1=$(run -t 1 $X/A $Y/B); echo "$R1"
echo "== group -L --one-fs -t 1 B A     :"; R2=$(run -t 1 $Y/B $X/A); echo "$R2"
echo "== group -L --one-fs A B (default threads):"; R3=$(run $X/A $Y/B); echo "$R3"
if [ "$R1" != "$R2" ] || [ "$R0" != "$R1" ] || [ "$R0" != "$R3" ]; then
  echo "DEFECT: the files found through root A (other/f1, other/f2) depend on whether / when root B is walked"
  exit 1
fi
exit 0

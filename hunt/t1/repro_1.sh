#!/bin/bash
# C12: the hash cache serves the hashes of deleted files to new files that got their inode
# numbers, on a file system that keeps time stamps with a resolution of one second
# (ext4 with 128-byte inodes, ext3, ...), when everything happens within the same second.
# Needs root (loop mount). Exit 1 = defect present, 0 = not present / cannot test.
CHECKOUT=${1:-/repo}
FCL=$CHECKOUT/target/debug/fclones
[ -x "$FCL" ] || FCL=${1:-/repo}/target/debug/fclones
T=$(mktemp -d /tmp/t1r1.XXXXXX)
cleanup() { cd /; umount "$T/m" 2>/dev/null; rm -rf "$T"; }
trap cleanup EXIT
export XDG_CACHE_HOME=$T/cache HOME=$T
cd "$T" || exit 0
dd if=/dev/zero of=img bs=1M count=16 status=none
mkfs.ext4 -q -I 128 img >/dev/null 2>&1 || { echo "cannot create the file system, not tested"; exit 0; }
mkdir m && mount -o loop img m 2>/dev/null || { echo "cannot mount, not tested"; exit 0; }

# two archives: in the first d/a = d/b, in the second d/a != d/b; same lengths, same mtimes
mkdir -p src1/d src2/d
head -c 20000 /dev/urandom > src1/d/a; cp src1/d/a src1/d/b
head -c 20000 /dev/urandom > src2/d/a; head -c 20000 /dev/urandom > src2/d/b
touch -d '2020-01-01 00:00:00' src1/d/* src2/d/* src1/d src2/d
tar cf s1.tar -C src1 d; tar cf s2.tar -C src2 d

for attempt in 1 2 3 4 5 6 7 8 9 10; do
  rm -rf m/d "$T/cache"
  # start right after the beginning of a second
  python3 -c 'import time; t=time.time(); time.sleep(1.0-(t%1.0)+0.005)' 2>/dev/null || sleep 1
  (cd m && tar xf ../s1.tar)
  before=$(stat -c '%i %Y %Z' m/d/a m/d/b)
  "$FCL" group --cache m/d > run1.txt 2>/dev/null
  rm -r m/d
  (cd m && tar xf ../s2.tar)
  after=$(stat -c '%i %Y %Z' m/d/a m/d/b)
  [ "$before" = "$after" ] && break
  echo "attempt $attempt: inode numbers or change times differ, trying again"
done
if [ "$before" != "$after" ]; then echo "could not get the same inode numbers and change times, not tested"; exit 0; fi
echo "inode, mtime, ctime of d/a and d/b (before and after the replacement):"; echo "$after"
cmp -s m/d/a m/d/b && { echo "unexpected: files are equal"; exit 0; }
"$FCL" group --cache m/d > cached.txt 2>/dev/null
"$FCL" group m/d > uncached.txt 2>/dev/null
echo "--- cached run:";   grep -v '^#' cached.txt
echo "--- uncached run:"; grep -v '^#' uncached.txt
if grep -q '/d/a' cached.txt && ! grep -q '/d/a' uncached.txt; then
  echo "DEFECT: the cached run reports d/a and d/b (different contents) as duplicates; the uncached run reports nothing"
  exit 1
fi
echo "no difference between the cached and the uncached run"
exit 0

#!/bin/bash
# C03/C15: with -H, t/b (a hard link of t/a when scanned) is replaced during the contents stage
# by a copy of t/x (= t/y, small files): t/b is left out of the group of t/x and t/y, silently.
# Exit 1 = defect present, 0 = not present.
CHECKOUT=${1:-/repo}
FCL=$CHECKOUT/target/debug/fclones
[ -x "$FCL" ] || FCL=${1:-/repo}/target/debug/fclones
T=$(mktemp -d /tmp/t1r3b.XXXXXX)
trap 'rm -rf "$T"' EXIT
cd "$T" || exit 0
mkdir t fill
head -c 20000 /dev/urandom > t/a; ln t/a t/b
head -c 20000 /dev/urandom > t/x; cp t/x t/y
# something to read in the contents stage, so that it takes a few seconds
python3 - <<'PY'
import os
for i in range(60):
    d = os.urandom(4 << 20)
    open(f"fill/f{i}", "wb").write(d)
    open(f"fill/g{i}", "wb").write(d)
PY
cp t/x b.new          # the replacement, made ready outside the scanned directories
"$FCL" group -H --threads 1 t fill > out.txt 2> err.txt &
PID=$!
# the contents stage starts when the suffix stage has reported its result
for i in $(seq 1 3000); do grep -q "after grouping by suffix" err.txt && break; sleep 0.01; done
sleep 0.2
mv b.new t/b
replaced_at=$(date +%T.%N)
wait $PID
echo "fclones exit code: $?"
grep -E "grouping by suffix|redundant files|warn" err.txt | cut -c1-150
echo "t/b replaced at $replaced_at"
echo "--- groups of 20000 B files reported by the run during which t/b was replaced:"
grep -A4 " 20000 B" out.txt
echo "--- the same command right afterwards:"
"$FCL" group -H --threads 1 t fill 2>/dev/null | grep -A4 " 20000 B"
if ! grep -q "redundant files" err.txt; then echo "run did not finish"; exit 0; fi
end=$(grep "redundant files" err.txt | cut -c13-24)
if grep -q "$T/t/x" out.txt && ! grep -q "$T/t/b" out.txt && ! grep -q "warn.*t/b" err.txt; then
  echo "DEFECT: t/b (readable, identical to t/x and t/y since $replaced_at, run ended at $end) is missing from their group, without a warning"
  exit 1
fi
echo "t/b was reported or warned about"
exit 0

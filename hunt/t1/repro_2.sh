#!/bin/bash
# C03/C15: t/b (a hard link of t/a when scanned) is replaced, after the prefix stage has dealt
# with it and before the suffix stage does, by a copy of t/x (= t/y). The suffix stage notices
# the replacement and hashes t/b on its own, but combines the suffix hash of the new file with the
# prefix hash of the file t/b used to be: t/b can never meet t/x and t/y and is dropped silently.
# The suffix stage needs files >= 64 KiB on an SSD (>= 64 MiB elsewhere), so the script makes
# a small ext4 image, mounts it and marks the loop device as non-rotational. Needs root.
# Exit 1 = defect present, 0 = not present / cannot test.
CHECKOUT=${1:-/repo}
FCL=$CHECKOUT/target/debug/fclones
[ -x "$FCL" ] || FCL=${1:-/repo}/target/debug/fclones
T=$(mktemp -d /tmp/t1r2.XXXXXX)
cleanup() { cd /; umount "$T/m" 2>/dev/null; rm -rf "$T"; }
trap cleanup EXIT
cd "$T" || exit 0
dd if=/dev/zero of=img bs=1M count=200 status=none
mkfs.ext4 -q img >/dev/null 2>&1 || { echo "cannot create the file system, not tested"; exit 0; }
mkdir m && mount -o loop img m 2>/dev/null || { echo "cannot mount, not tested"; exit 0; }
LOOP=$(losetup -j "$T/img" | cut -d: -f1)
echo 0 > /sys/block/$(basename "$LOOP")/queue/rotational 2>/dev/null
[ "$(cat /sys/block/$(basename "$LOOP")/queue/rotational)" = 0 ] || { echo "cannot make $LOOP an SSD, not tested"; exit 0; }

cd m
mkdir t fill
# created first: lowest inode numbers, so the prefix stage (with --threads 1) reads them first
head -c 100000 /dev/urandom > t/a; ln t/a t/b; cp t/a t/a2
head -c 100000 /dev/urandom > t/x; cp t/x t/y
# many small candidates that keep the prefix stage busy for a while after t/* have been read
python3 - <<'PY'
import os
for i in range(8000):
    d = os.urandom(5000)
    open(f"fill/f{i}", "wb").write(d)
    open(f"fill/g{i}", "wb").write(d)
PY
# check that the suffix stage is in use here: probe/p2 differs from probe/p1 in the last byte only
mkdir probe; cp t/a probe/p1; cp t/a probe/p2
printf 'Z' | dd of=probe/p2 bs=1 seek=99999 conv=notrunc status=none
"$FCL" group probe 2>&1 >/dev/null | grep -q "Found 0 (0 B) candidates after grouping by suffix" \
  || { echo "the suffix stage is not active for 100 KB files here (device not taken for an SSD), not tested"; exit 0; }
rm -rf probe

result=0
for attempt in 1 2 3 4 5; do
  rm -f t/b; ln t/a t/b
  cp t/x ../b.new      # the replacement, made ready outside the scanned directories
  "$FCL" group --threads 1 t fill > ../out.txt 2> ../err.txt &
  PID=$!
  # the prefix stage starts when the paths have been grouped; it reads t/* first
  for i in $(seq 1 3000); do grep -q "after grouping by paths" ../err.txt && break; sleep 0.01; done
  sleep 0.2
  mv ../b.new t/b
  replaced_at=$(date +%T.%N)
  wait $PID
  echo "attempt $attempt: fclones exit code $?; t/b replaced at $replaced_at"
  grep -E "grouping by paths|grouping by prefix|grouping by suffix|redundant files|warn" ../err.txt | cut -c1-150
  pfx_end=$(grep "after grouping by prefix" ../err.txt | cut -c13-24)
  # only a replacement during the prefix stage is what we want to show
  if [[ "${replaced_at:0:12}" > "$pfx_end" ]]; then echo "  replaced too late, again"; continue; fi
  echo "--- groups of 100000 B files reported by the run during which t/b was replaced:"
  grep -A4 " 100000 B" ../out.txt
  if grep -q "/t/x" ../out.txt && ! grep -q "/t/b" ../out.txt && ! grep -q "warn.*t/b" ../err.txt; then
    result=1; break
  fi
  if grep -q "/t/b" ../out.txt; then echo "  t/b was reported (replaced before the prefix stage read it?), again"; fi
done
echo "--- the same command right afterwards:"
"$FCL" group --threads 1 t fill 2>/dev/null | grep -A4 " 100000 B"
if [ $result = 1 ]; then
  echo "DEFECT: t/b (readable, identical to t/x and t/y since $replaced_at, i.e. before the suffix stage) is missing from their group, without a warning"
  exit 1
fi
echo "t/b was reported or warned about"
exit 0

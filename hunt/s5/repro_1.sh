#!/bin/bash
# Finding 1: the dedupe commands drop every sub-group that consists of symbolic links only,
# even when fewer than n (--rf-over) replicas are retained (regression of fix c8248b2).
# usage: repro_1.sh <checkout>   (uses <checkout>/target/debug/fclones)
CHECKOUT=${1:-/repo}
F=$CHECKOUT/target/debug/fclones
T=$(mktemp -d) || exit 2
trap 'rm -rf "$T"' EXIT
cd "$T" || exit 2
bad=0

# scenario A: --match-links --symbolic-links, keep 3 of 4 paths
mkdir a && echo hello > a/f && ln -s f a/l1 && ln -s f a/l2 && ln -s f a/l3
"$F" group -S -H --rf-over 3 a > repA.txt 2>/dev/null
redundantA=$(sed -n 's/^# Redundant: .* in \([0-9]*\) files$/\1/p' repA.txt)
"$F" remove --dry-run < repA.txt > scriptA.txt 2>/dev/null
removedA=$(grep -c '^rm ' scriptA.txt)
echo "A: group -S -H --rf-over 3: header says $redundantA redundant file(s) of 4 paths; remove --dry-run drops $removedA:"
cat scriptA.txt
[ "$removedA" -gt "$redundantA" ] && bad=1

# scenario B: --isolate, 2 real copies + 2 links in 4 roots, keep 3 roots
mkdir d1 d2 d3 d4 && echo hello > d1/f && cp d1/f d2/copy && ln -s ../d1/f d3/l && ln -s ../d1/f d4/l2
"$F" group -S -I --rf-over 3 d1 d2 d3 d4 > repB.txt 2>/dev/null
redundantB=$(sed -n 's/^# Redundant: .* in \([0-9]*\) files$/\1/p' repB.txt)
"$F" remove --dry-run < repB.txt > scriptB.txt 2>/dev/null
removedB=$(grep -c '^rm ' scriptB.txt)
echo "B: group -S -I --rf-over 3 d1 d2 d3 d4: header says $redundantB redundant file(s); remove --dry-run drops $removedB:"
cat scriptB.txt
[ "$removedB" -gt "$redundantB" ] && bad=1

if [ $bad = 1 ]; then
  echo "DEFECT: remove drops more paths than 'keep at least n replicas' (-n / --rf-over 3) allows"
  exit 1
fi
echo "OK: remove keeps n paths"
exit 0

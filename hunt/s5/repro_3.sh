#!/bin/bash
# Finding 3: with --isolate the roots are canonicalised again for EVERY group while the report
# statistics are computed (2 x groups x roots x path-depth readlink calls), since fix 9e8703f.
# usage: repro_3.sh <checkout>
CHECKOUT=${1:-/repo}
F=$CHECKOUT/target/debug/fclones
T=$(mktemp -d) || exit 2
trap 'rm -rf "$T"' EXIT
cd "$T" || exit 2
N=3000
mkdir -p r1/a/b/c/d/e/f/g r2/a/b/c/d/e/f/g
i=0
while [ $i -lt $N ]; do
  printf '%07d' $i > r1/a/b/c/d/e/f/g/f$i
  printf '%07d' $i > r2/a/b/c/d/e/f/g/f$i
  i=$((i+1))
done
if command -v strace >/dev/null 2>&1; then
  strace -f -c -e trace=readlink -o st_iso.txt "$F" group --isolate r1/a/b/c/d/e/f/g r2/a/b/c/d/e/f/g -o rep_iso.txt >/dev/null 2>&1
  strace -f -c -e trace=readlink -o st_plain.txt "$F" group r1/a/b/c/d/e/f/g r2/a/b/c/d/e/f/g -o rep_plain.txt >/dev/null 2>&1
  iso=$(awk '$NF=="readlink"{print $4}' st_iso.txt); iso=${iso:-0}
  plain=$(awk '$NF=="readlink"{print $4}' st_plain.txt); plain=${plain:-0}
  groups=$(grep -c '^[0-9a-f]\{32\}, ' rep_iso.txt)
  echo "groups: $groups; readlink calls without --isolate: $plain, with --isolate: $iso"
  if [ "$iso" -gt $((groups * 10)) ]; then
    echo "DEFECT: the number of readlink calls grows with the number of groups (roots re-canonicalised per group)"
    exit 1
  fi
  echo "OK"; exit 0
else
  # no strace: compare the time spent after the last log line (report writing)
  t() { local s=$(date +%s%N); "$F" group "$@" r1/a/b/c/d/e/f/g r2/a/b/c/d/e/f/g -o rep.txt >/dev/null 2>&1; echo $(( ($(date +%s%N) - s) / 1000000 )); }
  plain=$(t); iso=$(t --isolate)
  echo "run time without --isolate: ${plain} ms, with --isolate: ${iso} ms (strace not available, timing only)"
  [ "$iso" -gt $((plain * 2)) ] && { echo "DEFECT (timing)"; exit 1; }
  echo "OK"; exit 0
fi

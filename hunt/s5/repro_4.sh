#!/bin/bash
# Finding 4: byte totals are computed with unchecked u64 arithmetic: a group whose paths add up to
# 16 EiB or more (sparse file + hard links, reported with --match-links or --unique without being read)
# makes the debug build panic and the release build print a wrapped "Total".
# usage: repro_4.sh <checkout>
CHECKOUT=${1:-/repo}
F=$CHECKOUT/target/debug/fclones
BIG=9223372036854775807   # 2^63-1, the largest file tmpfs/xfs/btrfs allow
T=""
for base in /dev/shm "${TMPDIR:-/tmp}" /var/tmp; do
  [ -d "$base" ] && [ -w "$base" ] || continue
  cand=$(mktemp -d -p "$base") || continue
  if truncate -s $BIG "$cand/probe" 2>/dev/null; then rm -f "$cand/probe"; T=$cand; break; fi
  rm -rf "$cand"
done
if [ -z "$T" ]; then
  echo "SKIP: no writable file system here allows a sparse file of 2^63-1 bytes"; exit 0
fi
trap 'rm -rf "$T"' EXIT
cd "$T" || exit 2
mkdir d && truncate -s $BIG d/a && ln d/a d/b && ln d/a d/c
echo "three hard links to one sparse file of $BIG bytes in $T/d"
"$F" group --match-links d > rep.txt 2> err.txt
rc=$?
grep -A1 -m1 'panicked' err.txt
grep '^# Total\|^# Redundant\|^[0-9a-f]*, ' rep.txt
if [ $rc -ne 0 ]; then
  echo "DEFECT: fclones group exited with $rc (arithmetic overflow) instead of writing a report"
  exit 1
fi
total=$(sed -n 's/^# Total: \([0-9]*\) B .*/\1/p' rep.txt)
red=$(sed -n 's/^# Redundant: \([0-9]*\) B .*/\1/p' rep.txt)
# 3 * (2^63-1) = 27670116110564327421 does not fit into 64 bits: the repaired program stops at the maximum (2^64-1);
# a wrapped total is smaller than the redundant size
if [ "$total" != "27670116110564327421" ] && [ "$total" != "18446744073709551615" ]; then
  echo "DEFECT: Total is $total B (wrapped), the body shows 3 x $BIG B = 27670116110564327421 B; Redundant: $red B"
  exit 1
fi
echo "OK (the total stops at the maximum of the type)"; exit 0

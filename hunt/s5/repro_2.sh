#!/bin/bash
# Finding 2: a report of UNDER-replicated files (group --rf-under N) says "Redundant: 0 files",
# but remove/link/move/dedupe take rf_over() == 0 from it, raise it to 1 and drop all but one replica.
# usage: repro_2.sh <checkout>
CHECKOUT=${1:-/repo}
F=$CHECKOUT/target/debug/fclones
T=$(mktemp -d) || exit 2
trap 'rm -rf "$T"' EXIT
cd "$T" || exit 2
mkdir d1 d2 && echo precious > d1/a && echo precious > d2/c && echo other > d1/z
"$F" group --rf-under 3 d1 d2 > rep.txt 2>/dev/null
echo "--- report of files with fewer than 3 replicas:"
cat rep.txt
redundant=$(sed -n 's/^# Redundant: .* in \([0-9]*\) files$/\1/p' rep.txt)
"$F" remove --dry-run < rep.txt > script.txt 2>/dev/null
removed=$(grep -c '^rm ' script.txt)
echo "--- remove --dry-run:"
cat script.txt
"$F" remove < rep.txt >/dev/null 2>&1
left=$(ls d1/a d2/c 2>/dev/null | wc -l)
echo "header: Redundant $redundant files; remove dropped $removed; replicas of the under-replicated file left: $left of 2"
if [ "$removed" -gt "$redundant" ] || [ "$left" -lt 2 ]; then
  echo "DEFECT: remove deleted a replica of a file that was reported as UNDER-replicated (0 redundant)"
  exit 1
fi
echo "OK"
exit 0

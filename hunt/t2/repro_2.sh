#!/bin/bash
# C02/C08: with --isolate, two hard links of ONE file that lie under different roots are counted as
# two replicas (FileSubGroup::group: grouping by root takes precedence over grouping by file id).
# `group --isolate -n 2 r1 x y | remove` then removes the only second stored copy.
CHECKOUT=${1:-/repo}
F=$CHECKOUT/target/debug/fclones
W=$(mktemp -d)
mkdir -p "$W/r1" "$W/x" "$W/y"
echo precious-content > "$W/r1/a"
ln "$W/r1/a" "$W/x/a"            # the same file under a second root
cp "$W/r1/a" "$W/y/b"            # the only other stored copy
touch -d '2020-01-01' "$W/r1/a" "$W/y/b"
cd "$W" || exit 2
"$F" group --isolate -n 2 r1 x y > "$W/report.txt" 2>/dev/null
echo "--- report:"; grep -v '^# [RCBT]' "$W/report.txt"
echo "--- fclones remove --dry-run (n = 2 inherited from group):"
"$F" remove --dry-run < "$W/report.txt" 2>/dev/null
"$F" remove < "$W/report.txt" >/dev/null 2>&1
stored=$(find "$W/r1" "$W/x" "$W/y" -type f -printf '%i\n' | sort -u | wc -l)
echo "stored copies (distinct inodes) left: $stored"
rc=0
if [ "$stored" -lt 2 ]; then
  echo "DEFECT: -n 2 was requested, but only $stored stored copy is left (y/b removed; r1/a and x/a are one file)"
  rc=1
else
  echo "ok: 2 stored copies left"
fi
rm -rf "$W"
exit $rc

#!/bin/bash
# C08: `remove --path PATTERN` drops files that do not match the pattern, when an input path of
# `group` is a symbolic link that has the same name as its target (photos -> ../nas/photos).
# Regression of commit 2862b52 (PathSelector::add_input_path strips the common trailing components).
CHECKOUT=${1:-/repo}
F=$CHECKOUT/target/debug/fclones
W=$(mktemp -d)
mkdir -p "$W/home/tmp" "$W/nas/photos" "$W/nas/tmp"
echo picture > "$W/nas/photos/a.jpg"
cp "$W/nas/photos/a.jpg" "$W/nas/tmp/a.jpg"
cp "$W/nas/photos/a.jpg" "$W/home/tmp/a.jpg"
touch -d '2020-01-01' "$W"/nas/photos/a.jpg "$W"/nas/tmp/a.jpg "$W"/home/tmp/a.jpg
ln -s ../nas/photos "$W/home/photos"          # a link named like its target
cd "$W/home" || exit 2
"$F" group photos ../nas/tmp tmp > "$W/report.txt" 2>/dev/null
echo "--- reported group:"; grep -v '^#' "$W/report.txt"
echo "--- fclones remove --path 'tmp/**' --dry-run   (only files below $W/home/tmp may be dropped)"
"$F" remove --path 'tmp/**' --dry-run < "$W/report.txt" 2>/dev/null
"$F" remove --path 'tmp/**' < "$W/report.txt" >/dev/null 2>&1
rc=0
if [ ! -e "$W/nas/tmp/a.jpg" ]; then
  echo "DEFECT: $W/nas/tmp/a.jpg was removed although it does not match --path 'tmp/**' (= $W/home/tmp/**)"
  rc=1
else
  echo "ok: nas/tmp/a.jpg was left alone"
fi
rm -rf "$W"
exit $rc

#!/bin/bash
# C08: --keep-path of the dedupe commands does not see the files below a symbolic link input path
# when `group` got its input paths through --stdin (the walk side does since 2862b52, and the
# dedupe side does for argument paths since 50d680b).
CHECKOUT=${1:-/repo}
F=$CHECKOUT/target/debug/fclones
W=$(mktemp -d)
mkdir -p "$W/disk/originals" "$W/disk/copies"
echo image > "$W/disk/originals/a.jpg"
cp "$W/disk/originals/a.jpg" "$W/disk/copies/a.jpg"
touch -d '2020-01-01' "$W/disk/originals/a.jpg" "$W/disk/copies/a.jpg"
ln -s disk "$W/photos"
cd "$W" || exit 2
echo "--- walk side: find photos/ -type f | fclones group --stdin --path 'ph*/originals/**' --rf-over 0 selects:"
find photos/ -type f | "$F" group --stdin --path 'ph*/originals/**' --rf-over 0 2>/dev/null | grep -v '^#'
echo "--- arguments: fclones group photos | fclones remove --keep-path 'ph*/originals/**' --dry-run"
"$F" group photos 2>/dev/null | "$F" remove --keep-path 'ph*/originals/**' --dry-run 2>/dev/null
echo "--- stdin: find photos/ -type f | fclones group --stdin | fclones remove --keep-path 'ph*/originals/**'"
find photos/ -type f | "$F" group --stdin > "$W/report.txt" 2>/dev/null
"$F" remove --keep-path 'ph*/originals/**' --dry-run < "$W/report.txt" 2>/dev/null
"$F" remove --keep-path 'ph*/originals/**' < "$W/report.txt" >/dev/null 2>&1
rc=0
if [ ! -e "$W/photos/originals/a.jpg" ]; then
  echo "DEFECT: photos/originals/a.jpg was removed although it matches --keep-path 'ph*/originals/**'"
  rc=1
else
  echo "ok: photos/originals/a.jpg was kept"
fi
rm -rf "$W"
exit $rc

#!/bin/bash
# C02 (eligibility by modification time): --modified-before is shifted by the UTC offset
CO=${1:-/repo}
F=$CO/target/debug/fclones
D=$(mktemp -d)
trap 'rm -rf "$D"' EXIT
cd "$D" || exit 2
mkdir t
printf 'same-content\n' > t/a
printf 'same-content\n' > t/b
# both files were last modified at 04:00 UTC (= 13:00 in UTC+9)
touch -d '2024-05-01 04:00:00 UTC' t/a t/b
"$F" group t > rep.txt 2>/dev/null || exit 2

defect=0
# 1. explicit offset, independent of the time zone of the machine:
#    12:00 +09:00 is 03:00 UTC, i.e. one hour BEFORE the files were modified -> the group must be skipped
out=$(TZ=UTC "$F" remove --dry-run -m '2024-05-01 12:00:00 +09:00' < rep.txt 2>&1)
echo "--- TZ=UTC remove --dry-run -m '2024-05-01 12:00:00 +09:00'  (files modified at 13:00 +09:00)"
echo "$out"
if echo "$out" | grep -q '^rm '; then echo "DEFECT: a file modified after the given time would be removed"; defect=1; fi

# 2. local time without offset on a machine east of UTC (POSIX TZ string, needs no tzdata)
out=$(TZ=JST-9 "$F" remove --dry-run -m '2024-05-01 12:00:00' < rep.txt 2>&1)
echo "--- TZ=JST-9 remove --dry-run -m '2024-05-01 12:00:00'  (files modified at 13:00 local time)"
echo "$out"
if echo "$out" | grep -q '^rm '; then echo "DEFECT: a file modified after the given local time would be removed"; defect=1; fi

# 3. real run
TZ=UTC "$F" remove -m '2024-05-01 12:00:00 +09:00' < rep.txt >/dev/null 2>&1
if [ ! -e t/a ] || [ ! -e t/b ]; then echo "DEFECT: real run removed a file modified after --modified-before: $(ls t)"; defect=1; fi
exit $defect

#!/bin/bash
# C02: a replica replaced after grouping by a different file of the same length that carries an old
# modification time (mv, cp -p, rsync -t, tar x ...) is not noticed: the group is still treated as
# a set of duplicates and the only copy of one of the two contents is removed
CO=${1:-/repo}
F=$CO/target/debug/fclones
D=$(mktemp -d)
trap 'rm -rf "$D"' EXIT
cd "$D" || exit 2
mkdir t stash
printf 'AAAAAAAAAAAAAAAA' > t/a.bin
printf 'AAAAAAAAAAAAAAAA' > t/b.bin
printf 'BBBBBBBBBBBBBBBB' > stash/new.bin          # same length, different content
touch -d '2020-01-01 00:00:00' stash/new.bin       # an old file, e.g. restored from a backup
"$F" group t > rep.txt 2>/dev/null || exit 2
sleep 1
mv stash/new.bin t/b.bin                           # after grouping: b.bin now holds unique data
echo "--- before remove: A in: $(grep -rl AAAAAAAAAAAAAAAA t | tr '\n' ' ') B in: $(grep -rl BBBBBBBBBBBBBBBB t | tr '\n' ' ')"
"$F" remove < rep.txt 2>&1 | sed 's/^/    /'
hasA=$(grep -rl AAAAAAAAAAAAAAAA t 2>/dev/null); hasB=$(grep -rl BBBBBBBBBBBBBBBB t 2>/dev/null)
echo "--- after remove:  A in: '${hasA}'  B in: '${hasB}'   (files left: $(ls t | tr '\n' ' '))"
if [ -z "$hasA" ] || [ -z "$hasB" ]; then echo "DEFECT: the only copy of a content was removed; the two files were not duplicates any more"; exit 1; fi
exit 0

#!/bin/bash
# C08: --keep-path given through a symbolic link to a directory does not protect the files
CO=${1:-/repo}
F=$CO/target/debug/fclones
D=$(mktemp -d)
trap 'rm -rf "$D"' EXIT
cd "$D" || exit 2
mkdir -p disk/originals disk/copies
ln -s disk photos                      # photos -> disk, the user always works with "photos"
printf 'image-data\n' > disk/copies/b.jpg
printf 'image-data\n' > disk/originals/a.jpg
"$F" group photos > rep.txt 2>/dev/null || exit 2
echo "--- report:"; grep '^ ' rep.txt
defect=0
for pat in 'photos/originals/**' "$D/photos/originals/**"; do
  out=$("$F" remove --dry-run --keep-path "$pat" < rep.txt 2>/dev/null)
  echo "--- remove --dry-run --keep-path '$pat'"; echo "$out"
  if echo "$out" | grep -q 'originals/a.jpg'; then echo "DEFECT: file matching --keep-path would be removed"; defect=1; fi
done
# control: the same pattern spelled with the resolved directory works
out=$("$F" remove --dry-run --keep-path 'disk/originals/**' < rep.txt 2>/dev/null)
echo "--- control: --keep-path 'disk/originals/**'"; echo "$out"
# real run
"$F" remove --keep-path 'photos/originals/**' < rep.txt >/dev/null 2>&1
if [ ! -e photos/originals/a.jpg ]; then echo "DEFECT: photos/originals/a.jpg was removed although it matches --keep-path 'photos/originals/**'"; defect=1; fi
exit $defect

#!/bin/bash
# C11 (and the "refuses to drop when nothing is retained" mechanism of C02):
# a group that consists of symbolic links only makes every dedupe command panic.
CHECKOUT=${1:-/tmp/hunt/m2}
F=$CHECKOUT/target/debug/fclones
T=$(mktemp -d) || exit 2
cd "$T" || exit 2
export RUST_BACKTRACE=0
defect=0
setup() {
    rm -rf d .store out
    mkdir -p d .store
    echo "hello hello hello" > .store/A; echo "hello hello hello" > .store/B          # identical files outside of the scanned directory
    ln -s ../.store/A d/Z1; ln -s ../.store/B d/Z2          # two links to them inside
    for i in 1 2 3 4 5 6 7 8; do echo "other $i" > d/p$i; echo "other $i" > d/q$i; done   # ordinary duplicates
    touch -h -d 2020-01-01 d/* .store/*
    "$F" group -S d > rep.txt 2>/dev/null
}
setup
echo "### report"; grep -A2 '^[0-9a-f]\{32\}' rep.txt | head -6
for op in "remove" "link" "link --soft" "move $T/out"; do
    setup
    echo "### fclones $op --dry-run"
    "$F" $op --dry-run < rep.txt > dry.out 2> dry.err; rc=$?
    grep -E "panicked|No files would" dry.err; echo "exit code $rc, $(grep -c . dry.out) script lines printed"
    [ $rc -ne 0 ] && defect=1
    echo "### fclones $op"
    "$F" $op < rep.txt > real.out 2> real.err; rc=$?
    grep -E "panicked|No files would|Processed" real.err; echo "exit code $rc"
    [ $rc -ne 0 ] && defect=1
    case "$op" in remove) [ "$(grep -c '^rm ' dry.out)" != "$((8 - $(ls d | grep -c '^q')))" ] && echo "DEFECT: the dry run printed $(grep -c '^rm ' dry.out) rm commands, the real run removed $((8 - $(ls d | grep -c '^q'))) files";; esac
    case "$op" in remove|move*) echo "ordinary duplicates processed before the run aborted: $((8 - $(ls d | grep -c '^q'))) of 8 (varies from run to run; no summary line was printed)";; esac
done
[ $defect = 1 ] && echo "DEFECT: the dedupe commands panic on a report written by 'fclones group -S'"
cd /; rm -rf "$T"
exit $defect

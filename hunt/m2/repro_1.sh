#!/bin/bash
# C02: the alias check of partition() (path_counts > nlink) is defeated by a hard link outside
# the reported group: the retained file and the dropped file are one directory entry.
CHECKOUT=${1:-/tmp/hunt/m2}
F=$CHECKOUT/target/debug/fclones
T=$(mktemp -d) || exit 2
cd "$T" || exit 2
export RUST_BACKTRACE=0
defect=0

setup() {  # $1 = yes: give photos/a.jpg a second hard link outside of the scanned directories
    rm -rf photos backup elsewhere
    mkdir photos backup elsewhere
    echo "precious data" > photos/a.jpg
    cp photos/a.jpg backup/a.jpg
    [ "$1" = yes ] && ln photos/a.jpg elsewhere/h.jpg
    touch -d 2020-01-01 photos/a.jpg backup/a.jpg
    "$F" group --isolate photos backup > rep.txt 2>/dev/null
    # the backup directory is replaced by a symbolic link to photos (same as the known D56 scenario)
    rm -rf backup
    ln -s photos backup
}

echo "### control: no other hard link -> alias is detected, nothing is dropped"
setup no
"$F" remove < rep.txt 2>&1 | grep -v Started
ls -l photos
[ -f photos/a.jpg ] || { echo "UNEXPECTED: control lost photos/a.jpg"; defect=1; }

echo "### remove, photos/a.jpg has one more hard link elsewhere/h.jpg (not scanned, not in the report)"
setup yes
grep -A2 '^[0-9a-f]\{32\}' rep.txt
"$F" remove < rep.txt 2>&1 | grep -v Started
echo "photos after remove:"; ls -l photos
if [ ! -e photos/a.jpg ]; then
    echo "DEFECT: both paths of the group are gone (0 of max(1,n)=1 replicas left untouched);"
    echo "        the bytes only survive in elsewhere/h.jpg, a file outside of the reported groups"
    defect=1
fi

echo "### link --soft, same tree"
setup yes
"$F" link --soft < rep.txt 2>&1 | grep -v Started
ls -l photos
if ! cat photos/a.jpg > /dev/null 2>&1; then
    echo "DEFECT: photos/a.jpg (the retained file) cannot be read any more: $(cat photos/a.jpg 2>&1)"
    defect=1
fi

echo "### move, same tree"
setup yes
"$F" move "$T/out" < rep.txt 2>&1 | grep -v Started
ls -l photos
if [ ! -e photos/a.jpg ]; then
    echo "DEFECT: the retained file photos/a.jpg was moved away"
    defect=1
fi

if mkdir -p "$T/m/photos" "$T/m/mirror" "$T/m/elsewhere" && mount --bind "$T/m/photos" "$T/m/mirror" 2>/dev/null; then
    echo "### bind mount variant, one pipeline, no change between group and remove"
    cd "$T/m"
    echo "precious data" > photos/a.jpg; ln photos/a.jpg elsewhere/h.jpg
    echo "other data" > photos/b.jpg
    touch -d 2020-01-01 photos/*
    "$F" group --isolate photos mirror 2>/dev/null | "$F" remove 2>&1 | grep -v Started
    ls -l photos
    [ -e photos/a.jpg ] || { echo "DEFECT: photos/a.jpg removed through its bind-mounted alias (b.jpg, nlink=1, was protected)"; defect=1; }
    cd "$T"; umount "$T/m/mirror"
fi

cd /; rm -rf "$T"
exit $defect

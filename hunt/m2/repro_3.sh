#!/bin/bash
# C11 / C02 (move): a chain of symbolic links L2 -> L1 -> A in a dropped sub-group.
# L1 is copied through and removed first, then L2 cannot be resolved any more.
CHECKOUT=${1:-/tmp/hunt/m2}
F=$CHECKOUT/target/debug/fclones
T=$(mktemp -d) || exit 2
cd "$T" || exit 2
export RUST_BACKTRACE=0
defect=0
mkdir d
echo hello > d/0K          # sorts first, is retained
echo hello > d/A
ln -s A d/L1
ln -s L1 d/L2              # like libfoo.so -> libfoo.so.1 -> libfoo.so.1.2.3
touch -h -d 2020-01-01 d/*
"$F" group -S d > rep.txt 2>/dev/null
grep -A4 '^[0-9a-f]\{32\}' rep.txt
echo "### dry run"
"$F" move "$T/out" --dry-run < rep.txt 2> dry.err; grep "Would process" dry.err
echo "### real run"
"$F" move "$T/out" < rep.txt 2> real.err; grep -E "warn|Processed" real.err
echo "### tree afterwards"
ls -l d; find out \( -type f -o -type l \) -exec ls -l {} \;
announced=$(sed -n 's/.*Would process \([0-9]*\) files.*/\1/p' dry.err)
done_=$(sed -n 's/.*Processed \([0-9]*\) files.*/\1/p' real.err)
if [ "$announced" != "$done_" ]; then echo "DEFECT: --dry-run announced $announced files, the real run processed $done_"; defect=1; fi
if [ -L d/L2 ] && ! cat d/L2 >/dev/null 2>&1; then echo "DEFECT: d/L2 was left behind as a dangling link, its bytes are not under the target directory"; defect=1; fi
cd /; rm -rf "$T"
exit $defect

#!/bin/bash
# C02 (timing of changes, lower confidence / design level): a duplicate that is replaced after
# grouping by a different file of the same length whose mtime is old (mv, cp -p, rsync -t, tar x)
# is not recognised as modified; its new, unique content is destroyed.
CHECKOUT=${1:-/tmp/hunt/m2}
F=$CHECKOUT/target/debug/fclones
T=$(mktemp -d) || exit 2
cd "$T" || exit 2
defect=0
mkdir a b
echo "version 1" > a/x; echo "version 1" > b/x
echo "version 2" > edited; touch -d 2021-06-01 edited    # same length, edited long ago elsewhere
touch -d 2020-01-01 a/x b/x
"$F" group a b > rep.txt 2>/dev/null
mv edited b/x                                              # rename keeps the old mtime; ctime is new
"$F" remove < rep.txt 2>&1 | grep -v Started
if ! grep -rqs "version 2" a b; then echo "DEFECT: the only copy of 'version 2' was removed as a duplicate of 'version 1'"; defect=1; fi
ls -l a b
cd /; rm -rf "$T"
exit $defect

#!/bin/bash
# C09/C13: the names a file has below a symlinked input path are known to the selector only for
# input paths given as arguments and resolved against the working directory.
# With --stdin (or --base-dir) the same scan selects other files.
CO="${1:-/repo}"
F="$CO/target/debug/fclones"
T=$(mktemp -d)
cd "$T" || exit 2
mkdir -p disk/private disk/pub w
echo aaaa > disk/private/a; echo aaaa > disk/private/b
echo aaaa > disk/pub/c;     echo aaaa > disk/pub/d
ln -s ../disk w/photos
cd w
body() { grep -v '^#' | grep '^    ' | sort; }
A=$("$F" group photos --exclude '*/private/**' 2>/dev/null | body)
B=$(echo photos | "$F" group --stdin --exclude '*/private/**' 2>/dev/null | body)
C=$(cd / && "$F" group --base-dir "$T/w" photos --exclude '**/photos/private/**' 2>/dev/null | body)
D=$("$F" group photos --path '*/pub/*' 2>/dev/null | body)
E=$(echo photos | "$F" group --stdin --path '*/pub/*' 2>/dev/null | body)
echo "== arguments:  group photos --exclude '*/private/**'"; echo "$A"
echo "== --stdin:    echo photos | group --stdin --exclude '*/private/**'"; echo "$B"
echo "== --base-dir: (cd /; group --base-dir $T/w photos --exclude '**/photos/private/**')"; echo "$C"
echo "== arguments:  group photos --path '*/pub/*'"; echo "$D"
echo "== --stdin:    echo photos | group --stdin --path '*/pub/*'"; echo "$E"
rc=0
if [ "$A" != "$B" ]; then echo "DEFECT: --stdin selects other files than the same path given as argument (exclude)"; rc=1; fi
if echo "$C" | grep -q /private/; then echo "DEFECT: with --base-dir the excluded files are reported"; rc=1; fi
if [ "$D" != "$E" ]; then echo "DEFECT: --stdin selects other files than the same path given as argument (--path)"; rc=1; fi
[ $rc = 0 ] && echo "no defect observed"
rm -rf "$T"
exit $rc

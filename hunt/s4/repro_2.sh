#!/bin/bash
# C13 (every run terminates, for every --threads configuration) / cost of the repairs D27+D72+D116:
# with --follow-links every (directory, ignore stack) pair is walked again each time it is reached
# at a smaller nesting level, although no --depth limit is set. N mutually linked directories
# with a .gitignore each need ~N^5.3 visits instead of ~2*N^3.
CO="${1:-/repo}"
F="$CO/target/debug/fclones"
N="${N:-12}"          # N=12: ~11 s single threaded; N=32 -t 1: not finished after 15 minutes
T=$(mktemp -d)
cd "$T" || exit 2
for i in $(seq 1 $N); do
  mkdir d$i; echo '*.log' > d$i/.gitignore; echo data > d$i/f
  for j in $(seq 1 $N); do [ $i != $j ] && ln -s ../d$j d$i/l$j; done
done
s=$(date +%s.%N)
out=$(timeout "${TIMEOUT:-900}" "$F" group -L -t 1 d1 2>&1); rc=$?
e=$(date +%s.%N)
visits=$(echo "$out" | sed -n 's/.*Scanned \([0-9]*\) file entries.*/\1/p')
files=$(echo "$out" | grep -c '^    ')
needed=$((2 * N * N * N))
echo "N=$N directories, $N files, $((N*(N-1))) links: exit code $rc, $(echo "$e - $s" | bc) s, visited entries: ${visits:-none (killed)}, files reported: $files"
echo "visits needed with one visit per (directory, ignore stack): about $needed"
s=$(date +%s.%N); "$F" group -L -t 1 -A d1 2>&1 | sed -n 's/.*\(Scanned [0-9]* file entries\).*/with --no-ignore: \1/p'; e=$(date +%s.%N)
rm -rf "$T"
if [ $rc = 124 ] || [ -z "$visits" ] || [ "$visits" -gt $((10 * needed)) ]; then
  echo "DEFECT: the walk visits far more entries than (directories x ignore stacks x entries)"
  exit 1
fi
echo "no defect observed"; exit 0

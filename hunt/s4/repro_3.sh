#!/bin/bash
# C09: an input path that is a symbolic link to a FILE registers its target as an alias of the link,
# although the walk does not resolve file links (and without -L/-S does not even scan the link).
# The target, scanned under its own name through another input path, is then excluded/selected
# by patterns that match only the link's name.
CO="${1:-/repo}"
F="$CO/target/debug/fclones"
T=$(mktemp -d)
cd "$T" || exit 2
mkdir logs
echo aaaa > logs/2024.log; echo aaaa > logs/2023.log
ln -s logs/2024.log latest.log
body() { grep '^    ' | sort; }
A=$("$F" group latest.log logs --exclude 'latest*' 2>/dev/null | body)
B=$("$F" group logs --exclude 'latest*' 2>/dev/null | body)
echo "== group latest.log logs --exclude 'latest*'   (what 'group * --exclude \"latest*\"' expands to)"; echo "$A"
echo "== group logs --exclude 'latest*'"; echo "$B"
# second direction: a reported link (-S) below a symlinked directory is not known by its given name
mkdir -p disk/private disk/pub w
echo bbbbb > disk/pub/c; echo bbbbb > disk/pub/d
ln -s ../pub/c disk/private/l
ln -s ../disk w/photos
C=$(cd w && "$F" group -S photos/private/l photos/pub/c photos/pub/d --rf-over 0 --exclude '*/private/*' 2>/dev/null | body)
echo "== (cd w; group -S photos/private/l photos/pub/c photos/pub/d --rf-over 0 --exclude '*/private/*')"; echo "$C"
rc=0
if [ "$A" != "$B" ]; then echo "DEFECT: logs/2024.log does not match 'latest*' but is dropped because of the unscanned link latest.log"; rc=1; fi
if echo "$C" | grep -q '/private/l'; then echo "DEFECT: the link photos/private/l is not excluded by '*/private/*'"; rc=1; fi
if ! echo "$C" | grep -q '/pub/c'; then echo "DEFECT: disk/pub/c is excluded by '*/private/*' (it got the name of the link)"; rc=1; fi
[ $rc = 0 ] && echo "no defect observed"
rm -rf "$T"
exit $rc

#!/bin/bash
# C09/C16: a relative glob that can match an empty first component (`*/x`, `[!a]*`, `?(a)/x`)
# is taken for an absolute pattern and is not anchored at the working directory.
CHECKOUT=${1:-/repo}
F=$CHECKOUT/target/debug/fclones
T=$(mktemp -d)
trap 'rm -rf "$T"' EXIT
cd "$T" || exit 2
mkdir -p p1/cache p2/cache p1/src p1/orig p1/copy
for f in p1/cache/x p2/cache/y p1/src/z top; do echo same > $f; done
echo other-content > p1/orig/o; echo other-content > p1/copy/o
list() { "$F" group . --rf-over 0 -f fdupes "$@" 2>/dev/null | grep '^/' | sed "s|^$T/||" | sort | tr '\n' ' '; }
defect=0

got=$(list --exclude '*/cache/**')
exp="p1/copy/o p1/orig/o p1/src/z top "
echo "--exclude '*/cache/**'  : got [$got] expected [$exp]"
[ "$got" != "$exp" ] && defect=1

got=$(list --path '*/cache/*')
exp="p1/cache/x p2/cache/y "
echo "--path '*/cache/*'      : got [$got] expected [$exp]"
[ "$got" != "$exp" ] && defect=1

got=$(list --path 'p?/cache/*')
echo "--path 'p?/cache/*'     : got [$got] (control: first component cannot be empty)"

got=$(list --path '[!x]*')
exp="top "
echo "--path '[!x]*'          : got [$got] expected [$exp]"
[ "$got" != "$exp" ] && defect=1

# the same anchoring is used for the patterns of remove/link/dedupe: the file to keep is removed
"$F" group p1/orig p1/copy 2>/dev/null > report.txt
got=$("$F" remove --dry-run --keep-path '*/orig/**' < report.txt 2>/dev/null | grep '^rm ' | sed "s|$T/||")
echo "remove --keep-path '*/orig/**' would run: [$got] expected [rm p1/copy/o]"
[ "$got" != "rm p1/copy/o" ] && defect=1

if [ $defect = 1 ]; then echo "DEFECT PRESENT"; exit 1; else echo "no defect"; exit 0; fi

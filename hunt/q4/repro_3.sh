#!/bin/bash
# C09: with --follow-links a directory is pruned by the --path patterns although the links
# in it lead to files whose (reported) paths match.
CHECKOUT=${1:-/repo}
F=$CHECKOUT/target/debug/fclones
T=$(mktemp -d)
T=$(cd "$T" && pwd -P)
trap 'rm -rf "$T"' EXIT
cd "$T" || exit 2
mkdir -p real/sub links/inner
echo same > real/x; echo same > real/sub/y; echo same > links/z
ln -s "$T/real" links/inner/dirlink     # directory link
ln -s ../real/x links/filelink          # file link, directly in the input directory
list() { "$F" group "$@" --rf-over 0 -f fdupes 2>/dev/null | grep '^/' | sed "s|^$T/||" | sort | tr '\n' ' '; }
all=$(list links -L)
echo "group links -L                      : [$all]"
got=$(list links -L --path "$T/real/**")
exp="real/sub/y real/x "
echo "group links -L --path '$T/real/**' : got [$got] expected [$exp]"
# the same files filtered after the walk, for comparison
post=$("$F" group links -L --rf-over 0 -f fdupes 2>/dev/null | grep "^$T/real/" | sed "s|^$T/||" | sort | tr '\n' ' ')
echo "group links -L | grep '^$T/real/'  : [$post]"
if [ "$got" != "$exp" ]; then echo "DEFECT PRESENT"; exit 1; else echo "no defect"; exit 0; fi

#!/bin/bash
# C09/C16: a --regex pattern that ends with a single backslash panics (exit 101) instead of
# being reported as an invalid pattern: `^a\$` compiles (escaped dollar), `^a\` does not, and
# the result of the second compilation is unwrapped (pattern.rs:102).
CHECKOUT=${1:-/repo}
F=$CHECKOUT/target/debug/fclones
T=$(mktemp -d)
trap 'rm -rf "$T"' EXIT
cd "$T" || exit 2
mkdir d; echo same > d/a; echo same > d/b
defect=0
for opt in --name --path --exclude; do
  "$F" group d --regex $opt 'a\' > out.txt 2> err.txt
  rc=$?
  echo "group d --regex $opt 'a\\' : exit $rc; $(grep -m1 -o "panicked at [^:]*:[0-9]*" err.txt) $(grep -m1 -o 'error: Invalid pattern.*' err.txt)"
  if [ $rc = 101 ] || grep -q panicked err.txt; then defect=1; fi
done
# control: other invalid expressions are reported properly
"$F" group d --regex --name '(a' > out.txt 2> err.txt; echo "control --regex --name '(a' : exit $?; $(grep -m1 -o 'error: Invalid pattern.*' err.txt)"
if [ $defect = 1 ]; then echo "DEFECT PRESENT"; exit 1; else echo "no defect"; exit 0; fi

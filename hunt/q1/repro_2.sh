#!/bin/bash
# C01: files whose st_size does not tell how many bytes can be read (procfs: st_size 0 with
# content, sysfs: st_size 4096 with a few bytes) are hashed over another number of bytes than
# the scanned length, and nothing compares the two. usage: repro_2.sh <checkout>
CO=${1:-/repo}
F=${1:-/repo}/target/debug/fclones
[ -x "$F" ] || F="$CO/target/debug/fclones"
defect=0
T=$(mktemp -d); cd "$T" || exit 2
A=/proc/sys/kernel/ngroups_max      # 65536
B=/proc/sys/kernel/overflowuid      # 65534
if [ ! -r $A ] || [ ! -r $B ]; then echo "no readable $A / $B here, cannot test"; exit 0; fi
echo "$A: $(cat $A) ($(stat -c %s $A) B by stat, $(cat $A | wc -c) B readable)"
echo "$B: $(cat $B) ($(stat -c %s $B) B by stat, $(cat $B | wc -c) B readable)"

echo "--- (a) different content in one group: fclones group --min 0 --max-prefix-size 4 $A $B"
"$F" group --min 0 --max-prefix-size 4 $A $B > out_a.txt 2> err_a.txt
grep -v '^#' out_a.txt
if grep -v "^#" out_a.txt | grep -q "ngroups_max" && grep -v "^#" out_a.txt | grep -q "overflowuid" && ! cmp -s $A $B; then
  echo "DEFECT: both files are reported as identical 0 B files, cmp says they differ"
  defect=1
fi

echo "--- (b) wrong group length with the default options: fclones group --min 0 overflowuid overflowgid"
C=/proc/sys/kernel/overflowgid
"$F" group --min 0 $B $C > out_b.txt 2> err_b.txt
grep -v '^#' out_b.txt
n=$(cat $B | wc -c)
if grep -q ', 0 B (0 B) \* 2:' out_b.txt && [ "$n" != 0 ]; then
  echo "DEFECT: the group is printed with length 0 B, the files have $n bytes of content (which WERE hashed)"
  defect=1
fi

echo "--- (c) default options, different content in one group: pagemap of two processes"
sleep 30 & P1=$!
cat > /dev/null < <(sleep 30) & P2=$!
sleep 0.3
if [ -r /proc/$P1/pagemap ] && [ -r /proc/$P2/pagemap ]; then
  "$F" group --min 0 /proc/$P1/pagemap /proc/$P2/pagemap > out_c.txt 2> err_c.txt
  grep -v '^#' out_c.txt
  # the entry of the first mapped page of P1, read from both files
  addr=$(head -1 /proc/$P1/maps | cut -d- -f1)
  off=$(( 0x$addr / 4096 ))
  e1=$(dd if=/proc/$P1/pagemap bs=8 skip=$off count=1 2>/dev/null | od -An -tx1 | tr -d ' \n')
  e2=$(dd if=/proc/$P2/pagemap bs=8 skip=$off count=1 2>/dev/null | od -An -tx1 | tr -d ' \n')
  echo "8 bytes at offset $off*8: $e1 (pid $P1) vs $e2 (pid $P2)"
  if grep -v "^#" out_c.txt | grep -q "/proc/$P1/pagemap" && grep -v "^#" out_c.txt | grep -q "/proc/$P2/pagemap" && [ "$e1" != "$e2" ]; then
    echo "DEFECT: the two pagemap files are reported as identical, but they differ at byte offset $((off*8)) (only the first 16 KiB were hashed)"
    defect=1
  fi
else
  echo "pagemap not readable, skipped"
fi
kill $P1 $P2 2>/dev/null

echo "--- (d) default options on sysfs: st_size is 4096, the content is shorter"
S1=/sys/kernel/mm/transparent_hugepage/use_zero_page
S2=/sys/kernel/mm/ksm/merge_across_nodes
if [ -r $S1 ] && [ -r $S2 ] && cmp -s $S1 $S2; then
  "$F" group $S1 $S2 > out_d.txt 2> err_d.txt
  grep -v '^#' out_d.txt
  n=$(cat $S1 | wc -c)
  if grep -q ', 4096 B' out_d.txt && [ "$n" != 4096 ]; then
    echo "DEFECT: the group is printed with length 4096 B, the files have $n bytes"
    defect=1
  fi
else
  echo "no suitable sysfs files, skipped"
fi
cd /; rm -rf "$T"
if [ $defect = 1 ]; then exit 1; fi
echo "defect not present"
exit 0

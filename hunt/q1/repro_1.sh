#!/bin/bash
# C01: a path that shares its inode with another scanned path is never opened or re-checked
# after the scan. usage: repro_1.sh <checkout>
CO=${1:-/repo}
F=${1:-/repo}/target/debug/fclones
[ -x "$F" ] || F="$CO/target/debug/fclones"
defect=0

# Variant 1 (deterministic on every file system): --match-links, the group consists of
# hard links only, so no file of it is ever opened by any stage.
T=$(mktemp -d); cd "$T" || exit 2
mkdir d
head -c 20000 /dev/urandom > d/a
ln d/a d/b
head -c 20000 /dev/urandom > new          # same length, other content
( printf 'd/a\nd/b\n'; sleep 1; mv new d/b ) | "$F" group --stdin --match-links > out1.txt 2> err1.txt
echo "--- variant 1: fclones group --stdin --match-links (d/b replaced after the scan)"
grep -v '^#' out1.txt
if cmp -s d/a d/b; then echo "setup failed: d/a and d/b are equal"; fi
if grep -q '/d/a$' out1.txt && grep -q '/d/b$' out1.txt && ! cmp -s d/a d/b; then
  echo "DEFECT: d/a and d/b are reported as one group of identical files, but cmp says they differ"
  grep -i warn err1.txt || echo "(and no warning was logged)"
  defect=1
fi
cd /; rm -rf "$T"

# Variant 2 (default options): d/a and d/b are hard links, d/c is a copy. Only one path per
# inode is hashed, d/b inherits the hash of d/a. Tried on tmpfs (no FIEMAP, same as on an SSD,
# where the extents are not fetched) and on the default temporary directory.
for base in /dev/shm ""; do
  if [ -n "$base" ]; then [ -d "$base" ] && [ -w "$base" ] || continue; T=$(mktemp -d -p "$base"); else T=$(mktemp -d); fi
  cd "$T" || exit 2
  mkdir d
  head -c 20000 /dev/urandom > d/a
  ln d/a d/b
  head -c 20000 /dev/urandom > new
  cp d/a d/c
  sync
  ( printf 'd/a\nd/b\nd/c\n'; sleep 1; mv new d/b ) | "$F" group --stdin > out2.txt 2> err2.txt
  echo "--- variant 2 in $T: fclones group --stdin (d/b replaced after the scan)"
  grep -v '^#' out2.txt
  if grep -q '/d/b$' out2.txt && ! cmp -s d/a d/b; then
    echo "DEFECT: d/b is reported as a 20000 B duplicate of d/a and d/c, but its content differs (it was never read)"
    defect=1
  fi
  cd /; rm -rf "$T"
done

if [ $defect = 1 ]; then exit 1; fi
echo "defect not present"
exit 0

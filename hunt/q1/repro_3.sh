#!/bin/bash
# C01/C03: the report redirected with `>` into the scanned tree (the usage shown in the README:
# `fclones group . >dupes.txt`) is listed in itself as an empty duplicate. The fix of D64 covers
# only the file named with -o. usage: repro_3.sh <checkout>
CO=${1:-/repo}
F=${1:-/repo}/target/debug/fclones
[ -x "$F" ] || F="$CO/target/debug/fclones"
defect=0
T=$(mktemp -d); cd "$T" || exit 2
mkdir d; : > d/e1; : > d/e2
cd d
"$F" group . --min 0 > dupes.txt 2> ../err.txt
echo "--- cd d; fclones group . --min 0 > dupes.txt"
cat dupes.txt
sz=$(stat -c %s dupes.txt)
if grep -q '^    .*/d/dupes.txt$' dupes.txt; then
  echo "DEFECT: dupes.txt ($sz bytes) is listed in its own report as a 0 B duplicate of e1 and e2"
  defect=1
fi
rm -f dupes.txt e1 e2
"$F" group . --min 0 --unique > uniq.txt 2> ../err2.txt
echo "--- cd d; rm e1 e2; fclones group . --min 0 --unique > uniq.txt"
cat uniq.txt
if grep -q '^    .*/d/uniq.txt$' uniq.txt; then
  echo "DEFECT: uniq.txt ($(stat -c %s uniq.txt) bytes) is listed in its own report as a unique file of 0 B"
  defect=1
fi
echo "--- control: the same with -o (repaired, D64)"
: > e1; : > e2
"$F" group . --min 0 -o dupes2.txt 2> ../err3.txt
grep -v '^#' dupes2.txt
cd /; rm -rf "$T"
if [ $defect = 1 ]; then exit 1; fi
echo "defect not present"
exit 0

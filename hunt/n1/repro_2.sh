#!/bin/bash
# C19 (open-file budget): every `--transform` run that uses $OUT leaks threads that stay blocked
# forever in open(<named pipe>, O_WRONLY); each of them keeps a reserved descriptor number, so the
# process runs out of descriptors although the semaphore admits only a few tasks at a time.
# usage: repro_2.sh <checkout>   (uses <checkout>/target/debug/fclones, builds nothing)
CHECKOUT=${1:-/repo}
F=$CHECKOUT/target/debug/fclones
[ -x "$F" ] || F=${1:-/repo}/target/debug/fclones
D=$(mktemp -d)
trap 'rm -rf "$D"' EXIT
mkdir "$D/t"
N=700                      # 700 different contents, two copies of each -> 700 groups, 1400 files
for i in $(seq 1 $N); do
  printf 'content %d\n' $i > "$D/t/a$i"; head -c 3000 /dev/zero >> "$D/t/a$i"; cp "$D/t/a$i" "$D/t/b$i"
done
cd "$D"
LIMIT=64                   # budget: (64 - 5) / 10 = 5 tasks with up to 10 descriptors each
( ulimit -n $LIMIT
  "$F" group t --transform 'cp $IN $OUT' > "$D/out.txt" 2> "$D/err.txt" &
  pid=$!
  maxthr=0; maxblk=0
  while [ -d /proc/$pid ]; do
    thr=$(ls /proc/$pid/task 2>/dev/null | wc -l)
    blk=$(grep -l fifo_open /proc/$pid/task/*/stack 2>/dev/null | wc -l)
    [ "$thr" -gt "$maxthr" ] && maxthr=$thr
    [ "$blk" -gt "$maxblk" ] && maxblk=$blk
    sleep 0.1
  done
  wait $pid; echo "exit status of fclones: $?"
  echo "max. number of threads seen: $maxthr, of these blocked in the kernel in fifo_open(): $maxblk (readable by root only)"
)
reported=$(grep -c '^    /' "$D/out.txt")
emfile=$(grep -c 'Too many open files' "$D/err.txt")
echo "files reported as duplicates: $reported of $((2*N)) (expected: all of them)"
echo "warnings 'Too many open files (os error 24)': $emfile (expected: 0)"
grep -m 3 'Too many open files' "$D/err.txt"
if [ "$emfile" -gt 0 ] || [ "$reported" -lt $((2*N)) ]; then
  echo "DEFECT: with RLIMIT_NOFILE=$LIMIT readable files were left out because the process ran out of descriptors"
  exit 1
fi
echo "not reproduced"
exit 0

#!/bin/bash
# C12: --no-copy decides what the transform command gets as $IN (the original path or a temporary
# copy with a random name), but it is not part of the identity of the hash cache.
# usage: repro_3.sh <checkout>   (uses <checkout>/target/debug/fclones, builds nothing)
CHECKOUT=${1:-/repo}
F=$CHECKOUT/target/debug/fclones
[ -x "$F" ] || F=${1:-/repo}/target/debug/fclones
D=$(mktemp -d)
trap 'rm -rf "$D"' EXIT
export XDG_CACHE_HOME=$D/cache          # private hash cache
mkdir -p "$D/t/d1" "$D/t/d2"
echo one > "$D/t/d1/a"; echo two > "$D/t/d1/b"; echo three3 > "$D/t/d2/c"; echo four > "$D/t/d2/d"
cd "$D"
groups() { grep -v '^#' | sed 's/^[0-9a-f]*, //' ; }
echo "--- run 1: --cache --transform 'dirname \$IN'            (\$IN = temporary copy)"
"$F" group t --cache --transform 'dirname $IN' 2>/dev/null | groups
echo "--- run 2: --cache --no-copy --transform 'dirname \$IN'  (\$IN = the file itself)"
"$F" group t --cache --no-copy --transform 'dirname $IN' 2>/dev/null | groups | tee "$D/cached.txt"
echo "--- reference: the same as run 2 without --cache"
"$F" group t --no-copy --transform 'dirname $IN' 2>/dev/null | groups | tee "$D/uncached.txt"
if ! diff <(sort "$D/cached.txt") <(sort "$D/uncached.txt") > /dev/null; then
  echo "DEFECT: the cached run reports other groups than the uncached run (hashes of run 1 were reused)"
  exit 1
fi
echo "not reproduced"
exit 0

#!/bin/bash
# C01: a hash computed through one path is copied to all paths that had the same (device, inode)
# when they were scanned, without checking that the path that is opened still is that file.
# usage: repro_1.sh <checkout>   (uses <checkout>/target/debug/fclones, builds nothing)
CHECKOUT=${1:-/repo}
F=$CHECKOUT/target/debug/fclones
[ -x "$F" ] || F=${1:-/repo}/target/debug/fclones
# tmpfs has no FIEMAP, like SSDs where fclones does not ask for extents at all: the hashing order
# then stays "by inode as scanned". On a rotational ext4 disk the extent lookup done right after
# the scan happens to separate the replaced paths, which narrows the race window to the hashing
# phase, but does not close it.
if [ -d /dev/shm ] && [ -w /dev/shm ]; then D=$(mktemp -d -p /dev/shm); else D=$(mktemp -d); fi
trap 'rm -rf "$D"' EXIT
present=0
for attempt in 1 2 3; do
  T=$D/t$attempt; mkdir -p "$T"
  head -c 30000 /dev/urandom > "$T/orig"              # content A
  for i in 1 2 3 4 5 6 7; do ln "$T/orig" "$T/link$i"; done   # hard links of orig
  head -c 30000 /dev/urandom > "$T/z"; cp "$T/z" "$T/z2"      # content Z (same length, different data)
  # --stdin: the paths are scanned as they arrive, hashing starts when stdin is closed.
  ( for n in link1 link2 link3 link4 link5 link6 link7 z z2; do echo "$T/$n"; done
    sleep 0.3; echo "$T/orig"; sleep 1.7 ) | "$F" group --stdin > "$D/out$attempt.txt" 2> "$D/err$attempt.txt" &
  sleep 1.1
  # after the scan, before the hashing: every link is replaced by a new file (a copy of z),
  # the way rsync, an editor or a package manager replace files (write temp file + rename)
  for i in 1 2 3 4 5 6 7; do cp "$T/z" "$T/new$i"; mv "$T/new$i" "$T/link$i"; done
  wait
  echo "--- attempt $attempt: report"
  grep -v '^#' "$D/out$attempt.txt"
  grep 'warn' "$D/err$attempt.txt" | grep -v FIEMAP
  # is orig listed in the same group as z?
  if awk -v o="$T/orig" -v z="$T/z" '
       /^[0-9a-f]+, /{ if (so && sz) bad=1; so=0; sz=0 }
       $1==o {so=1} $1==z {sz=1}
       END { if (so && sz) bad=1; exit bad?0:1 }' "$D/out$attempt.txt"; then
    if ! cmp -s "$T/orig" "$T/z"; then
      echo "DEFECT: $T/orig is reported as a duplicate of $T/z, but their contents differ"
      echo "        (orig was never modified and never read; it got the hash computed through a replaced link path)"
      present=1; break
    fi
  fi
done
if [ $present = 1 ]; then exit 1; fi
echo "not reproduced: orig was never reported together with z"
exit 0

"""Fact loading and per-body CFG utilities.

The facts come from /verif/driver (one JSON file per compilation unit).  This
module contains no property logic.
"""
import json, os, re
from collections import defaultdict


class Unit:
    def __init__(self, data):
        # helper functions the rules do not know are spliced into their callers first (see inline.py)
        self.inlined = {}
        self.fn_values = {}
        if data.get('crate') == 'fclones' and not os.environ.get('FCVERIF_NO_INLINE'):
            from . import inline as _inline
            data, self.fn_renames = _inline.normalise_fn_names(data)
            self.renamed_back = _inline.normalise_names(data) + _inline.normalise_fields(data)
            self.inlined = _inline.inline_unknown(data, _inline.load_known())
            self.fn_values = data.get('_fn_values', {})
        self.crate = data['crate']
        self.unit = data['unit']
        self.cfg = data.get('cfg', [])
        self.nonce = data.get('nonce')
        self.bodies = {}
        for b in data['bodies']:
            body = Body(b, self)
            # a path can repeat (e.g. several anonymous consts); keep the first
            self.bodies.setdefault(body.path, body)
        self.adts = {a['path']: a for a in data['adts']}
        self.impls = data['impls']
        self.clap = data['clap']
        self.children = defaultdict(list)   # body path -> closures created lexically inside
        gone = set(data.get('_gone', []))
        into = defaultdict(list)             # inlined helper -> the functions it was spliced into
        for caller, gs in self.inlined.items():
            for g in gs:
                if caller not in gone:
                    into[g].append(caller)
        for b in self.bodies.values():
            if b.kind == 'closure' and b.raw.get('parent'):
                par = b.raw['parent']
                if par in gone and into.get(par):
                    # the closure is created by the spliced copy of its parent now
                    for caller in into[par]:
                        self.children[caller].append(b.path)
                    b.raw['parent'] = into[par][0]
                else:
                    self.children[par].append(b.path)

    def body(self, path):
        return self.bodies.get(path)

    def closure_of_type(self, ty):
        """closure body path for a type string like `&{closure@file:l:c: l:c}`"""
        m = getattr(self, '_cbt', None)
        if m is None:
            m = {}
            for b in self.bodies.values():
                for blk in b.blocks:
                    for s in blk['stmts']:
                        rv = s['rv']
                        if rv['k'] == 'agg' and rv.get('ak') == 'closure' and not s['p'][1]:
                            m[b.local_ty(s['p'][0])] = rv['def']
            self._cbt = m
        t = ty
        while t.startswith('&'):
            t = t[1:].replace('mut ', '', 1).strip()
        return m.get(t)

    def find(self, regex):
        r = re.compile(regex)
        return [b for p, b in self.bodies.items() if r.search(p)]

    def closures_of(self, path, recursive=True):
        out = []
        for c in self.children.get(path, []):
            out.append(c)
            if recursive:
                out.extend(self.closures_of(c, True))
        # a new function that is only passed as a value (`retain(is_regular_file)`) plays the role of a closure of the function that mentions it
        for g, users in self.fn_values.items():
            if g in self.bodies and g not in out and (path in users or any(u in out for u in users)):
                out.append(g)
        return out

    def trait_impl_methods(self, trait_suffix, method):
        """local impls of Trait::method -> list of body paths"""
        out = []
        for i in self.impls:
            if i['trait'].endswith(trait_suffix):
                for m in i['methods']:
                    if m.endswith('::' + method):
                        out.append(m)
        return out


def load_unit(path):
    with open(path) as f:
        return Unit(json.load(f))


# ---------------------------------------------------------------------------
# operands / places

def op_place(op):
    """place of a copy/move operand, or None for constants"""
    if 'c' in op:
        return op['c']
    if 'm' in op:
        return op['m']
    return None


def op_local(op):
    p = op_place(op)
    return p[0] if p is not None else None


def op_const(op):
    return op.get('k')


def const_val(op):
    k = op.get('k')
    if k is None:
        return None
    return k.get('v')


def const_int(op):
    """integer value of a constant operand like `const 1_usize`, else None"""
    v = const_val(op)
    if v is None:
        return None
    m = re.match(r'^(?:const )?(-?\d+)(?:_[iu](?:8|16|32|64|128|size))?$', v)
    if m:
        return int(m.group(1))
    return None


def const_bool(op):
    v = const_val(op)
    if v in ('const true', 'true'):
        return True
    if v in ('const false', 'false'):
        return False
    return None


def place_fields(place):
    """names of the Field projections of a place, outermost first"""
    return [e[2] for e in place[1] if isinstance(e, list) and e[0] == 'F']


def place_variant(place):
    for e in place[1]:
        if isinstance(e, list) and e[0] == 'D':
            return e[2]
    return None


class Call:
    """A call terminator."""
    __slots__ = ('body', 'bb', 't')

    def __init__(self, body, bb, t):
        self.body = body
        self.bb = bb
        self.t = t

    @property
    def path(self):
        return self.t['f'].get('path') or ''

    @property
    def decl(self):
        return self.t['f'].get('decl') or ''

    @property
    def f(self):
        return self.t['f']

    @property
    def args(self):
        return self.t['args']

    @property
    def dest(self):
        return self.t['dest']

    @property
    def dty(self):
        return self.t.get('dty', '')

    @property
    def ret(self):
        return self.t['ret']

    @property
    def line(self):
        return self.t['line']

    @property
    def exp(self):
        return self.t.get('exp', False)

    def names(self):
        """all names this callee is known by (resolved path, declared path)"""
        return [n for n in (self.path, self.decl) if n]

    def matches(self, regex):
        r = re.compile(regex) if isinstance(regex, str) else regex
        return any(r.search(n) for n in self.names())

    def where(self):
        return '%s:%d' % (self.body.file, self.line)

    def __repr__(self):
        return '<call %s @%s bb%d>' % (self.path or self.decl, self.where(), self.bb)

    def __eq__(self, o):
        return isinstance(o, Call) and o.body is self.body and o.bb == self.bb

    def __hash__(self):
        return hash((self.body.path, self.bb))


class Body:
    def __init__(self, raw, unit):
        self.raw = raw
        self.unit = unit
        self.path = raw['path']
        self.kind = raw['kind']
        self.file = raw['file']
        self.lo = raw['lo']
        self.hi = raw['hi']
        self.locals = raw['locals']
        self.blocks = raw['blocks']
        self.argc = raw['argc']
        self.root = raw.get('root')
        self.self_ty = raw.get('self_ty')
        self.impl_trait = raw.get('impl_trait')
        self.derived = raw.get('derived', False)
        self.upvars = {i: n for i, n in raw.get('upvars', [])}
        self._succ = None
        self._pred = None
        self._dom = None
        self._pdom = None
        self._defs = None
        self._uses = None

    # ---- basic
    def where(self, line=None):
        return '%s:%d' % (self.file, line if line is not None else self.lo)

    def local_ty(self, l):
        return self.locals[l]['ty']

    def local_name(self, l):
        return self.locals[l]['name']

    def locals_named(self, name):
        return [i for i, l in enumerate(self.locals) if l['name'] == name]

    def term(self, bb):
        return self.blocks[bb]['term']

    def calls(self, regex=None, cleanup=False):
        out = []
        r = re.compile(regex) if isinstance(regex, str) else regex
        for i, b in enumerate(self.blocks):
            if b['cleanup'] and not cleanup:
                continue
            t = b['term']
            if t['k'] == 'call':
                c = Call(self, i, t)
                if r is None or c.matches(r):
                    out.append(c)
        return out

    def call_at(self, bb):
        t = self.blocks[bb]['term']
        return Call(self, bb, t) if t['k'] == 'call' else None

    # ---- CFG (normal edges only; unwind edges are ignored on purpose)
    def succs(self, bb):
        if self._succ is None:
            self._build_cfg()
        return self._succ[bb]

    def preds(self, bb):
        if self._pred is None:
            self._build_cfg()
        return self._pred[bb]

    def _build_cfg(self):
        n = len(self.blocks)
        succ = [[] for _ in range(n)]
        pred = [[] for _ in range(n)]
        for i, b in enumerate(self.blocks):
            t = b['term']
            k = t['k']
            if k == 'goto':
                s = [t['t']]
            elif k == 'switch':
                s = list(dict.fromkeys(t['tgts']))
            elif k in ('call', 'drop', 'assert'):
                s = [t['ret']] if t['ret'] is not None else []
            else:
                s = []
            succ[i] = s
            for x in s:
                pred[x].append(i)
        self._succ, self._pred = succ, pred

    def return_blocks(self):
        return [i for i, b in enumerate(self.blocks) if b['term']['k'] == 'ret']

    def reachable(self, start, avoid=()):
        """blocks reachable from `start` (inclusive) without entering `avoid`"""
        avoid = set(avoid)
        seen = set()
        st = [start] if start not in avoid else []
        while st:
            x = st.pop()
            if x in seen:
                continue
            seen.add(x)
            for s in self.succs(x):
                if s not in seen and s not in avoid:
                    st.append(s)
        return seen

    def live_blocks(self):
        return self.reachable(0)

    def dominators(self):
        """dom[b] = set of blocks dominating b (over blocks reachable from entry)"""
        if self._dom is not None:
            return self._dom
        live = self.live_blocks()
        order = self._rpo(0, self.succs)
        dom = {b: set(live) for b in live}
        dom[0] = {0}
        changed = True
        while changed:
            changed = False
            for b in order:
                if b == 0:
                    continue
                ps = [p for p in self.preds(b) if p in live]
                new = set.intersection(*[dom[p] for p in ps]) if ps else set()
                new = new | {b}
                if new != dom[b]:
                    dom[b] = new
                    changed = True
        self._dom = dom
        return dom

    def dominates(self, a, b):
        d = self.dominators()
        return b in d and a in d[b]

    def _rpo(self, start, succf):
        seen, out = set(), []
        st = [(start, iter(succf(start)))]
        seen.add(start)
        while st:
            x, it = st[-1]
            adv = False
            for s in it:
                if s not in seen:
                    seen.add(s)
                    st.append((s, iter(succf(s))))
                    adv = True
                    break
            if not adv:
                out.append(x)
                st.pop()
        out.reverse()
        return out

    def postdominates(self, a, b):
        """every path from b to a return passes a (vacuous if b cannot return)"""
        if a == b:
            return True
        rets = set(self.return_blocks())
        reach = self.reachable(b, avoid=[a])
        return not (reach & rets)

    def must_pass(self, start, pred_bb, stop=None):
        """Every path from block `start` to a return passes a block satisfying
        pred_bb(bb).  Returns (ok, offending_return_block_or_None)."""
        rets = set(self.return_blocks())
        seen = set()
        st = [start]
        while st:
            x = st.pop()
            if x in seen:
                continue
            seen.add(x)
            if pred_bb(x):
                continue
            if x in rets:
                return False, x
            for s in self.succs(x):
                st.append(s)
        return True, None

    def in_cycle_with(self, a, b):
        return b in self.reachable(a) and a in self.reachable(b)

    # ---- def/use
    def defs(self):
        """local -> list of (bb, idx, kind, payload); idx = statement index or 'term'
        kind: 'assign' (payload=stmt, whole-local write iff no projection),
              'call' (payload=Call)"""
        if self._defs is not None:
            return self._defs
        d = defaultdict(list)
        for bi, b in enumerate(self.blocks):
            if b['cleanup']:
                continue
            for si, s in enumerate(b['stmts']):
                d[s['p'][0]].append((bi, si, 'assign', s))
            t = b['term']
            if t['k'] == 'call':
                d[t['dest'][0]].append((bi, 'term', 'call', Call(self, bi, t)))
        self._defs = d
        return d

    def operand_uses(self, local):
        """all sites that read `local`: list of (bb, idx, what) where what is
        ('stmt', stmt) | ('callarg', Call, argindex) | ('switch', term) | ('drop', term) | ('ret',)"""
        if self._uses is None:
            u = defaultdict(list)
            for bi, b in enumerate(self.blocks):
                if b['cleanup']:
                    continue
                for si, s in enumerate(b['stmts']):
                    for l in rvalue_locals(s['rv']):
                        u[l].append((bi, si, ('stmt', s)))
                    # writes through a projection read the base too (deref)
                t = b['term']
                if t['k'] == 'call':
                    c = Call(self, bi, t)
                    for ai, a in enumerate(t['args']):
                        l = op_local(a)
                        if l is not None:
                            u[l].append((bi, 'term', ('callarg', c, ai)))
                    if t['f'].get('fop'):
                        l = op_local(t['f']['fop'])
                        if l is not None:
                            u[l].append((bi, 'term', ('callee', c)))
                elif t['k'] == 'switch':
                    l = op_local(t['op'])
                    if l is not None:
                        u[l].append((bi, 'term', ('switch', t)))
                elif t['k'] == 'drop':
                    u[t['p'][0]].append((bi, 'term', ('drop', t)))
                elif t['k'] == 'assert':
                    l = op_local(t['cond'])
                    if l is not None:
                        u[l].append((bi, 'term', ('assert', t)))
                elif t['k'] == 'ret':
                    u[0].append((bi, 'term', ('ret',)))
            self._uses = u
        return self._uses.get(local, [])


def rvalue_operands(rv):
    k = rv['k']
    if k in ('use', 'repeat', 'cast'):
        return [rv['op']]
    if k == 'un':
        return [rv['a']]
    if k == 'bin':
        return [rv['a'], rv['b']]
    if k == 'agg':
        return list(rv['ops'])
    return []


def rvalue_places(rv):
    """places read by an rvalue"""
    out = []
    for o in rvalue_operands(rv):
        p = op_place(o)
        if p is not None:
            out.append(p)
    if rv['k'] in ('ref', 'rawptr', 'disc'):
        out.append(rv['p'])
    return out


def rvalue_locals(rv):
    out = []
    for p in rvalue_places(rv):
        out.append(p[0])
        for e in p[1]:
            if isinstance(e, list) and e[0] == 'I':
                out.append(e[1])
    return out

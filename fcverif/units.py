"""Unit lint: byte offsets vs character counts (DESIGN 3.7)."""
import re
from .analysis import backslice
from .facts import const_int, op_local, op_place, op_const, rvalue_operands

BYTES_CALL = re.compile(r'str::<impl str>::len$|String::len$|char::methods::<impl char>::len_utf8$|<impl char>::len_utf8$|CharIndices|str::<impl str>::(find|rfind)$|regex::Match::<.*>::(start|end)$|OsStr::len$|Vec<u8>::len$')
CHARS_CALL = re.compile(r'Chars<.*> as std::iter::Iterator>::count$|Iterator::count$')
CHARS_ITER = re.compile(r"str::Chars<'_> as std::iter::Iterator>::next$|Chars<.*> as std::iter::Iterator>::next$|Enumerate<std::str::Chars<.*>> as std::iter::Iterator>::next$")


def fn_consts(sl):
    return [k.get('fn', '') for k in sl.consts if 'fn' in k]


def unit_of(body, operand, _seen=None):
    """'BYTES' | 'CHARS' | None for an integer operand (definite answers only)"""
    _seen = _seen if _seen is not None else set()
    sl = backslice(body, [operand])
    has_bytes = any(c.matches(BYTES_CALL) for c in sl.calls) or any(re.search(r'len_utf8$', f) for f in fn_consts(sl))
    # counters: named integer locals in the slice with self-increments
    counters = {}
    for l in sl.locals:
        ty = body.local_ty(l)
        if ty not in ('usize', 'u64', 'u32', 'isize', 'i64', 'i32'):
            continue
        incs = []
        for d in body.defs().get(l, []):
            if d[2] != 'assign':
                continue
            rv = d[3]['rv']
            ops = rvalue_operands(rv)
            s2 = backslice(body, ops, stop_local=lambda x: x == l)
            if l in s2.locals and any(op_.startswith('Add') for op_, _ in s2.binops):
                byt = any(c.matches(BYTES_CALL) for c in s2.calls) or any(re.search(r'len_utf8$', f) for f in fn_consts(s2))
                ks = [const_int({'k': k}) for k in s2.consts if 'fn' not in k]
                incs.append('BYTES' if byt else ('CONST' if any(k for k in ks if k) else '?'))
        if incs:
            counters[l] = incs
    per_char_loop = bool(body.calls(CHARS_ITER)) and not body.calls(r'CharIndices')
    char_counters = [l for l, incs in counters.items() if all(i == 'CONST' for i in incs) and per_char_loop]
    enum_idx = any(c.matches(r'Enumerate<std::str::Chars') for c in sl.calls)
    has_chars = bool(char_counters) or any(c.matches(CHARS_CALL) and any(x.matches(r'str::<impl str>::chars$') for x in backslice(body, [c.args[0]]).calls) for c in sl.calls)
    if has_chars and not has_bytes:
        return 'CHARS', char_counters
    if has_bytes and not has_chars:
        return 'BYTES', []
    if has_chars and has_bytes:
        return 'MIXED', char_counters
    return None, []


def str_index_sinks(body):
    """(call, [range operands]) for str slicing `&s[a..b]` and String::truncate / split_at: need BYTES"""
    out = []
    for c in body.calls(r'str.*as std::ops::Index<std::ops::Range(From|To|Inclusive)?<usize>>>::index$|str::traits::<impl std::ops::Index<I> for str>::index$|String as std::ops::Index<.*>>::index$|str::<impl str>::(split_at|get)$|String::truncate$'):
        # find the Range aggregate feeding arg 1
        ops = []
        sl = backslice(body, [c.args[1]], follow_call=lambda x: [])
        for blk in body.blocks:
            for s in blk['stmts']:
                if s['p'][0] in sl.locals and s['rv']['k'] == 'agg' and 'Range' in s['rv'].get('adt', ''):
                    ops += s['rv']['ops']
        if not ops:
            ops = [c.args[1]]
        out.append((c, ops))
    return out


def chars_take_sinks(body):
    """(call, operand) for Chars::take/skip/nth(n): need CHARS"""
    out = []
    for c in body.calls(r'Iterator::(take|skip|nth|step_by)$'):
        tys = c.t.get('argtys') or ['']
        if 'Chars' in tys[0]:
            out.append((c, c.args[1]))
    return out

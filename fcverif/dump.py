"""Developer aid: print the MIR facts of one body in a compact form.
usage: python3 -m fcverif.dump <facts.json> <body path regex> [--full]"""
import sys, json, re
from .facts import load_unit


def pl(p, body=None):
    s = '_%d' % p[0]
    for e in p[1]:
        if e == '*':
            s = '(*%s)' % s
        elif isinstance(e, list) and e[0] == 'F':
            s += '.%s' % e[2]
        elif isinstance(e, list) and e[0] == 'D':
            s = '(%s as %s)' % (s, e[2])
        elif isinstance(e, list) and e[0] == 'I':
            s += '[_%d]' % e[1]
        else:
            s += '[%s]' % (e if isinstance(e, str) else e[0])
    return s


def op(o):
    if 'c' in o:
        return pl(o['c'])
    if 'm' in o:
        return 'move ' + pl(o['m'])
    k = o['k']
    if 'fn' in k:
        return 'fn:' + k['fn']
    return (k.get('v') or '?') + (('{' + k['item'] + '}') if 'item' in k else '')


def rv(r):
    k = r['k']
    if k == 'use':
        return op(r['op'])
    if k in ('ref', 'rawptr'):
        return ('&mut ' if r['mut'] else '&') + pl(r['p'])
    if k == 'cast':
        return '%s as %s [%s]' % (op(r['op']), r['ty'], r['ck'][:20])
    if k == 'bin':
        return '%s(%s, %s)' % (r['op'], op(r['a']), op(r['b']))
    if k == 'un':
        return '%s(%s)' % (r['op'], op(r['a']))
    if k == 'disc':
        return 'discriminant(%s)' % pl(r['p'])
    if k == 'agg':
        if r['ak'] == 'adt':
            return '%s::%s{%s}' % (r['adt'], r['variant'], ', '.join('%s: %s' % (f, op(o)) for f, o in zip(r['fields'], r['ops'])))
        if r['ak'] == 'closure':
            return 'closure %s [%s]' % (r['def'], ', '.join(op(o) for o in r['ops']))
        return '%s(%s)' % (r['ak'], ', '.join(op(o) for o in r['ops']))
    return k


def dump(b, full=False):
    print('fn %s  [%s %s:%d-%d] argc=%d upvars=%s' % (b.path, b.kind, b.file, b.lo, b.hi, b.argc, b.upvars))
    for i, l in enumerate(b.locals):
        if l['name'] or i <= b.argc or full:
            print('  let _%d: %s%s' % (i, l['ty'], ('  // ' + l['name']) if l['name'] else ''))
    for bi, blk in enumerate(b.blocks):
        if blk['cleanup'] and not full:
            continue
        print(' bb%d%s:' % (bi, ' (cleanup)' if blk['cleanup'] else ''))
        for s in blk['stmts']:
            print('    %s = %s   // L%d%s' % (pl(s['p']), rv(s['rv']), s['line'], ' exp' if s['exp'] else ''))
        t = blk['term']
        k = t['k']
        if k == 'call':
            f = t['f']
            name = f.get('path') or f.get('decl') or ('indirect ' + op(f['fop']))
            extra = ''
            if not f.get('res'):
                extra = ' [unresolved %s]' % f.get('ik')
            if f.get('self_closure'):
                extra += ' [closure %s]' % f['self_closure']
            print('    %s = %s(%s) -> bb%s%s   // L%d%s' % (pl(t['dest']), name, ', '.join(op(a) for a in t['args']), t['ret'], extra, t['line'], ' exp' if t['exp'] else ''))
        elif k == 'switch':
            print('    switch %s %s -> %s' % (op(t['op']), t['vals'], t['tgts']))
        elif k == 'drop':
            print('    drop %s [%s] -> bb%s' % (pl(t['p']), ','.join(t['glue']), t['ret']))
        elif k == 'goto':
            print('    goto bb%d' % t['t'])
        elif k == 'assert':
            print('    assert %s == %s (%s) -> bb%s' % (op(t['cond']), t['expected'], t['msg'][:30], t['ret']))
        else:
            print('    ' + k)


if __name__ == '__main__':
    u = load_unit(sys.argv[1])
    r = re.compile(sys.argv[2])
    for p, b in u.bodies.items():
        if r.search(p):
            dump(b, '--full' in sys.argv)

"""C05 - replacing a file is atomic w.r.t. crashes and I/O errors."""
import re
from . import register
from .common import ordered_chain, is_remove_call, err_handling, io_result
from ..analysis import (backslice, classify_result, switch_on_result_of, return_variants_from, dominated_region,
                        closure_creation, forward_locals, LOG_CALL, arm_reaches_call, result_tests, reachable_state,
                        must_pass_state, return_variants_state)
from ..facts import op_local, const_int, op_const

DOC = {
    'explanation': 'The guarantee is an ordering/pairing discipline, decided on the CFG of the functions that implement it: '
                   'safe_remove (rename-to-temp dominates the callback, the roll-back rename is on every error exit, the temp is removed only on '
                   'the success exit, the original path is never removed), the link primitives are only invoked from safe_remove callbacks, '
                   'move_copy/move_rename check-mkdir-copy-remove chains with every failure propagated, linux_reflink backup/overwrite/restore, '
                   'run_script counting only successes, error discipline over dedupe.rs/reflink.rs/lock.rs, and the temporary being a sibling.',
    'rules': {
        'C05.M': __import__('fcverif.rules.common', fromlist=['MANDATORY_TEXT']).MANDATORY_TEXT,
        'C05.R1': 'safe_remove: rename(path->tmp)? dominates the callback; every path from the callback\'s Err edge to a return passes rename(tmp->path) and returns Err; remove(tmp) only on the Ok edge; path itself is never removed',
        'C05.R2': 'FsCommand::symlink/hardlink are called only inside closures passed to safe_remove',
        'C05.R3': 'move_copy: check_can_rename? -> mkdirs? -> unsafe_copy? -> remove(source)?, each only after the previous succeeded; a failed copy and a failed removal of the source both remove the target that this call created, and return the error',
        'C05.R4': 'move_rename: check_can_rename? -> mkdirs? -> unsafe_rename?',
        'C05.R5': 'linux_reflink: the destination is opened for writing before anything is created (a failure there has nothing to undo); backup clone dominates the overwrite; backup failure returns Err without touching dest; overwrite failure passes a restore (the backup cloned back into the file, else rename(tmp->dest)) and returns Err; temp removed only on non-failing exits of the overwrite or after the in-place restore; reflink(): a failure to restore time stamps / xattrs after the clone is a warning',
        'C05.R6': 'run_script counts only successes: Result<FileLen> is turned into a count only through filter_map(Result::ok)',
        'C05.R7': 'error discipline: no io::Result in dedupe.rs/reflink.rs/lock.rs is discarded (named exceptions)',
        'C05.R8': 'the temporary is a sibling: temp_file derives from path.parent() and path.file_name(), has a random suffix, and its length is bounded (file-name part clamped so that name + suffix <= 255 bytes)',
        'C05.R12': 'a path that fclones refuses or fails to process keeps its content: the paths that lead to one stored file (hard links, reported symbolic links) are processed together or not at all - when check_preconditions refuses a command, dedupe() drops the other commands with the same file id, and when execute() fails, run_script skips the remaining commands of that file',
        'C05.R11': 'timestamps restored: reflink() remembers the time stamps of the parent directory, works in it and writes them back; the commands of different groups run in parallel, so that snapshot .. restore section is exclusive per directory (a lock taken before the snapshot and released after the restore), otherwise one command remembers or restores what another one has just changed',
        'C05.R10': 'no buffered writer (BufWriter/LineWriter, also inside another value) in dedupe.rs/reflink.rs/lock.rs/main.rs is dropped on a success path without a checked flush: its drop discards the error of the last write, after which the source would be removed (expected instances on this tree: 0; engine control in the fixture crate)',
        'C05.R9': 'the primitive wrappers are what their callers assume: remove = remove_file(path); unsafe_rename = rename(source, target); unsafe_copy = copy(source, target); hardlink = hard_link(target, link); symlink_internal = symlink(target, link); mkdirs = create_dir_all(path); each is the only mutating primitive in its wrapper and its error is returned',
    },
    'not_decided': 'atomicity of rename(2)/link(2) themselves; double faults beyond "roll-back failure is logged"; what a kill between two syscalls leaves on a real file system',
    'assumptions': ['std::fs::rename / hard_link / symlink are atomic with respect to crashes'],
}

SR = 'dedupe::FsCommand::safe_remove'


@register('C05', DOC)
def run(ctx):
    lib = ctx.lib
    r1(ctx, lib)
    r2(ctx, lib)
    r34(ctx, lib)
    r5(ctx, lib)
    r6(ctx, lib)
    r7(ctx, lib)
    r8(ctx, lib)
    r8b(ctx, lib)
    r8c(ctx, lib)
    r9(ctx, lib)
    r10(ctx, lib)
    r11(ctx, lib)
    r12(ctx, lib)
    from .common import run_mandatory
    run_mandatory(ctx, 'C05')
    if ctx.tier == 'thorough' and not getattr(ctx, 'sibling', None):
        from .. import sweep
        sweep.error_discipline(ctx, 'C05.R7', skip_files=('walk.rs', 'file.rs', 'hasher.rs', 'group.rs', 'transform.rs', 'cache.rs', 'device.rs'))


def role(body, op, tmp_rx=r'FsCommand::temp_file$'):
    sl = backslice(body, [op])
    if sl.has_call(tmp_rx):
        return 'tmp', sl
    return 'p%s' % ','.join(str(p) for p in sorted(sl.params)), sl


def r1(ctx, lib):
    rule = 'C05.R1'
    b = ctx.need_body(rule, SR)
    if b is None:
        return
    from ..desugar import desugared
    b = desugared(lib, b)          # the roll-back may be written as `f(path).map_err(|e| { rename back; e })`
    renames = b.calls(r'FsCommand::unsafe_rename$|^std::fs::rename$')
    fwd, back = [], []
    for c in renames:
        r0, _ = role(b, c.args[0])
        r1_, _ = role(b, c.args[1])
        if r0 == 'p1' and r1_ == 'tmp':
            fwd.append(c)
        elif r0 == 'tmp' and r1_ == 'p1':
            back.append(c)
        else:
            ctx.violation(rule, SR + '|rename-roles', c.where(), 'rename with unexpected operand roles (%s -> %s)' % (r0, r1_))
    cbs = [c for c in b.calls() if not c.f.get('res') and (c.f.get('method') in ('call_once', 'call', 'call_mut')) and 2 in backslice(b, [c.args[0]]).params]
    if not fwd:
        ctx.missing(rule, 'rename(path -> tmp) in safe_remove', b.where())
        return
    if not cbs:
        ctx.missing(rule, 'callback invocation in safe_remove', b.where())
        return
    cb = cbs[0]
    # callback receives the original path
    ra, _ = role(b, cb.args[1])
    ctx.check(ra == 'p1', rule, SR + '|callback-arg', cb.where(), 'callback is applied to the original path', 'callback is applied to %s, not to the original path' % ra)
    # (a)
    f = fwd[0]
    sw = switch_on_result_of(b, f)
    a_ok = sw is not None and any(b.dominates(o, cb.bb) for o in sw['ok']) and all('Ok' not in return_variants_from(b, e) for e in sw['err'])
    ctx.check(a_ok, rule, SR + '|a:rename-before-callback', f.where(), 'rename(path->tmp)? dominates the callback; its failure returns Err',
              'the callback is not dominated by a successful rename(path->tmp) (or the rename failure is not propagated)')
    # (b) - the callback's result may be tested several times (match, `?`, is_err ...): the path rules
    # below resolve all tests of that one value consistently ("state" = Ok / Err)
    tests = result_tests(b, cb)
    if not tests or cb.ret is None:
        ctx.violation(rule, SR + '|b:rollback', cb.where(), 'the callback result is never tested: no roll-back edge found')
        return
    back_bbs = {c.bb for c in back}
    okp, off = must_pass_state(b, cb.ret, tests, 'err', back_bbs)
    ctx.check(okp, rule, SR + '|b:rollback', cb.where(), 'every path on which the callback failed passes rename(tmp->path) before returning',
              'a path on which the callback failed reaches the return at bb%s (line %s) without rename(tmp->path)' % (off, b.blocks[off]['term']['line'] if off is not None else '?'))
    rv = return_variants_state(b, cb.ret, tests, 'err', subject=cb.dest[0])
    ctx.check('Ok' not in rv and 'Err' in rv, rule, SR + '|b:err-returned', cb.where(), 'a failed callback returns Err', 'a failed callback can return %s' % sorted(rv))
    # (e) once the original has been renamed away, no exit leaves it stranded
    if sw is not None:
        for o in sw['ok']:
            early = set(b.return_blocks()) & b.reachable(o, avoid=[cb.bb])
            ctx.check(not early, rule, SR + '|e:no-stranded-exit', f.where(), 'after rename(path->tmp) nothing returns before the callback has run (and a failed callback rolls back, clause b)',
                      'a path returns (bb%s, line %s) after rename(path->tmp) without restoring the original and without the callback having run'
                      % (sorted(early)[0] if early else '?', b.blocks[sorted(early)[0]]['term']['line'] if early else '?'))
    # roll-back failure is logged
    for c in back:
        cat, det = err_handling(b, c)
        ctx.check(cat in ('LOGGED', 'PROPAGATED', 'ERR-RETURNED'), rule, SR + '|b:rollback-failure-logged', c.where(), 'roll-back failure is %s' % cat, 'roll-back failure is %s %s' % (cat, det))
        # the roll-back runs only when the callback failed
        ctx.check(c.bb not in reachable_state(b, cb.ret, tests, 'ok'), rule, SR + '|b:rollback-only-on-failure', c.where(), 'rename(tmp->path) is not reachable when the callback succeeded', 'the roll-back can run although the callback succeeded')
    # (c),(d)
    err_reach = reachable_state(b, cb.ret, tests, 'err')
    n_rm = 0
    for c in b.calls():
        ai = is_remove_call(lib, c)
        if ai is None:
            continue
        arg = c.args[ai] if isinstance(ai, int) else c.args[1]
        r, _ = role(b, arg)
        if r == 'tmp':
            n_rm += 1
            good = c.bb not in err_reach and cb.bb in b.dominators()[c.bb]
            ctx.check(good, rule, SR + '|c:remove-tmp-only-on-success', c.where(), 'remove(tmp) is reachable only when the callback succeeded',
                      'remove(tmp) is reachable without the callback having succeeded')
        else:
            ctx.violation(rule, SR + '|d:remove-original', c.where(), 'safe_remove removes a path that is not the temporary (role %s)' % r)
    if n_rm == 0:
        ctx.note(rule, b.where(), 'no remove(tmp) found: the temporary is never cleaned up (not a C05 violation)')
    # nothing else mutates: every other local call that may mutate must be one of the above
    ctx.stats['C05.R1:renames fwd/back'] = '%d/%d' % (len(fwd), len(back))


def r2(ctx, lib):
    rule = 'C05.R2'
    n = 0
    for b in lib.bodies.values():
        if '::test::' in b.path or b.path.endswith('::test'):
            continue
        for c in b.calls(r'dedupe::FsCommand::(symlink|hardlink)$'):
            n += 1
            ctx.fn(b)
            key = '%s|%s' % (b.path, c.path.rsplit('::', 1)[-1])
            good = False
            why = 'caller is not a closure'
            if b.kind == 'closure':
                cc = closure_creation(lib, b.path)
                if cc:
                    parent, bi, s = cc
                    fl = forward_locals(parent, s['p'][0])
                    for sc in parent.calls(r'FsCommand::safe_remove$'):
                        if op_local(sc.args[1]) in fl:
                            good = True
                    why = 'the enclosing closure is not passed to safe_remove'
                # link is created at the closure's parameter (the original path handed in by safe_remove)
                if good:
                    sl = backslice(b, [c.args[1]])
                    if 2 not in sl.params:
                        good = False
                        why = 'the link is not created at the path handed in by safe_remove'
            ctx.check(good, rule, key, c.where(), 'called inside a safe_remove callback, on the callback\'s path argument', why)
    ctx.floor(rule, 'symlink/hardlink call sites', n, 2)
    # symlink_internal only from symlink
    for b in lib.bodies.values():
        for c in b.calls(r'FsCommand::symlink_internal$'):
            ctx.check(b.path == 'dedupe::FsCommand::symlink', rule, '%s|symlink_internal' % b.path, c.where(), 'symlink_internal called from symlink only', 'symlink_internal called outside FsCommand::symlink')


def r34(ctx, lib):
    mc = ctx.need_body('C05.R3', 'dedupe::FsCommand::move_copy')
    if mc is not None:
        from ..desugar import desugared
        mc = desugared(lib, mc)      # `copy().and_then(|_| remove(source)).map_err(|e| remove_copy(target, e))` is the same chain of matches
    if mc is not None:
        from ..analysis import result_tests, reachable_state
        calls = ordered_chain(ctx, 'C05.R3', mc, [('check_can_rename', r'FsCommand::check_can_rename$'), ('mkdirs', r'FsCommand::mkdirs$'),
                                                   ('unsafe_copy', r'FsCommand::unsafe_copy$|^std::fs::copy$')], mc.path, last_may_be_matched=True) if 'last_may_be_matched' in ordered_chain.__code__.co_varnames else None
        if calls is None:
            chain = []
            for label, rx in (('check_can_rename', r'FsCommand::check_can_rename$'), ('mkdirs', r'FsCommand::mkdirs$'), ('unsafe_copy', r'FsCommand::unsafe_copy$|^std::fs::copy$')):
                cs = mc.calls(rx)
                if not cs:
                    ctx.missing('C05.R3', '%s in %s' % (label, mc.path), mc.where())
                    chain = None
                    break
                chain.append(cs[0])
            calls = chain
            if calls:
                # each step only after the previous one succeeded; the failures of the first two are propagated
                prev = None
                for label, c in zip(('check_can_rename', 'mkdirs', 'unsafe_copy'), calls):
                    if prev is not None:
                        pt_ = result_tests(mc, prev)
                        ctx.check(bool(pt_) and c.bb not in reachable_state(mc, 0, pt_, 'err'), 'C05.R3', mc.path + '|' + label + '-after-previous', c.where(), '%s runs only after the previous step succeeded' % label,
                                  '%s can run although the previous step failed' % label)
                    cat, det = err_handling(mc, c)
                    ctx.check(cat in ('PROPAGATED', 'RETURNED', 'ERR-RETURNED'), 'C05.R3', mc.path + '|' + label, c.where(), '%s: error returned' % label, '%s: result not propagated (%s %s)' % (label, cat, det))
                    prev = c
        if calls:
            chk, mk, cp = calls
            ok = 1 in backslice(mc, [cp.args[0]]).params and 2 in backslice(mc, [cp.args[1]]).params and 2 not in backslice(mc, [cp.args[0]]).params
            ctx.check(ok, 'C05.R3', mc.path + '|copy-direction', cp.where(), 'copy(source -> target)', 'copy operands are not (source, target)')
            ct = result_tests(mc, cp)
            err_region = reachable_state(mc, 0, ct, 'err') if ct else set()
            ok_region = reachable_state(mc, 0, ct, 'ok') if ct else set()
            from .common import remove_sites
            sites = remove_sites(lib, mc)
            rms = [r for r, _ in sites]
            src_rm = [r for r, ps in sites if ps == {1}]
            tgt_rm = [r for r, ps in sites if ps == {2}]
            other = [r for r, ps in sites if ps != {1} and ps != {2}]
            ctx.check(len(src_rm) == 1 and not other, 'C05.R3', mc.path + '|single-remove', (rms[0].where() if rms else mc.where()), 'exactly one remove of the source (plus %d clean-up remove(s) of the target)' % len(tgt_rm),
                      '%d removes of the source, %d of something else' % (len(src_rm), len(other)))
            if src_rm:
                rm = src_rm[0]
                ctx.check(bool(ct) and rm.bb not in err_region and rm.bb in ok_region, 'C05.R3', mc.path + '|remove-source', rm.where(), 'remove(source) only after the copy succeeded',
                          'the source can be removed although the copy failed')
                cat, det = err_handling(mc, rm)
                ctx.check(cat in ('PROPAGATED', 'RETURNED', 'ERR-RETURNED'), 'C05.R3', mc.path + '|remove', rm.where(), 'remove: error returned', 'remove: result not propagated (%s %s)' % (cat, det))
            # a failed remove(source) leaves the file where it was: the move has failed, and the copy that this call created must not stay
            rt = result_tests(mc, src_rm[0]) if src_rm else []
            rm_err = reachable_state(mc, 0, rt, 'err') if rt else set()
            rm_ok = reachable_state(mc, 0, rt, 'ok') if rt else set()
            if src_rm:
                from ..analysis import return_variants_state
                # (one clean-up site may serve both failures - `copy().and_then(remove).map_err(clean up)`: what counts is that it is
                # reached when the removal failed and never when both the copy and the removal succeeded)
                all_ok = reachable_state(mc, 0, dict(list(ct.items()) + list(rt.items())), 'ok') if (ct and rt) else set()
                after_rm_err = set()
                for t_ in rt.values():
                    after_rm_err |= reachable_state(mc, t_['err'], rt, 'err')       # what can follow the FAILURE of remove(source)
                cleans = [r for r in tgt_rm if r.bb in after_rm_err and (r.bb not in rm_ok or r.bb not in all_ok)]
                rvs = return_variants_state(mc, src_rm[0].bb, rt, 'err') if rt else set()
                ctx.check(bool(cleans) and 'Ok' not in rvs, 'C05.R3', mc.path + '|failed-remove-cleans-target', src_rm[0].where(), 'when remove(source) fails the fresh copy is removed again and the error is returned',
                          'when remove(source) fails (directory not writable, append-only, sticky) the error is returned but the complete copy made a moment ago stays under the target directory: the command '
                          'is reported as failed and not counted, yet the data now exist twice, and every later run refuses the file with "Target already exists"')
            for r in tgt_rm:
                # removing the target is legitimate only as the clean-up of a failed copy or of a failed removal of the source, and the failure is still returned
                from ..analysis import return_variants_state
                if r.bb in rm_err and r.bb not in rm_ok:
                    continue
                both_ok = reachable_state(mc, 0, dict(list(ct.items()) + list(rt.items())), 'ok') if (ct and rt) else ok_region
                only_err = r.bb in err_region and (r.bb not in ok_region or (r.bb in rm_err and r.bb not in both_ok))
                rv = return_variants_state(mc, r.bb, ct, 'err') if ct else set()
                ctx.check(only_err and 'Ok' not in rv, 'C05.R3', mc.path + '|target-cleanup', r.where(), 'the target is removed only after the copy failed, and the error is returned',
                          'the target of the move can be removed %s' % ('on the success path of the copy' if not only_err else 'and the failure is then reported as success'))
            # pairs of failures: when the clean-up of the target fails too, an incomplete (or second, complete) file stays under DIR - the user is told
            quiet = []
            for r in tgt_rm:
                if r.matches(r'FsCommand::remove$|^std::fs::remove_file$'):
                    xs = [(mc, r)]
                else:
                    hb = lib.body(r.path)
                    xs = [(hb, k) for k in hb.calls(r'FsCommand::remove$|^std::fs::remove_file$')] if hb is not None else []
                for x, k in xs:
                    cat, det = err_handling(x, k)
                    if cat in ('DISCARDED', 'IGNORED', 'DROPPED'):
                        quiet.append(k)
            ctx.check(bool(tgt_rm) and not quiet, 'C05.R3', mc.path + '|failed-cleanup-reported', (quiet[0].where() if quiet else (tgt_rm[0].where() if tgt_rm else mc.where())),
                      'when removing the copy fails as well, that is part of the reported error',
                      'the result of removing the incomplete copy is dropped (`let _ = fs::remove_file(target)`): when the copy fails and its removal fails too, a partial file stays under DIR at the place '
                      'of the moved one and nothing is said about it - the sibling safe_remove logs "Failed to undo move ..." in the same situation; later runs refuse the file with "Target already exists"')
            sl = backslice(mc, [mk.args[0]])
            ctx.check(2 in sl.params and 1 not in sl.params, 'C05.R3', mc.path + '|mkdirs-target', mk.where(), 'mkdirs(target.parent())', 'mkdirs not applied to the target\'s parent')
    mr = ctx.need_body('C05.R4', 'dedupe::FsCommand::move_rename')
    if mr is not None:
        calls = ordered_chain(ctx, 'C05.R4', mr, [('check_can_rename', r'FsCommand::check_can_rename$'), ('mkdirs', r'FsCommand::mkdirs$'),
                                                   ('unsafe_rename', r'FsCommand::unsafe_rename$|^std::fs::rename$')], mr.path)
        if calls:
            rn = calls[2]
            ok = backslice(mr, [rn.args[0]]).params == {1} and backslice(mr, [rn.args[1]]).params == {2}
            ctx.check(ok, 'C05.R4', mr.path + '|rename-direction', rn.where(), 'rename(source -> target)', 'rename operands are not (source, target)')
            nrm = [c for c in mr.calls() if is_remove_call(lib, c) is not None]
            ctx.check(not nrm, 'C05.R4', mr.path + '|no-remove', mr.where(), 'move_rename removes nothing', 'move_rename removes a file')


def r5(ctx, lib):
    rule = 'C05.R5'
    b = ctx.need_body(rule, 'reflink::linux_reflink')
    if b is None:
        return
    P = b.path

    def role5(op):
        sl = backslice(b, [op])
        if sl.has_call(r'FsCommand::temp_file$'):
            return 'tmp'
        if sl.params == {2}:
            return 'dest'
        if sl.params == {1}:
            return 'src'
        return 'p%s' % sorted(sl.params)
    ovs = b.calls(r'reflink::reflink_overwrite$|reflink::reflink_into$')
    backup = [c for c in ovs if role5(c.args[0]) == 'dest' and role5(c.args[1]) == 'tmp']
    over = [c for c in ovs if role5(c.args[0]) == 'src' and role5(c.args[1]) == 'dest']
    # putting the backup back INTO the file (same inode, mode, owner, links) is the better undo; the rename of the backup over the file is the last resort
    unclone = [c for c in ovs if role5(c.args[0]) == 'tmp' and role5(c.args[1]) == 'dest']
    other = [c for c in ovs if c not in backup and c not in over and c not in unclone]
    for c in other:
        ctx.violation(rule, P + '|overwrite-roles', c.where(), 'reflink_overwrite(%s -> %s): unexpected roles' % (role5(c.args[0]), role5(c.args[1])))
    if not backup or not over:
        ctx.missing(rule, 'backup clone / overwrite pair in linux_reflink (found %d/%d)' % (len(backup), len(over)), b.where())
        return
    bk, ov = backup[0], over[0]
    # the file to be overwritten is opened for writing BEFORE the backup is made: when that open fails (read-only file of another user, immutable file,
    # a program being executed: the lock step lets these through since D41/D52) nothing has been created and nothing is undone
    wopen = [c for c in b.calls(r'OpenOptions::open$') if role5(c.args[-1]) == 'dest']
    early = [c for c in wopen if b.dominates(c.bb, bk.bb)]
    ecat = err_handling(b, early[0])[0] if early else None
    ctx.check(bool(early) and ecat in ('PROPAGATED', 'RETURNED', 'ERR-RETURNED'), rule, P + '|dest-writable-before-backup', (early[0].where() if early else bk.where()),
              'the destination is opened for writing before the backup is made, and a failure of that open is returned with nothing to undo',
              'the backup clone needs only read access to the duplicate; that the duplicate cannot be opened for writing is noticed after the backup exists, and the "roll-back" then renames the backup - '
              'a new inode with mode 0666&~umask, the current time, no xattrs, one link - over the untouched original: a program being executed loses its x bit and its hard links although '
              '"Processed 0 files"; for an immutable file the rename fails too and the backup stays behind')
    swb = switch_on_result_of(b, bk)
    ok = swb is not None and any(b.dominates(o, ov.bb) for o in swb['ok'])
    ctx.check(ok, rule, P + '|backup-before-overwrite', bk.where(), 'the backup clone (dest->tmp) succeeded on every path to the overwrite', 'the overwrite of dest is not dominated by a successful backup clone')
    restore = [c for c in b.calls(r'FsCommand::unsafe_rename$|^std::fs::rename$') if role5(c.args[0]) == 'tmp' and role5(c.args[1]) == 'dest']
    wrong = [c for c in b.calls(r'FsCommand::unsafe_rename$|^std::fs::rename$') if c not in restore]
    for c in wrong:
        ctx.violation(rule, P + '|rename-roles', c.where(), 'rename(%s -> %s): unexpected roles' % (role5(c.args[0]), role5(c.args[1])))
    if swb is not None:
        for e in swb['err']:
            reach = b.reachable(e)
            touched = [c for c in ovs + restore if c.bb in reach and c is not bk]
            rv = return_variants_from(b, e)
            ctx.check(not touched and 'Ok' not in rv and 'Err' in rv, rule, P + '|backup-failure', bk.where(), 'backup failure returns Err without touching dest',
                      'backup failure: touches dest=%s, returns %s' % (bool(touched), sorted(rv)))
    swo = switch_on_result_of(b, ov)
    if swo is None or not swo['err']:
        ctx.violation(rule, P + '|overwrite-failure', ov.where(), 'the overwrite result is not matched: no restore edge')
        return
    rbbs = {c.bb for c in restore} | {c.bb for c in unclone}
    err_reach = set()
    for e in swo['err']:
        err_reach |= b.reachable(e)
        okp, off = b.must_pass(e, lambda x: x in rbbs)
        ctx.check(okp, rule, P + '|overwrite-failure-restores', ov.where(), 'every path from the overwrite\'s Err edge to a return passes a restore (clone tmp->dest into the file, or rename(tmp->dest))',
                  'a path from the overwrite\'s Err edge returns (bb%s) without restoring dest from the backup' % off)
        rv = return_variants_from(b, e)
        ctx.check('Ok' not in rv and 'Err' in rv, rule, P + '|overwrite-failure-returns-err', ov.where(), 'overwrite failure returns Err', 'overwrite failure can return %s' % sorted(rv))
    # putting the data back (a clone into the file, or the rename of the backup) gives the file a new modification time: the file was NOT processed,
    # so on every path from the overwrite's Err edge to the return its time stamps are put back too
    tsr = [c for c in b.calls(r'reflink::restore_metadata$') if role5(c.args[0]) == 'dest']
    for e in swo['err']:
        okt, offt = b.must_pass(e, lambda x: x in {c.bb for c in tsr})
        ctx.check(bool(tsr) and okt, rule, P + '|failed-clone-keeps-the-timestamps', (tsr[0].where() if tsr else ov.where()), 'after a failed overwrite the time stamps of the destination are restored on every path to the return',
                  'when the clone of the retained file into the duplicate fails (EINVAL for a NOCOW/COW mix, EXDEV between bind mounts, EPERM, ENOSPC, EIO) the data are put back by a second clone - '
                  'which sets mtime to now - and the error is returned before reflink() gets to restore_metadata: "Processed 0 files", the bytes are intact, but the unprocessed file has a new '
                  'modification time, and every later run with the same report refuses its group ("was updated after ..."): a transient failure makes the report unusable for the files that need the retry')
    for c in restore:
        cat, det = err_handling(b, c)
        ctx.check(cat in ('LOGGED', 'PROPAGATED', 'ERR-RETURNED'), rule, P + '|restore-failure-logged', c.where(), 'restore failure is %s' % cat, 'restore failure is %s %s' % (cat, det))
        ctx.check(c.bb in err_reach, rule, P + '|restore-only-on-failure', c.where(), 'rename(tmp->dest) only on the overwrite\'s Err edge', 'rename(tmp->dest) can run although the overwrite succeeded')
    for c in b.calls():
        ai = is_remove_call(lib, c)
        if ai is None:
            continue
        arg = c.args[ai] if isinstance(ai, int) else c.args[1]
        r = role5(arg)
        if r == 'tmp':
            # must not run before the overwrite has been attempted unless the backup failed; never on the overwrite's Err edge
            restored_in_place = False
            for uc in unclone:
                swu = switch_on_result_of(b, uc)
                if swu is not None and any(b.dominates(o, c.bb) for o in swu['ok']):
                    restored_in_place = True
            good = c.bb not in err_reach or restored_in_place
            after_ok = any(b.dominates(o, c.bb) for o in swo['ok']) or restored_in_place
            on_backup_fail = swb is not None and any(b.dominates(e, c.bb) for e in swb['err'])
            ctx.check(good and (after_ok or on_backup_fail), rule, P + '|temp-removal', c.where(),
                      'temp removed only after a successful overwrite, after a successful restore into the file, or after a failed backup',
                      'temp (the only backup) can be removed on a path where the overwrite failed or has not happened yet')
        else:
            ctx.violation(rule, P + '|removes-non-temp', c.where(), 'linux_reflink removes %s' % r)
    # FICLONE shares [0, size of source) and leaves a longer destination its tail: "completely replaced by a clone of identical bytes" needs the length as
    # well (the lengths differ when the size check is off: reports made with --transform)
    ri = lib.body('reflink::reflink_into')
    if ri is not None:
        io_ = ri.calls(r'^libc::ioctl$')
        sl_ = [c for c in ri.calls(r'^std::fs::File::set_len$') if backslice(ri, [c.args[0]]).params == {2}]
        ok_len = False
        if io_ and sl_:
            # every path from the ioctl to a return of Ok passes set_len (the failure side of the ioctl returns Err)
            ok_len = all(('Ok' not in return_variants_from(ri, x)) or ri.must_pass(x, lambda y: y in {c.bb for c in sl_})[0] for x in ri.succs(io_[0].bb)) and \
                any(backslice(ri, [c.args[1]]).has_call(r'Metadata::len$') for c in sl_)
            if not ok_len:
                # the Ok value may BE the result of set_len (tail call): then no Ok aggregate exists outside it
                oks = [bi for bi, blk in enumerate(ri.blocks) for st in blk['stmts'] if st['p'][0] == 0 and st['rv']['k'] == 'agg' and st['rv'].get('variant') == 'Ok']
                ok_len = not oks and any(c.dest[0] == 0 for c in sl_) and any(backslice(ri, [c.args[1]]).has_call(r'Metadata::len$') for c in sl_)
        ctx.check(ok_len, rule, ri.path + '|clone-sets-the-length', (sl_[0].where() if sl_ else (io_[0].where() if io_ else ri.where())), 'after the clone the destination is given the length of the source',
                  'FICLONE shares the data of the source from the beginning of the destination and leaves a LONGER destination what it had beyond that; the size check that makes the lengths equal is '
                  'switched off for reports made with --transform: `group --transform "head -c 3"` + `dedupe` turns t/b ("abcLONGER-TAIL-DATA") into "abcSHORTR-TAIL-DATA" - neither its old content nor a '
                  'clone of t/a ("abcSHORT"), and "Processed 1 files"')
    # reflink(): linux_reflink result propagated before restore_metadata
    rf = ctx.need_body(rule, 'reflink::reflink')
    if rf is not None:
        for p in [rf.path] + lib.closures_of(rf.path):
            bb_ = lib.body(p)
            lr = bb_.calls(r'reflink::linux_reflink$')
            if lr:
                cat, det = err_handling(bb_, lr[0])
                ctx.check(cat in ('PROPAGATED', 'RETURNED', 'ERR-RETURNED'), rule, p + '|linux_reflink-result', lr[0].where(), 'linux_reflink failure is %s' % cat, 'linux_reflink failure is %s %s' % (cat, det))
                # after the clone succeeded there is nothing left to undo (the backup is gone): what follows - putting the time stamps, owner,
                # extended attributes back - may fail (utimensat needs ownership, FICLONE only write access) without making the command a failure
                for k in bb_.calls(r'reflink::restore_(metadata|xattrs)$'):
                    if not (bb_.dominates(lr[0].bb, k.bb) or any(bb_.dominates(x.bb, k.bb) for x in bb_.calls(r'reflink::safe_reflink$'))):
                        continue
                    kcat, kdet = err_handling(bb_, k)
                    passed_to_logger = False
                    carriers = forward_locals(bb_, k.dest[0]) | {k.dest[0]}
                    for _ in range(3):      # ... through the argument tuple of a closure call
                        for blk_ in bb_.blocks:
                            for st_ in blk_['stmts']:
                                if st_['rv']['k'] == 'agg' and any(op_local(o) in carriers for o in st_['rv']['ops']):
                                    carriers |= forward_locals(bb_, st_['p'][0]) | {st_['p'][0]}
                    for a_user in bb_.calls():
                        if a_user is not k and any(op_local(a) in carriers for a in a_user.args):
                            cb = lib.body(a_user.path) if a_user.path else None
                            if cb is None:
                                l0 = op_local(a_user.args[0]) if a_user.args else None
                                cp = lib.closure_of_type(bb_.local_ty(l0)) if l0 is not None else None
                                cb = lib.body(cp) if cp else None
                            if cb is not None and arm_reaches_call(cb, 0, LOG_CALL) and 'Err' not in return_variants_from(cb, 0):
                                passed_to_logger = True
                    ctx.check(kcat == 'LOGGED' or passed_to_logger, rule, p + '|after-the-clone|' + k.path.rsplit('::', 1)[-1], k.where(), 'a failure to restore metadata after the clone is a warning (%s)' % ('logged by a helper' if passed_to_logger else kcat),
                              'the result of %s becomes the result of the whole command although the clone has been made and the backup removed: the file IS deduplicated (and has a new mtime), '
                              'but it is reported as failed and not counted - every user who deduplicates group-writable files of somebody else gets this (utimensat: EPERM)' % k.path.rsplit('::', 1)[-1])


def r6(ctx, lib):
    rule = 'C05.R6'
    rs = ctx.need_body(rule, 'dedupe::run_script')
    if rs is None:
        return
    cls = [lib.body(p) for p in lib.closures_of(rs.path)]
    # closure -> adaptor it is handed to
    adaptor = {}
    for c in rs.calls():
        for a in c.args[1:]:
            l = op_local(a)
            if l is not None:
                m = re.search(r'\{closure@', rs.local_ty(l))
                if m:
                    # which closure? match by type string
                    for cb in cls:
                        cc = closure_creation(lib, cb.path)
                        if cc and cc[2]['p'][0] in (l,) or (cc and l in forward_locals(rs, cc[2]['p'][0])):
                            adaptor[cb.path] = c
    counted = []
    for cb in cls:
        for blk in cb.blocks:
            for s in blk['stmts']:
                rv = s['rv']
                if rv['k'] == 'agg' and rv.get('adt') == 'dedupe::DedupeResult':
                    counted.append((cb, s))
    if not ctx.floor(rule, 'DedupeResult construction in run_script closures', len(counted), 1, rs.where()):
        return
    for cb, s in counted:
        ptys = [cb.local_ty(i) for i in range(2, cb.argc + 1)]
        noresult = not any('Result<' in t for t in ptys)
        ctx.check(noresult, rule, cb.path + '|counts-successes', cb.where(s['line']), 'the counting closure receives %s (no Result)' % ptys, 'the counting closure receives a Result: failures are counted')
    res_closures = [cb for cb in cls if any('Result<file::FileLen' in cb.local_ty(i) for i in range(2, cb.argc + 1))]
    n = 0
    for cb in res_closures:
        ad = adaptor.get(cb.path)
        name = (ad.f.get('method') or ad.path.rsplit('::', 1)[-1]) if ad else '?'
        if name == 'inspect':
            continue
        n += 1
        oks = cb.calls(r'Result(::)?<.*>::ok$')
        other = [c for c in cb.calls() if not c.matches(r'Result(::)?<.*>::ok$')]
        good = name == 'filter_map' and len(oks) == 1 and not other and oks[0].dest[0] == 0
        ctx.check(good, rule, cb.path + '|result-to-option', cb.where(), 'Result<FileLen> -> filter_map(Result::ok)',
                  'Result<FileLen> is consumed by `%s` with %s' % (name, [c.path for c in cb.calls()]))
    ctx.floor(rule, 'closures consuming Result<FileLen>', n, 1, rs.where())
    # failures are logged
    logged = any(arm_reaches_call(cb, 0, LOG_CALL) for cb in res_closures if adaptor.get(cb.path) is not None and (adaptor[cb.path].f.get('method') == 'inspect'))
    ctx.check(logged, rule, rs.path + '|failures-logged', rs.where(), 'failures are logged in an inspect() stage', 'no stage logs the failures')


EXCEPTIONS_R7 = {
    # (body path, callee regex): reason
    ('<lock::FileLock as std::ops::Drop>::drop', r'fcntl_unlock$'): 'unlock in Drop: nothing can be done about a failure, the descriptor is closed right after',
    ('dedupe::FsCommand::check_can_rename', r'symlink_metadata$'): 'existence probe: `is_ok()` of the lstat *is* the answer (any failure = nothing there to overwrite; the following rename/copy reports real errors)',
    ('dedupe::FsCommand::maybe_lock', r'FileLock::new$'): 'only ErrorKind::Unsupported is turned into Ok(None), every other error is returned (decided by C20.R2)',
    ('dedupe::FsCommand::execute', r'FsCommand::move_rename$'): 'documented fall-back: a failed rename falls through to move_copy, which reports its own error',
    ('dedupe::partition::{closure}', r'FileMetadata::new$'): 'identity of a directory entry (parent id + name): when the parent cannot be stat-ed the entry gets the identity None, which it shares with every other such entry, so it counts as an alias and is retained - the safe direction',
    ('dedupe::FsCommand::move_copy', r'^std::fs::remove_file$'): 'clean-up of the target this call created, after unsafe_copy or remove(source) failed; that error itself is returned (decided by C05.R3 target-cleanup / failed-remove-cleans-target)',
}


def r7(ctx, lib):
    rule = 'C05.R7'
    n = 0
    for b in lib.bodies.values():
        if not b.file.endswith(('dedupe.rs', 'reflink.rs', 'lock.rs')) or '::test' in b.path or b.kind in ('const', 'static', 'promoted') or b.derived:
            continue
        for c in b.calls():
            if c.exp and not c.f.get('local'):
                continue
            if not io_result(c):
                continue
            if c.matches(r'Result(::)?<.*>::|as std::ops::Try>::|FromResidual|std::convert::|Iterator|::map_err$|::and_then$|Option(::)?<.*>::|std::io::Error::|Write>::write|fmt::'):
                continue
            n += 1
            cat, det = err_handling(b, c)
            key = '%s|%s' % (b.path, (c.path or c.decl))
            if cat in ('DISCARDED', 'PANICS', 'HANDLED-ARM'):
                exc = [why for (bp, rx), why in EXCEPTIONS_R7.items() if (bp == b.path or (bp.endswith('::{closure}') and re.sub(r'\{closure#\d+\}$', '{closure}', b.path) == bp)) and re.search(rx, c.path)]
                if exc:
                    ctx.ok(rule, key, c.where(), '%s - named exception: %s' % (cat, exc[0]))
                else:
                    ctx.violation(rule, key, c.where(), 'io::Result is %s %s' % (cat, det))
            else:
                ctx.ok(rule, key, c.where(), cat)
            ctx.fn(b)
    ctx.floor(rule, 'io::Result producing call sites in dedupe.rs/reflink.rs/lock.rs', n, 40)


def r8(ctx, lib):
    rule = 'C05.R8'
    b = ctx.need_body(rule, 'dedupe::FsCommand::temp_file')
    if b is None:
        return
    sl = backslice(b, [0])
    par = [c for c in sl.calls if c.matches(r'path::Path::parent$')]
    fn_ = [c for c in sl.calls if c.matches(r'path::Path::file_name$')]
    jn = [c for c in sl.calls if c.matches(r'path::Path::join$')]
    good = par and fn_ and jn and all(backslice(b, [c.args[0]]).params == {1} for c in par + fn_)
    # the joined base is the parent, the joined component derives from the file name
    if good:
        j = jn[0]
        base = backslice(b, [j.args[0]])
        comp = backslice(b, [j.args[1]])
        good = base.has_call(r'path::Path::parent$') and comp.has_call(r'path::Path::file_name$') and not comp.has_call(r'path::Path::parent$')
    ctx.check(bool(good), rule, b.path, b.where(), 'temp = path.parent().join(path.file_name() + random suffix)', 'temp_file does not derive from path.parent() joined with path.file_name()')
    # random suffix present
    rnd = sl.has_call(r'rand::|uuid::')
    ctx.check(rnd, rule, b.path + '|random', b.where(), 'random suffix', 'no random component in the temporary name')
    # the name stays within NAME_MAX: the file-name part is clamped before the suffix is appended
    from ..analysis import slice_const_values
    clamps = [c for c in sl.calls if c.matches(r'^std::cmp::min$|Ord::min$|::truncate$') or (c.matches(r'Iterator::take$') and not backslice(b, [c.args[0]]).has_call(r'rand::|uuid::'))]
    # the clamp is the constant handed to min() itself; only when there is none, a constant its operands are computed from
    direct = [k for c in clamps for k in [const_int(a) for a in c.args] if k is not None and 16 < k < 256]
    def copied_const(a):
        """a constant that reaches the operand by plain copies (no arithmetic, no call on the way)"""
        sl_ = backslice(b, [a])
        if sl_.calls or any(st['rv']['k'] in ('bin', 'checked_bin', 'un') for blk in b.blocks for st in blk['stmts'] if st['p'][0] in sl_.locals):
            return []
        return [k for v in slice_const_values(lib, sl_) for k in [const_int({'k': {'v': v}}) if v else None] if k is not None]
    indirect = [k for c in clamps for a in c.args if const_int(a) is None for k in copied_const(a) if 16 < k < 256]
    cands = direct or indirect
    bound = min(cands) if cands else None
    take = [const_int(c.args[1]) for c in sl.calls if c.matches(r'Iterator::take$') and len(c.args) > 1 and const_int(c.args[1]) is not None and const_int(c.args[1]) <= 64]
    suffix = (take[0] if take else 24) + 1
    ctx.check(bound is not None and bound + suffix <= 255, rule, b.path + '|bounded-name', b.where(), 'file-name part clamped to %s bytes + %d bytes of suffix <= 255 (NAME_MAX)' % (bound, suffix),
              'the temporary name is the whole file name plus a %d byte suffix: for names longer than %d bytes it exceeds NAME_MAX, the rename in safe_remove fails with ENAMETOOLONG, and '
              '`link` can never process such a file although --dry-run announces it' % (suffix, 255 - suffix))


def r8b(ctx, lib):
    """the whole temporary PATH stays within PATH_MAX too: the 25 bytes are added to the path as well"""
    rule = 'C05.R8'
    b = lib.body('dedupe::FsCommand::temp_file')
    if b is None:
        return
    from ..analysis import slice_const_values
    sl = backslice(b, [0])
    vals = [str(v) for v in slice_const_values(lib, sl)] + [str(k) for k in sl.consts]
    pmax = any(re.search(r'PATH_MAX|\b409[56]\b', v) for v in vals)
    # the length of the whole path enters the clamp: a len() of something that derives from the parameter but not from file_name()
    whole = [c for c in sl.calls if c.matches(r'::len$') and 1 in backslice(b, [c.args[0]]).params and not backslice(b, [c.args[0]]).has_call(r'path::Path::file_name$')]
    ctx.check(pmax and bool(whole), rule, b.path + '|bounded-path', b.where(), 'the kept part of the name also shrinks so that the whole temporary path stays within PATH_MAX',
              'only the NAME of the temporary sibling is bounded: the 25 bytes of the suffix are added to the length of the whole PATH as well, so for a file whose path is longer than PATH_MAX - 26 '
              '(4070 bytes; legal, scanned, reported, and `remove` unlinks it) the rename in safe_remove fails with ENAMETOOLONG: `link` / `link --soft` can never process the file although --dry-run lists it')


def r11(ctx, lib):
    rule = 'C05.R11'
    b = ctx.need_body(rule, 'reflink::reflink')
    if b is None:
        return
    from ..callgraph import CallGraph
    cg = CallGraph([lib])
    bodies = [b] + [lib.body(cp) for cp in lib.closures_of(b.path)]
    def where_in_b(x, c):
        """block of b at which the call c (in b or in a closure of b) happens: the call that the closure is handed to"""
        if x.path == b.path:
            return c.bb
        cr = closure_creation(lib, x.path)
        if not cr or cr[0].path != b.path:
            return None
        fl = forward_locals(b, cr[2]['p'][0]) | {cr[2]['p'][0]}
        for k in b.calls():
            if any(op_local(a) in fl for a in k.args):
                return k.bb
        return None
    # the snapshot: metadata() of the parent; the restore: restore_metadata(parent ..)
    snaps = [(x, c) for x in bodies for c in x.calls(r'Path(Buf)?::metadata$|^std::fs::metadata$|Path(Buf)?::symlink_metadata$')]
    rest = [c for c in b.calls(r'^reflink::restore_metadata$')] + [c for x in bodies[1:] for c in x.calls(r'^reflink::restore_metadata$')]
    parent_rest = []
    for x in bodies:
        for c in x.calls(r'^reflink::restore_metadata$'):
            sl = backslice(x, [c.args[0]])
            if sl.has_call(r'path::Path::parent$') or any(n in ('parent', 'dest_parent') for _, n in sl.upvars) or any(b.local_name(l) in ('parent', 'dest_parent') for l in sl.locals if x.path == b.path):
                parent_rest.append((x, c))
    if not snaps or not parent_rest:
        ctx.missing(rule, 'snapshot / restore of the parent directory in reflink()', b.where())
        return
    # a lock: a call (direct, in a closure, or through a local helper) that reaches Mutex::lock / RwLock::write
    LOCK = r'Mutex<.*>::lock$|Mutex::<T>::lock$|RwLock.*::write$|ReentrantMutex.*::lock$'
    def locks(x, c):
        if c.matches(LOCK):
            return True
        if c.f.get('local') and c.path in cg.bodies:
            return any(cg.bodies[k].calls(LOCK) for k in cg.reachable([c.path]))
        return False
    lk = [(x, c) for x in bodies for c in x.calls() if locks(x, c)]
    s_bb = [where_in_b(x, c) for x, c in snaps]
    s_bb = [v for v in s_bb if v is not None]
    r_bb = [where_in_b(x, c) for x, c in parent_rest]
    r_bb = [v for v in r_bb if v is not None]
    l_bb = [where_in_b(x, c) for x, c in lk]
    l_bb = [v for v in l_bb if v is not None]
    first_snap = [v for v in s_bb if not any(v in b.reachable(o) and v != o for o in s_bb)]
    before = bool(l_bb) and bool(first_snap) and any(all(sv in b.reachable(lv) and lv not in b.reachable(sv) for sv in first_snap) for lv in l_bb)
    # the guard lives until the restore: no drop of a guard from which the restore of the parent is still to come
    drops = [bi for bi, blk in enumerate(b.blocks) if not blk['cleanup'] and blk['term']['k'] == 'drop' and re.search(r'MutexGuard|RwLockWriteGuard', b.local_ty(blk['term']['p'][0]))]
    early = [d for d in drops if any(rv in b.reachable(d) for rv in r_bb)]
    ctx.check(before and bool(drops) and not early, rule, b.path + '|directory-section-exclusive', (b.where(b.blocks[early[0]]['term']['line']) if early else (lk[0][1].where() if lk else b.where())),
              'the snapshot .. restore section on the parent directory is taken under a lock that is held until the restore',
              'reflink() remembers the time stamps of the parent directory, creates and removes its temporary file there and writes the remembered values back - while the commands of other groups do the '
              'same in the same directory at the same time: the second command takes its snapshot after the first has created its temporary file (it remembers "now"), and when it finishes last it '
              '"restores" that: `dedupe` of 300 pairs changes the modification time of the directories it promises to keep in 5 runs of 5 - also when every command fails - and never with one thread')


def r8c(ctx, lib):
    """... and when the NAME is too short to absorb the excess (a file `f` in a directory whose path is 4089 bytes long), shortening it is not
    enough: the command is refused beforehand - at script generation, so that the dry run agrees - by a test of the temporary path itself"""
    rule = 'C05.R8'
    cp = lib.body('dedupe::FsCommand::check_preconditions')
    if cp is None:
        ctx.missing(rule, 'dedupe::FsCommand::check_preconditions')
        return
    from ..callgraph import CallGraph
    from ..analysis import slice_const_values
    cg = CallGraph([lib])
    tested = None
    for c in cp.calls(r'^dedupe::FsCommand::check_\w+$'):
        for k in sorted(cg.reachable([c.path])) if c.path in cg.bodies else []:
            hb = cg.bodies[k]
            tf = hb.calls(r'FsCommand::temp_file$')
            if not tf:
                continue
            vals = [str(v) for blk in hb.blocks for st in blk['stmts'] for v in [st['rv'].get('op', {}).get('k', {}).get('v') if isinstance(st['rv'].get('op'), dict) and isinstance(st['rv'].get('op').get('k'), dict) else None] if v]
            vals += [str(x) for x in _consts_of(hb)]
            if any(re.search(r'PATH_MAX|\b409[56]\b', v) for v in vals) and 'Err' in return_variants_from(hb, 0):
                tested = (hb, tf[0])
    ctx.check(tested is not None, rule, cp.path + '|temporary-path-tested-beforehand', (tested[1].where() if tested else cp.where()),
              'a command whose temporary sibling cannot fit into PATH_MAX is refused when the script is generated (%s)' % (tested[0].path.rsplit('::', 1)[-1] if tested else '-'),
              'the excess of the temporary path over PATH_MAX is taken from the file NAME only: when the name is shorter than the excess - a file `f` in a directory whose path is longer than 4070 bytes - '
              'the temporary path is still too long, rename(2) fails with ENAMETOOLONG, and `link` / `link --soft` / `dedupe` never process a file that --dry-run lists and counts')


def _consts_of(body):
    out = []
    for blk in body.blocks:
        for st in blk['stmts']:
            rv = st['rv']
            for o in ([rv.get('op')] if isinstance(rv.get('op'), dict) else []) + [o for o in (rv.get('ops') or []) if isinstance(o, dict)] + [rv.get(x) for x in ('a', 'b') if isinstance(rv.get(x), dict)]:
                k = o.get('k') if isinstance(o, dict) else None
                if isinstance(k, dict):
                    out.append(str(k.get('v') or k.get('item') or k))
        t = blk['term']
        if t['k'] == 'call':
            for a in t.get('args', []):
                k = a.get('k') if isinstance(a, dict) else None
                if isinstance(k, dict):
                    out.append(str(k.get('v') or k.get('item') or k))
    return out


def r12(ctx, lib):
    rule = 'C05.R12'
    SETI = r'(Hash|BTree)Set(::)?<.*>::insert$'
    SETC = r'(Hash|BTree)Set(::)?<.*>::contains$'
    def by_file_id(x, c):
        return any(backslice(x, [a]).has_call(r'FsCommand::file_id$') or any(n in ('file_id', 'id') for n in [x.local_name(l) for l in backslice(x, [a]).locals if x.local_name(l)]) for a in c.args[1:])
    for fn, step, what, bad in (
            ('dedupe::dedupe', r'FsCommand::check_preconditions$', 'generation',
             'when the command of a reported symbolic link is refused by a precondition (its directory cannot be modified, the move target exists) the command for the file it points to is still '
             'generated and run: the link is "left in place with a warning" but points nowhere afterwards - `fclones remove` with t/l read-only removes t/a/x, and `cat t/l/x` fails'),
            ('dedupe::run_script', r'FsCommand::execute$', 'execution',
             'when execute() fails for a symbolic link (or for one hard link of a file) the remaining commands of the group are executed all the same, among them the one that removes the file the '
             'link points to: the path that was not processed loses its content')):
        b = ctx.need_body(rule, fn)
        if b is None:
            continue
        bodies = [b] + [lib.body(cp) for cp in lib.closures_of(b.path)]
        steps = [(x, c) for x in bodies for c in x.calls(step)]
        ins = [(x, c) for x in bodies for c in x.calls(SETI) if by_file_id(x, c)]
        con = [(x, c) for x in bodies for c in x.calls(SETC) if by_file_id(x, c)]
        ctx.check(bool(steps) and bool(ins) and bool(con), rule, fn + '|one-file-one-fate', (steps[0][1].where() if steps else b.where()),
                  '%s: a refusal / failure is remembered by file id and the other paths of that file are skipped' % what, bad)


WRAPPERS = {
    'dedupe::FsCommand::remove': (r'^std::fs::remove_file$', [1]),
    'dedupe::FsCommand::unsafe_rename': (r'^std::fs::rename$', [1, 2]),
    'dedupe::FsCommand::unsafe_copy': (r'^std::fs::copy$', [1, 2]),
    'dedupe::FsCommand::hardlink': (r'^std::fs::hard_link$', [1, 2]),
    'dedupe::FsCommand::symlink_internal': (r'^std::os::unix::fs::symlink$', [1, 2]),
    'dedupe::FsCommand::mkdirs': (r'^std::fs::create_dir_all$', [1]),
}


def r9(ctx, lib):
    rule = 'C05.R9'
    from ..callgraph import sink_kind
    for fn, (rx, params) in sorted(WRAPPERS.items()):
        b = ctx.need_body(rule, fn)
        if b is None:
            continue
        bodies = [b] + [lib.body(p) for p in lib.closures_of(b.path)]
        sinks = [(x, c) for x in bodies for c in x.calls() if sink_kind(c) and not c.f.get('local')]
        prim = [(x, c) for x, c in sinks if c.matches(rx)]
        ok = len(sinks) == 1 and len(prim) == 1
        why = 'mutating primitives in the wrapper: %s' % [c.path for _, c in sinks]
        if not ok and fn.endswith('unsafe_copy') and not prim:
            alt, altwhy = streaming_copy(lib, b, bodies, sinks)
            if alt is not None:
                ctx.check(alt, rule, fn, b.where(), 'streaming copy: target created from arg2, source opened from arg1, every I/O result propagated, writer flushed', altwhy)
                continue
        if ok:
            x, c = prim[0]
            for i, pnum in enumerate(params):
                sl = backslice(x, [c.args[i]])
                if sl.params != {pnum}:
                    ok = False
                    why = 'argument %d of %s derives from parameter(s) %s, expected parameter %d' % (i, c.path.rsplit('::', 1)[-1], sorted(sl.params), pnum)
            cat, det = err_handling(x, c)
            if ok and cat not in ('PROPAGATED', 'RETURNED', 'ERR-RETURNED'):
                ok = False
                why = 'the primitive\'s error is %s' % cat
        ctx.check(ok, rule, fn, b.where(), '%s(%s), error returned' % (rx.strip('^$').split('::')[-1], ', '.join('arg%d' % p for p in params)), why)


def r10(ctx, lib):
    rule = 'C05.R10'
    from .common import buffered_drop_discipline
    bodies = [b for b in lib.bodies.values() if b.file.endswith(('dedupe.rs', 'reflink.rs', 'lock.rs', 'main.rs')) and not re.search(r'(^|::)tests?(::|$)', b.path) and b.kind not in ('const', 'static', 'promoted')]
    ctx.floor(rule, 'bodies of dedupe.rs/reflink.rs/lock.rs examined for buffered writers', len(bodies), 100, '')
    n = buffered_drop_discipline(ctx, rule, bodies)
    if n == 0:
        ctx.ok(rule, 'no-buffered-writers', 'fclones/src/dedupe.rs', 'no buffered writer is created or dropped in %d bodies of the dedupe layer (every write goes straight to the OS and returns its own error)' % len(bodies))


def streaming_copy(lib, b, bodies, sinks):
    """The accepted second idiom for unsafe_copy: open(source) + create(target) + read/write loop.  Returns (ok, why) or
    (None, None) when the wrapper is not of that shape at all."""
    from .common import buffered_drops, io_result
    create = [(x, c) for x, c in sinks if c.matches(r'^std::fs::File::create$|OpenOptions::open$')]
    if len(create) != 1 or len(sinks) != 1:
        return None, None
    x, c = create[0]

    def param_of(body, op):
        sl = backslice(body, [op])
        ps = set(sl.params) - ({1} if body.kind == 'closure' else set())
        from ..analysis import upvar_operand
        for i, n in sl.upvars:
            pb, o = upvar_operand(lib, body, i)
            if pb is not None and o is not None:
                ps |= backslice(pb, [o]).params
        return ps
    tgt = param_of(x, c.args[-1] if c.matches(r'OpenOptions::open$') else c.args[0])
    opens = [(y, o) for y in bodies for o in y.calls(r'^std::fs::File::open$')]
    src = param_of(opens[0][0], opens[0][1].args[0]) if opens else set()
    if tgt != {2}:
        return False, 'the file created by the copy derives from parameter(s) %s, expected the target (2)' % sorted(tgt)
    if src != {1}:
        return False, 'the file read by the copy derives from parameter(s) %s, expected the source (1)' % sorted(src)
    for y in bodies:
        for k in y.calls():
            if io_result(k) and not k.exp and not k.matches(r'Result(::)?<.*>::|as std::ops::Try>::|FromResidual|std::convert::|Option(::)?<.*>::|std::io::Error::'):
                cat, det = err_handling(y, k)
                if cat not in ('PROPAGATED', 'RETURNED', 'ERR-RETURNED'):
                    return False, 'the result of %s at %s is %s' % (k.path.rsplit('::', 1)[-1], k.where(), cat)
        for bi, l, ty, flushed, w in buffered_drops(y):
            if not flushed:
                return False, 'the buffered writer %s is dropped without a checked flush (C05.R10)' % (y.local_name(l) or ty)
    return True, ''

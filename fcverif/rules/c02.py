"""C02 - deduplication never destroys the last copy of any content."""
import re
from . import register
from ..analysis import (backslice, aggregates, agg_field, switch_targets_bool, count_nots, closure_creation, forward_locals,
                        direct_field, dominated_region, return_variants_from, comparisons, branch_of)
from ..callgraph import CallGraph, sink_kind, open_mode
from ..flow import Flow, fmt_node
from ..facts import const_int, op_local, op_place, op_const, place_fields

DOC = {
    'explanation': 'Decided: the retained set of partition() is topped up to max(1, n) sub-groups before anything is dropped (R1); dedupe_script refuses to emit commands when '
                   'nothing is retained and every command refers to a retained file (R2); by inter-procedural label propagation of the roles KEEP (PartitionedFileGroup.to_keep) and '
                   'DROP (to_drop), every FsCommand is built with target = KEEP and link/file/source = DROP (R3) and no file-system mutating primitive reachable from run_script '
                   'ever receives a KEEP path as its mutated argument (R4); the eligibility filters precede sub-grouping (R5); hard links / reflinks are planned per device (R6); '
                   'the staleness check covers every member of the group (R7 = C04.R2/R3).',
    'rules': {
        'C02.M': __import__('fcverif.rules.common', fromlist=['MANDATORY_TEXT']).MANDATORY_TEXT,
        'C02.R1': 'partition: n = max(1, rf_over..); the retained set is extended by drain(0..min(|to_drop|, n - |to_retain|)) where |to_retain| counts sub-groups',
        'C02.R2': 'dedupe_script: returns no command when to_drop is empty; asserts to_keep non-empty before building any command',
        'C02.R3': 'every FsCommand construction: target has role KEEP only; link/file/source has role DROP only',
        'C02.R4': 'no mutating primitive reachable from run_script has a mutated-path argument with role KEEP',
        'C02.R5': 'the regular-file filter and the length filter run before FileSubGroup::group on every path',
        'C02.R6': 'for HardLink and RefLink the group is partitioned by device before partition()',
        'C02.R10': 'no file outside the reported groups is touched because a path was read back as another name: the path (and base dir) payload of a report line reaches the decoder without a white-space trim, directly or through an adaptor (re-evaluates C10.R2)',
        'C02.R9': 'several reported paths may be one and the same thing: (i) a symbolic link is never relied upon to hold the data (the metadata follow links, so with -S a link looks like a regular file): partition adds a sub-group with a real file to the retained set when that set consists of links only; the replica count compared with n excludes link-only sub-groups; dedupe_script links to a retained real file (none -> no link commands); a link is moved by copying; (ii) a sub-group is kept when more reported paths share its file id than the file has links (aliases through a symlinked / bind-mounted parent)',
        'C02.R8': 'the sub-groups that partition keeps or drops as a whole are formed as documented: by root first, then by file identifier (hard links, symlink + target), else singletons (re-evaluates C06.R4, C06.R5 on FileSubGroup::group, which dedupe::partition calls)',
        'C02.R7': 'the modification check covers the whole group, including the files that will be retained (re-evaluates C04.R1, C04.R2, C04.R3)',
    },
    'not_decided': 'that the members of a group really are identical (C01); the symlink-as-only-retained-copy case under --isolate -S (documented limitation D15); report round trip (C10)',
    'assumptions': ['the table of mutating primitives is complete'],
}


@register('C02', DOC)
def run(ctx):
    r1(ctx)
    r2(ctx)
    r34(ctx)
    r5(ctx)
    r6(ctx)
    r7(ctx)
    r8(ctx)
    r9(ctx)
    # the files a dedupe command acts on are the files the report names: the path payload of a report line is decoded without any trimming
    from .common import reevaluate
    from . import c10
    lib_ = ctx.lib
    reevaluate(ctx, 'C02.R10', c10.r2, lib_, lib_.body(c10.RH), lib_.body(c10.TI + 'read_paths'))
    from .common import run_mandatory
    run_mandatory(ctx, 'C02')


def r1(ctx):
    rule = 'C02.R1'
    lib = ctx.lib
    b = ctx.need_body(rule, 'dedupe::partition')
    if b is None:
        return
    P = b.path
    mx = [c for c in b.calls(r'^std::cmp::max$|Ord>::max$|Ord::max$')]
    n_calls = []
    for c in mx:
        ks = [const_int(a) for a in c.args]
        sls = [backslice(b, [a]) for a in c.args]
        if any(k is not None and k >= 1 for k in ks) and any('rf_over' in sl.field_names() for sl in sls):
            n_calls.append(c)
    if not ctx.floor(rule, 'n = max(1, config.rf_over..)', len(n_calls), 1, b.where()):
        return
    N = n_calls[0]
    ctx.ok(rule, P + '|n-at-least-one', N.where(), 'n = max(%s, rf_over)' % [const_int(a) for a in N.args if const_int(a) is not None][0])
    ss = [c for c in b.calls(r'saturating_sub$')]
    ss = [c for c in ss if N.dest[0] in backslice(b, [c.args[0]]).locals]
    if not ss:
        return r1_loop(ctx, rule, b, N)
    S = ss[0]
    # |retained| must be Vec<FileSubGroup>::len of the retained half of the partition
    from ..analysis import direct_def, base_named_local
    dd = direct_def(b, S.args[1])
    direct = False
    retained_l = None
    why = 'the subtrahend is not a plain Vec::len (%s)' % (dd[0],)
    if dd[0] == 'call' and dd[1].matches(r'Vec<.*>::len$|Vec::<T, A>::len$'):
        ty = (dd[1].t.get('argtys') or [''])[0]
        retained_l = base_named_local(b, dd[1].args[0])
        if 'FileSubGroup' in ty and retained_l is not None:
            direct = True
        else:
            why = 'the subtrahend counts %s, not the retained sub-groups' % ty
    elif dd[0] == 'call':
        why = 'the subtrahend is computed by %s: it must be the number of retained sub-groups (each hard-link set / isolate root is one replica)' % dd[1].path
    ctx.check(direct, rule, P + '|counts-subgroups', S.where(), 'missing = n - (number of retained sub-groups)', why)
    ext = [c for c in b.calls(r'Extend.*>::extend$|Vec<.*>::extend$|::extend$') if 'FileSubGroup' in (c.t.get('argtys') or [''])[0]]
    dr = [c for c in b.calls(r'Vec<.*>::drain$|Vec::<T, A>::drain$')]
    good = bool(ext and dr) and retained_l is not None
    why = 'extend/drain pair not found'
    if good:
        e, d = ext[0], dr[0]
        e_l = base_named_local(b, e.args[0])
        d_l = base_named_local(b, d.args[0])
        good = e_l == retained_l and d_l is not None and d_l != retained_l
        why = 'the set that is extended is not the one that was counted, or the drained set is the same one'
        if good:
            good = direct_def(b, e.args[1]) == ('call', d)
            why = 'extend() does not consume the drain()'
        if good:
            # drain range: 0 .. min(to_drop.len(), missing)
            rng = direct_def(b, d.args[1])
            good = rng[0] == 'stmt' and rng[1]['rv'].get('adt', '').endswith('ops::Range') and const_int(rng[1]['rv']['ops'][0]) == 0
            why = 'the drained range does not start at 0'
            if good:
                endd = direct_def(b, rng[1]['rv']['ops'][1])
                good = endd[0] == 'call' and endd[1].matches(r'^std::cmp::min$|Ord::min$|Ord>::min$')
                why = 'the drained range is not bounded by min(|to_drop|, missing)'
                if good:
                    a = [direct_def(b, x) for x in endd[1].args]
                    has_missing = any(x == ('call', S) for x in a)
                    has_len = any(x[0] == 'call' and x[1].matches(r'Vec<.*>::len$|Vec::<T, A>::len$') and base_named_local(b, x[1].args[0]) == d_l for x in a)
                    good = has_missing and has_len
                    why = 'min() is not applied to (|to_drop|, missing)'
    ctx.check(good, rule, P + '|top-up', (ext[0].where() if ext else b.where()), 'retained.extend(to_drop.drain(0..min(|to_drop|, missing)))', 'top-up: ' + why)
    lens = [dd[1]] if dd[0] == 'call' else []
    # the result fields
    res = aggregates(b, 'dedupe::PartitionedFileGroup')
    if res and ext and dr:
        s = res[0][1]
        k_sl = backslice(b, [agg_field(s, 'to_keep')])
        d_sl = backslice(b, [agg_field(s, 'to_drop')])
        kn = {b.local_name(l) for l in k_sl.locals if b.local_name(l)}
        dn = {b.local_name(l) for l in d_sl.locals if b.local_name(l)}
        en = {b.local_name(l) for l in backslice(b, [ext[0].args[0]]).locals if b.local_name(l)}
        drn = {b.local_name(l) for l in backslice(b, [dr[0].args[0]]).locals if b.local_name(l)}
        ctx.check(bool(kn & en) and bool(dn & drn) and not (kn & drn - en) , rule, P + '|result-fields', b.where(s['line']), 'to_keep = the topped-up set, to_drop = the drained remainder', 'to_keep/to_drop are not the retained/remaining sets')
        okd = all(b.dominates(ext[0].bb, res[0][0]) for _ in [0])
        ctx.check(okd, rule, P + '|top-up-before-result', b.where(s['line']), 'the top-up dominates the result', 'a path builds the result without the top-up')


def r1_loop(ctx, rule, b, N):
    """second accepted idiom of the top-up: `while count(retained replicas) < n { retained.push(to_drop.remove(position(..))) }`"""
    from ..analysis import comparisons, branch_of, base_named_local, direct_def
    P = b.path
    lib = ctx.lib
    def receiver_root(op, hops=8):
        """name of the local at the bottom of a method chain x.iter().filter(..).count()"""
        for _ in range(hops):
            l = base_named_local(b, op)
            if l is not None and b.local_name(l):
                return b.local_name(l)
            dd_ = direct_def(b, op)
            if dd_[0] == 'call' and dd_[1].args:
                op = dd_[1].args[0]
            else:
                return None
        return None
    loop = None
    for cmp in comparisons(b):
        if not any(cmp.bb in b.reachable(x) for x in b.succs(cmp.bb)):
            continue        # not a loop condition (e.g. the assertion after the loop)
        for cnt_side, n_side, op in ((cmp.a, cmp.b, cmp.op), (cmp.b, cmp.a, {'<': '>', '>': '<', '<=': '>=', '>=': '<='}.get(cmp.op, cmp.op))):
            dc = direct_def(b, cnt_side)
            if dc[0] == 'call' and dc[1].matches(r'Iterator>::count$|Iterator::count$') and N.dest[0] in backslice(b, [n_side]).locals:
                loop = (cmp, dc[1], op)
    if not ctx.floor(rule, 'top-up: n.saturating_sub(|retained|) or `count(retained) < n` loop', 1 if loop else 0, 1, b.where()):
        return
    cmp, cnt, op = loop
    # what is counted: sub-groups of the retained set
    ty = (cnt.t.get('argtys') or [''])[0] or b.local_ty(op_local(cnt.args[0]) or 0)
    root = receiver_root(cnt.args[0])
    names = [root]
    chain = []
    op_ = cnt.args[0]
    for _ in range(6):
        dd_ = direct_def(b, op_)
        if dd_[0] != 'call' or not dd_[1].args:
            break
        chain.append(dd_[1].path.rsplit('::', 1)[-1])
        op_ = dd_[1].args[0]
    counted_ok = root == 'to_retain' and not any(x in ('flat_map', 'flatten') for x in chain)
    br0 = branch_of(b, cmp)
    NEGR = {'<': '>=', '<=': '>', '>': '<=', '>=': '<', '==': '!=', '!=': '=='}
    if br0:
        pushes0 = [c for c in b.calls(r'Vec<.*>::push$|Vec::<T, A>::push$') if receiver_root(c.args[0]) == 'to_retain']
        stays_t = any(c.bb in b.reachable(br0[1]) and b.dominates(br0[1], c.bb) for c in pushes0)
        stays_f = any(c.bb in b.reachable(br0[2]) and b.dominates(br0[2], c.bb) for c in pushes0)
        if stays_f and not stays_t:
            op = NEGR.get(op, op)       # the loop goes on when the comparison is false
    ctx.check(counted_ok and op == '<', rule, P + '|counts-subgroups', cnt.where(), 'the loop runs while (number of retained sub-groups that hold data) < n',
              'the top-up loop does not compare the number of retained sub-groups with n (counted over %s, relation %s): each hard-link set / isolate root is one replica' % (sorted(names), op))
    br = branch_of(b, cmp)
    pushes = [c for c in b.calls(r'Vec<.*>::push$|Vec::<T, A>::push$') if base_named_local(b, c.args[0]) is not None and b.local_name(base_named_local(b, c.args[0])) == 'to_retain']
    good = False
    why = 'no `to_retain.push(to_drop.remove(..))` under the loop condition'
    for pu in pushes:
        dr = direct_def(b, pu.args[1])
        if dr[0] == 'call' and dr[1].matches(r'Vec<.*>::remove$|Vec::<T, A>::remove$') and receiver_root(dr[1].args[0]) == 'to_drop':
            in_loop = br is not None and (b.dominates(br[1], pu.bb) or b.dominates(br[2], pu.bb)) and cmp.bb in b.reachable(pu.bb)
            pos = [c for c in b.calls(r'Iterator>::position$|Iterator::position$') if receiver_root(c.args[0]) == 'to_drop' and b.dominates(c.bb, pu.bb) and (b.dominates(br[1], c.bb) or b.dominates(br[2], c.bb))] if br else []
            from_pos = bool(pos)
            if in_loop and from_pos:
                good = True
            else:
                why = 'the push is not inside the loop / the index does not come from position() over to_drop'
    ctx.check(good, rule, P + '|top-up', (pushes[0].where() if pushes else b.where()), 'while short of n: to_retain.push(to_drop.remove(first sub-group holding data))', 'top-up: ' + why)
    # n is the number of PATHS / roots the user asked to keep untouched: where fewer than n sub-groups hold data, the loop above ends early, and the
    # retained set must still be filled up to n with what there is (sub-groups of links: keeping a link is never unsafe)
    plain = None
    for cmp2 in comparisons(b):
        if not any(cmp2.bb in b.reachable(x) for x in b.succs(cmp2.bb)):
            continue
        for cnt_side, n_side in ((cmp2.a, cmp2.b), (cmp2.b, cmp2.a)):
            dc = direct_def(b, cnt_side)
            if dc[0] == 'call' and dc[1].matches(r'Vec<.*>::len$|Vec::<T, A>::len$') and receiver_root(dc[1].args[0]) == 'to_retain' and N.dest[0] in backslice(b, [n_side]).locals:
                br2 = branch_of(b, cmp2)
                for pu in pushes:
                    dr = direct_def(b, pu.args[1])
                    if dr[0] == 'call' and dr[1].matches(r'Vec<.*>::remove$|Vec::<T, A>::remove$') and receiver_root(dr[1].args[0]) == 'to_drop' and cmp2.bb in b.reachable(pu.bb) and \
                            br2 is not None and (b.dominates(br2[1], pu.bb) or b.dominates(br2[2], pu.bb)):
                        plain = cmp2
    ctx.check(plain is not None, rule, P + '|n-paths-stay', (b.where(plain.line) if plain else cnt.where()), 'after the sub-groups that hold data, the retained set is filled up to n sub-groups with what is left (links)',
              'only sub-groups that hold a real file are ever moved from the dropped to the retained set: when a group has fewer than n of them, the loop gives up and every sub-group of symbolic links '
              'stays in the dropped set - `group -S -H --rf-over 3 a | remove` (a/f and three links to it; the header says 1 redundant file) removes all three links instead of one, although -n / '
              '--rf-over asks to keep 3 replicas untouched')
    res = aggregates(b, 'dedupe::PartitionedFileGroup')
    if res:
        s_ = res[0][1]
        kn = {receiver_root(agg_field(s_, 'to_keep'))}
        dn = {receiver_root(agg_field(s_, 'to_drop'))}
        ctx.check('to_retain' in kn and 'to_drop' in dn and 'to_drop' not in kn, rule, P + '|result-fields', b.where(s_['line']), 'to_keep = the topped-up set, to_drop = the remainder', 'to_keep/to_drop are not the retained/remaining sets')
        # the result is built only after the loop has been left: the loop head dominates it
        ctx.check(b.dominates(cmp.bb, res[0][0]), rule, P + '|top-up-before-result', b.where(s_['line']), 'the top-up loop dominates the result', 'a path builds the result without the top-up')


def r2(ctx):
    rule = 'C02.R2'
    lib = ctx.lib
    b = ctx.need_body(rule, 'dedupe::PartitionedFileGroup::dedupe_script')
    if b is None:
        return
    P = b.path
    from .common import aggregates_deep
    # (anchor block, statement): for a command built inside a closure of dedupe_script the anchor is where the closure is created
    cmds = [(abb, s_) for abb, s_, _, _ in aggregates_deep(lib, b, 'dedupe::FsCommand')]
    if not ctx.floor(rule, 'FsCommand constructions in dedupe_script', len(cmds), 5, b.where()):
        return
    empties = b.calls(r'Vec<.*>::is_empty$|Vec::<T, A>::is_empty$')
    keep_e = [c for c in empties if 'to_keep' in backslice(b, [c.args[0]]).field_names()]
    drop_e = [c for c in empties if 'to_drop' in backslice(b, [c.args[0]]).field_names()]
    if not keep_e:
        ctx.violation(rule, P + '|keep-nonempty', b.where(), 'no test of to_keep.is_empty() precedes the commands')
    if not drop_e:
        ctx.violation(rule, P + '|drop-empty-returns', b.where(), 'no early return on an empty to_drop')
    for bi, s in cmds:
        var = s['rv']['variant']
        for tests, nm in ((keep_e, 'keep-nonempty'), (drop_e, 'drop-empty-returns')):
            if not tests:
                continue
            t = tests[0]
            br = None
            for (bbx, idx, what) in b.operand_uses(t.dest[0]):
                if what[0] == 'switch':
                    br = what[1]
            ok = False
            if br is None:
                # through Not
                sl_local = t.dest[0]
                for (bbx, idx, what) in b.operand_uses(sl_local):
                    if what[0] == 'stmt' and what[1]['rv']['k'] == 'un':
                        nl = what[1]['p'][0]
                        for (b2, i2, w2) in b.operand_uses(nl):
                            if w2[0] == 'switch':
                                tt, ft = switch_targets_bool(w2[1])
                                ok = b.dominates(tt, bi)      # !is_empty true side
            else:
                tt, ft = switch_targets_bool(br)
                ok = b.dominates(ft, bi)
            ctx.check(ok, rule, '%s|%s|%s' % (P, nm, var), b.where(s['line']), '%s command only built when %s' % (var, 'to_keep is non-empty' if nm == 'keep-nonempty' else 'to_drop is non-empty'),
                      '%s command can be built although %s' % (var, 'nothing is retained' if nm == 'keep-nonempty' else 'to_drop is empty'))
    # the non-empty-keep test fails hard (panic/return), it does not fall through
    if keep_e:
        t = keep_e[0]
        # the empty side must not reach any command construction
        reach_bad = False
        for (bbx, idx, what) in b.operand_uses(t.dest[0]):
            if what[0] == 'switch':
                tt, ft = switch_targets_bool(what[1])
                reach_bad = any(bi in b.reachable(tt) for bi, s in cmds)
        ctx.check(not reach_bad, rule, P + '|keep-empty-stops', t.where(), 'an empty retained set never reaches a command construction', 'commands can be emitted with an empty retained set')


def role_flow(ctx):
    units = [ctx.lib] + ([ctx.bin] if ctx.bin else [])
    cg = CallGraph(units)
    fl = Flow(units, 'role', cg)
    fl.seed('KEEP', ('F', 'dedupe::PartitionedFileGroup', '', 'to_keep'))
    fl.seed('DROP', ('F', 'dedupe::PartitionedFileGroup', '', 'to_drop'))
    fl.solve()
    return cg, fl


def r34(ctx):
    lib = ctx.lib
    cg, fl = role_flow(ctx)
    rule = 'C02.R3'
    want = {'target': {'KEEP'}, 'link': {'DROP'}, 'file': {'DROP'}, 'source': {'DROP'}}
    n = 0
    for k, b in cg.bodies.items():
        if re.search(r'(^|::)tests?(::|$)', b.path) or b.derived:
            continue
        for bi, s in aggregates(b, 'dedupe::FsCommand'):
            var = s['rv']['variant']
            for f, o in zip(s['rv']['fields'], s['rv']['ops']):
                if f not in want:
                    continue
                if f == 'target' and var == 'Move':
                    # the move destination is a fresh path under DIR derived from the dropped file's own path
                    labels = fl.labels_of(fl.op_read(k, b, o))
                    ctx.check('KEEP' not in labels, rule, '%s|%s.%s' % (k, var, f), b.where(s['line']), 'Move.target derives from the dropped file (roles %s)' % sorted(labels), 'Move.target carries role KEEP')
                    n += 1
                    continue
                n += 1
                labels = fl.labels_of(fl.op_read(k, b, o))
                key = '%s|%s.%s' % (k, var, f)
                if labels == want[f]:
                    ctx.ok(rule, key, b.where(s['line']), '%s.%s has role %s' % (var, f, sorted(labels)))
                else:
                    bad = sorted(labels - want[f]) or ['<none>']
                    w = fl.witness(bad[0], fl.op_read(k, b, o)) if bad[0] != '<none>' else []
                    ctx.violation(rule, key, b.where(s['line']), '%s.%s has roles %s, expected %s%s' % (var, f, sorted(labels), sorted(want[f]), ('; flow: ' + ' => '.join(w[-5:])) if w else ''))
            ctx.fn(b)
    ctx.floor(rule, 'role-checked FsCommand fields', n, 9)
    rule = 'C02.R4'
    roots = ['dedupe::run_script']
    if 'dedupe::run_script' not in cg.bodies:
        ctx.missing(rule, 'fn dedupe::run_script')
        return
    reach = cg.reachable(roots)
    ctx.stats['C02.R4:bodies reachable from run_script'] = len(reach)
    ns = 0
    for k in sorted(reach):
        b = cg.bodies[k]
        for c, kind, idx in cg.sinks_in(k):
            if c.f.get('local') or kind == 'EXEC':
                continue
            if kind == 'hard_link':
                idx = [1]
            if kind == 'OpenOptions::open':
                methods, unknown, _ = open_mode(b, c)
                if not (methods & {'write', 'append', 'create', 'create_new', 'truncate'}):
                    continue
            for i in (idx or [0]):
                if i >= len(c.args):
                    continue
                ns += 1
                nodes = fl.op_read(k, b, c.args[i])
                labels = fl.labels_of(nodes)
                key = '%s|%s(arg%d)' % (k, kind, i)
                ctx.fn(b)
                if 'KEEP' in labels:
                    w = fl.witness('KEEP', nodes)
                    ctx.violation(rule, key, c.where(), '%s may be applied to a retained file (roles %s); via %s; KEEP flows: %s' % (kind, sorted(labels), ' -> '.join(cg.path_to(k)[-4:]), ' => '.join(w[-6:])))
                else:
                    ctx.ok(rule, key, c.where(), '%s on a path with roles %s' % (kind, sorted(labels) or ['<derived from no retained file>']))
    ctx.floor(rule, 'mutating primitive arguments reachable from run_script', ns, 12)
    # the read side of link creation does use the retained file: positive control that KEEP reaches the non-mutated operands
    ctrl = 0
    for k in reach:
        b = cg.bodies[k]
        for c, kind, idx in cg.sinks_in(k):
            if kind in ('symlink', 'hard_link') and not c.f.get('local'):
                if 'KEEP' in fl.labels_of(fl.op_read(k, b, c.args[0])):
                    ctrl += 1
    ctx.check(ctrl >= 2, rule, 'positive-control', '-', 'control: KEEP reaches the source operand of %d link primitives (the propagation is live)' % ctrl, 'control failed: KEEP does not reach the link sources; the propagation lost the role labels')


def r5(ctx):
    rule = 'C02.R5'
    from . import c04
    before = len(ctx.obligations)
    c04.r4(ctx)
    for o in ctx.obligations[before:]:
        o['key'] = o['key'].replace(o['rule'] + '|', 'C02.R5|', 1)
        o['detail'] = '[%s] %s' % (o['rule'], o['detail'])
        o['rule'] = rule
    lib = ctx.lib
    b = lib.body('dedupe::partition')
    if b is None:
        return
    grp = b.calls(r'FileSubGroup.*::group$')
    rets = b.calls(r'::retain$')
    if grp and rets:
        ctx.check(all(G.bb in b.reachable(r.bb) and r.bb not in b.reachable(G.ret) for r in rets for G in grp[:1]), rule, b.path + '|filters-before-grouping', grp[0].where(), 'both retain() filters run before FileSubGroup::group', 'a filter runs after sub-grouping')


def r6(ctx):
    rule = 'C02.R6'
    lib = ctx.lib
    d = ctx.need_body(rule, 'dedupe::dedupe')
    if d is None:
        return
    # the flag
    flag_ok = False
    eqs = [c for c in d.calls(r'DedupeOp as std::cmp::PartialEq>::eq$')]
    vals = set()
    for c in eqs:
        for a in c.args:
            sl = backslice(d, [a])
            from ..analysis import slice_const_values
            for v in slice_const_values(lib, sl):
                if v and 'DedupeOp::' in v:
                    vals.add(v.rsplit('::', 1)[-1])
    ctx.check({'HardLink', 'RefLink'} <= vals, rule, d.path + '|flag', d.where(), 'disallow_cross_device = op in {HardLink, RefLink}', 'the cross-device flag covers only %s' % sorted(vals))
    # in the map closure: partition_by_key(device_id) under the flag, and partition() consumes its result
    found = False
    for cp in lib.closures_of(d.path):
        cb = lib.body(cp)
        pk = cb.calls(r'partition_by_key$')
        pt = cb.calls(r'dedupe::partition$')
        if pk and pt:
            found = True
            ctx.fn(cb)
            guard = None
            for dd in cb.dominators()[pk[0].bb]:
                t = cb.blocks[dd]['term']
                if t['k'] == 'switch':
                    sl = backslice(cb, [t['op']])
                    if any(n == 'disallow_cross_device' for _, n in sl.upvars):
                        tt, ft = switch_targets_bool(t)
                        nn = count_nots(cb, sl)
                        guard = cb.dominates(tt if nn % 2 == 0 else ft, pk[0].bb)
            ctx.check(bool(guard), rule, cp + '|per-device', pk[0].where(), 'the group is split by device whenever the flag is set', 'partition_by_key(device) is not applied under the cross-device flag')
            # key = device id
            keyc = [lib.body(x) for x in lib.closures_of(cp, recursive=False)]
            keyc += [hb for kc in list(keyc) for k in kc.calls(r'^dedupe::PathAndMetadata::\w+$') for hb in [lib.body(k.path)] if hb is not None]
            dev = any(kc.calls(r'device_id$|MetadataExt>::dev$|MetadataExt::dev$') for kc in keyc)
            ctx.check(dev, rule, cp + '|key', pk[0].where(), 'partition key = a device id', 'the partition key is not the device id')
            # ... of the directory entry that is going to be replaced: for a symbolic link `metadata` describes the TARGET (it may live on another device)
            def reads(body, name):
                from ..facts import rvalue_places, place_fields
                return any(name in place_fields(pl) for blk in body.blocks for st in blk['stmts'] for pl in rvalue_places(st['rv']))
            own = any(reads(kc, 'link_metadata') for kc in keyc)
            ctx.check(own, rule, cp + '|key-of-the-entry', pk[0].where(), 'for a symbolic link the key is the device of the link itself (link_metadata)',
                      'the groups are split by metadata.device_id() only, and for a symbolic link of a `-S` report `metadata` are those of the target: a link on another device than its target is put '
                      'into the partition of the target, and `link` issues a hard link across devices - the real run fails and restores the link, while the script printed by --dry-run (mv, ln, rm) '
                      'deletes it; a link whose target lives elsewhere is never linked to the files next to it')
            gsl = backslice(cb, [pt[0].args[0]])
            ctx.check(pk[0] in gsl.calls, rule, cp + '|partition-consumes', pt[0].where(), 'partition() receives the per-device groups', 'partition() does not consume the per-device groups')
    if not found:
        ctx.missing(rule, 'partition_by_key + partition in dedupe()', d.where())
    # the flag is computed from the same op that is later executed
    ds = [cb for cp in lib.closures_of(d.path) for cb in [lib.body(cp)] if cb.calls(r'dedupe_script$')]
    if ds:
        c = ds[0].calls(r'dedupe_script$')[0]
        sl = backslice(ds[0], [c.args[1]])
        ctx.check(any(n == 'op' for _, n in sl.upvars), rule, ds[0].path + '|same-op', c.where(), 'dedupe_script gets the same op', 'dedupe_script gets a different op than the one the flag was computed from')


def r7(ctx):
    from . import c04
    before = len(ctx.obligations)
    c04.r1(ctx)
    c04.r2(ctx)
    c04.r3(ctx)
    for o in ctx.obligations[before:]:
        o['key'] = o['key'].replace(o['rule'] + '|', 'C02.R7|', 1)
        o['detail'] = '[%s] %s' % (o['rule'], o['detail'])
        o['rule'] = 'C02.R7'
    ctx.rules_run.add('C02.R7')


def r8(ctx):
    from . import c06
    before = len(ctx.obligations)
    c06.r4(ctx)
    if hasattr(c06, 'r5'):
        try:
            c06.r5(ctx)
        except TypeError:
            pass
    for o in ctx.obligations[before:]:
        o['key'] = o['key'].replace(o['rule'] + '|', 'C02.R8|', 1)
        o['detail'] = '[%s] %s' % (o['rule'], o['detail'])
        o['rule'] = 'C02.R8'
    ctx.rules_run.add('C02.R8')
    p = ctx.lib.body('dedupe::partition')
    if p is not None:
        ctx.check(bool(p.calls(r'FileSubGroup::<.*>::group$|FileSubGroup::<F>::group$|FileSubGroup.*::group$')), 'C02.R8', 'dedupe::partition|uses-subgroups', p.where(), 'partition builds its units with FileSubGroup::group', 'partition no longer builds its units with FileSubGroup::group')


def reads_linkness(lib, body, operand_or_call, depth=0):
    """does the value depend on the link-ness of a path: field link_metadata, symlink_metadata / is_symlink calls, also inside closures handed to adaptors on the way"""
    sl = backslice(body, [operand_or_call]) if isinstance(operand_or_call, dict) else None
    calls = sl.calls if sl else [operand_or_call]
    if sl and ('link_metadata' in sl.field_names() or sl.has_call(r'symlink_metadata$|FileType::is_symlink$')):
        return True
    for c in calls:
        if c.matches(r'symlink_metadata$|FileType::is_symlink$'):
            return True
        for a in c.args:
            l = op_local(a)
            ty = body.local_ty(l) if l is not None else ''
            cps = [lib.closure_of_type(ty)] if ty else []
            # closures captured by reference inside other closures
            for cp in [x for x in cps if x]:
                cb = lib.body(cp)
                if cb is None:
                    continue
                if any('link_metadata' in place_fields(st['rv'].get('p') or [0, []]) for blk in cb.blocks for st in blk['stmts'] if st['rv'].get('p')) or cb.calls(r'symlink_metadata$|FileType::is_symlink$'):
                    return True
                if depth < 3:
                    for k in cb.calls():
                        if reads_linkness(lib, cb, k, depth + 1):
                            return True
        if c.f.get('self_closure') and depth < 3:
            cb = lib.body(c.f['self_closure'])
            if cb is not None and (any('link_metadata' in place_fields(st['rv'].get('p') or [0, []]) for blk in cb.blocks for st in blk['stmts'] if st['rv'].get('p'))):
                return True
    return False


def closure_reads_linkness(lib, cp, _seen=None):
    """does the closure (or a closure it calls / captures) read PathAndMetadata.link_metadata or lstat the path?"""
    seen = _seen if _seen is not None else set()
    if cp in seen or lib.body(cp) is None:
        return False
    seen.add(cp)
    cb = lib.body(cp)
    for blk in cb.blocks:
        for st in blk['stmts']:
            for pl in [st['rv'].get('p')] + [((o.get('c') or o.get('m')) if isinstance(o, dict) else None) for o in [st['rv'].get('op')] + list(st['rv'].get('ops') or [])]:
                if pl and 'link_metadata' in place_fields(pl):
                    return True
    if cb.calls(r'symlink_metadata$|FileType::is_symlink$'):
        return True
    for k in cb.calls():
        if k.f.get('self_closure') and closure_reads_linkness(lib, k.f['self_closure'], seen):
            return True
        for a in k.args:
            l = op_local(a)
            cq = lib.closure_of_type(cb.local_ty(l).lstrip('&').strip()) if l is not None else None
            if cq and closure_reads_linkness(lib, cq, seen):
                return True
    return False


def r9(ctx):
    rule = 'C02.R9'
    lib = ctx.lib
    from .common import bypass_decisions
    fm = lib.body('file::FileMetadata::new')
    if fm is not None and fm.calls(r'^std::fs::symlink_metadata$') and not fm.calls(r'^std::fs::metadata$'):
        ctx.ok(rule, 'dedupe::partition|links-hold-no-data', fm.where(), 'FileMetadata::new does not follow links: a symbolic link fails the regular-file test of partition')
        return
    pt = ctx.need_body(rule, 'dedupe::partition')
    ds = ctx.need_body(rule, 'dedupe::PartitionedFileGroup::dedupe_script')
    if ds is not None:
        # the loop over the dropped files may be written as `into_iter().filter_map(|f| ..).collect()`: the closure body is looked at where the loop would stand
        from ..desugar import desugared
        ds = desugared(lib, ds, adaptors=True)
    if pt is None or ds is None:
        return
    # (a) partition: a retained-set extension that depends on link-ness
    ok_a = False
    site = pt.where()
    for c in pt.calls(r'Vec<.*>::(push|extend|insert|append)$|Extend<.*>>::extend$|::push$'):
        names = {pt.local_name(l) for l in backslice(pt, [c.args[0]]).locals}
        if 'to_retain' not in names:
            continue
        for d, bypass in bypass_decisions(pt, c.bb):
            if reads_linkness(lib, pt, pt.blocks[d]['term']['op']):
                ok_a = True
                site = c.where()
    ctx.check(ok_a, rule, 'dedupe::partition|links-hold-no-data', site, 'partition extends the retained set with a real file when it would consist of symbolic links only',
              'partition never looks at whether a path is a symbolic link (its metadata follow links): with a report made by `group -S --isolate links data` the link and its target are two replicas, '
              'the retained one can be the link and the dropped one the only regular file: `remove` deletes the data and leaves a dangling link')
    # (a2) what is compared with n does not count link-only sub-groups
    from ..analysis import direct_def
    cnt = [c for c in pt.calls(r'Iterator>::count$|Iterator::count$') if any(c.bb in pt.reachable(x) for x in pt.succs(c.bb))]
    lens = [c for c in pt.calls(r'saturating_sub$')]
    if cnt:
        okc = False
        op_ = cnt[0].args[0]
        for _ in range(6):          # walk the method chain to_retain.iter().filter(closure).count()
            dd_ = direct_def(pt, op_)
            if dd_[0] != 'call' or not dd_[1].args:
                break
            for a_ in dd_[1].args[1:]:
                l_ = op_local(a_)
                cp_ = lib.closure_of_type(pt.local_ty(l_)) if l_ is not None else None
                if cp_ and closure_reads_linkness(lib, cp_):
                    okc = True
            op_ = dd_[1].args[0]
        where_ = cnt[0].where()
    else:
        okc = False
        where_ = lens[0].where() if lens else pt.where()
    ctx.check(okc, rule, 'dedupe::partition|replica-count-excludes-links', where_, 'the number of retained replicas that is compared with n counts only sub-groups holding a real file',
              'the top-up compares n with the plain number of retained sub-groups: with `group -S --isolate -n 2` a retained symbolic link counts as one of the 2 replicas while the file it points to '
              'is dropped - one readable copy is left instead of two')
    # (a2b) nothing is dropped when nothing that holds data is retained (a group of links only): dedupe_script asserts a non-empty to_keep
    ap = [c for c in pt.calls(r'Vec<.*>::(append|extend)$|Vec::<T, A>::(append|extend)$|Extend<.*>>::extend$') if 'to_retain' in {pt.local_name(l) for l in backslice(pt, [c.args[0]]).locals}]
    okn = False
    for c in ap:
        src_names = {pt.local_name(l) for a in c.args[1:] for l in backslice(pt, [a]).locals}
        if 'to_drop' not in src_names:
            continue
        for d, bypass in bypass_decisions(pt, c.bb):
            sl_ = backslice(pt, [pt.blocks[d]['term']['op']])
            if sl_.has_call(r'Iterator>::any$|Iterator::any$|Iterator>::all$|Iterator::all$|::is_empty$'):
                okn = True
    ctx.check(okn, rule, 'dedupe::partition|nothing-retained-nothing-dropped', (ap[0].where() if ap else pt.where()), 'when no sub-group that holds data is retained, everything is retained (nothing can be dropped safely)',
              'the retained set can be empty while the dropped set is not: for a group that consists of symbolic links only (targets not scanned) no sub-group is a replica, the top-up promotes nothing, '
              'and PartitionedFileGroup::dedupe_script hits assert!(!to_keep.is_empty()): remove / link / move panic (exit 101) in the middle of the run, also with --dry-run')
    # (a3) aliases: several reported paths that are one directory entry (symlinked or bind-mounted parent directory)
    bodies = [pt] + [lib.body(x) for x in lib.closures_of(pt.path)]
    nl = [c for x in bodies for c in x.calls(r'MetadataExt>::nlink$|MetadataExt::nlink$|Metadata::nlink$|path::Path::parent$')]
    oka = False
    by_count = False
    if nl:
        for c in pt.calls(r'Vec<.*>::(push|extend|insert|append)$|Vec::<T, A>::push$'):
            names = {pt.local_name(l) for l in backslice(pt, [c.args[0]]).locals}
            if 'to_retain' not in names:
                continue
            for d, bypass in bypass_decisions(pt, c.bb):
                sl_ = backslice(pt, [pt.blocks[d]['term']['op']])
                for k in sl_.calls:
                    for a in k.args:
                        l = op_local(a)
                        cp = lib.closure_of_type(pt.local_ty(l)) if l is not None else None
                        stack = [cp] if cp else []
                        seen_ = set()
                        while stack:
                            q = stack.pop()
                            if q in seen_ or lib.body(q) is None:
                                continue
                            seen_.add(q)
                            qb = lib.body(q)
                            if qb.calls(r'path::Path::parent$') and qb.calls(r'path::Path::file_name$') and qb.calls(r'FileMetadata::new$|^std::fs::metadata$'):
                                oka = True
                            if qb.calls(r'nlink$'):
                                by_count = True
                            for kk in qb.calls():
                                for aa in kk.args:
                                    ll = op_local(aa)
                                    cq = lib.closure_of_type(qb.local_ty(ll)) if ll is not None else None
                                    if cq:
                                        stack.append(cq)
                                if kk.f.get('self_closure'):
                                    stack.append(kk.f['self_closure'])
                            # closures captured by reference (is_alias used inside the position closure)
                            for ty_ in [l_['ty'] for l_ in qb.raw.get('locals', [])]:
                                cq = lib.closure_of_type(ty_.lstrip('&').strip()) if 'closure@' in ty_ else None
                                if cq:
                                    stack.append(cq)
    ctx.check(oka, rule, 'dedupe::partition|aliases-not-dropped', (nl[0].where() if nl else pt.where()), 'a sub-group is retained when another reported path is the same directory entry (same parent directory id and file name)',
              ('aliases are recognised only by counting (more reported paths with a file id than the file has links): one more hard link of the file outside the group (a snapshot, another tree) makes two paths that are '
               'the SAME entry look like ordinary hard links, and the retained file is removed with the dropped one; ' if by_count else '') +
              'partition treats all reported paths as different directory entries: after a parent directory was replaced by a symbolic link to the other directory (`rm -rf backup; ln -s photos backup`), '
              'or with a bind mount, photos/a.jpg and backup/a.jpg are the same entry (same file id, link count 1) - one is "retained", the other removed, and the only copy is gone')
    # (b) the link target is chosen by link-ness
    tgt = ds.calls(r'Vec<.*>::(swap_remove|remove)$|::swap_remove$')
    ok_b = bool(tgt) and any(reads_linkness(lib, ds, c.args[1]) for c in tgt if len(c.args) > 1)
    ctx.check(ok_b, rule, ds.path + '|link-target-is-real', (tgt[0].where() if tgt else ds.where()), 'the file that the dropped ones are linked to is chosen among the retained real files',
              'the link target is simply the first retained path; when that is a symbolic link (report made with -S), `link` makes a hard link to the symlink itself (linkat does not follow): '
              'a relative link dangles at the new place and the original path no longer reads back its bytes')
    # (c) a link is not moved by rename
    mv = [st for bi, st in aggregates(ds, 'dedupe::FsCommand', variant='Move')] if aggregates(ds, 'dedupe::FsCommand', variant='Move') else []
    if mv:
        ur = agg_field(mv[0], 'use_rename')
        ok_c = ur is not None and reads_linkness(lib, ds, ur)
        if ur is not None:
            # `!is_link(&source) && are_on_same_mount(..)`: the second operand is only evaluated on one side of a test of the link-ness -
            # the value depends on that test although no data flows from it
            usl = backslice(ds, [ur])
            by_control = False
            for k_ in usl.calls:
                if not k_.matches(r'are_on_same_mount$'):
                    continue
                for d_ in ds.dominators()[k_.bb]:
                    t_ = ds.blocks[d_]['term']
                    if t_['k'] == 'switch' and d_ != k_.bb and reads_linkness(lib, ds, t_['op']):
                        by_control = True
            # the accidental way the old clause was satisfied (any link-ness read somewhere behind the slice) does not count any more
            ok_c = by_control
        ctx.check(ok_c, rule, ds.path + '|move-link-by-copy', ds.where(mv[0]['line']), 'use_rename is false for a symbolic link (the file it points to is copied)',
                  'a symbolic link reported with -S is moved with rename(): a relative link points nowhere from the target directory, the bytes are not readable there')
    else:
        ctx.missing(rule, 'FsCommand::Move construction in dedupe_script', ds.where())

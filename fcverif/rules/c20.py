"""C20 - files locked by another process are left alone."""
import re
from . import register
from ..analysis import (backslice, classify_result, switch_on_result_of, variant_arms, dominated_region,
                        return_variants_from, slice_const_values, comparisons, branch_of, promoted_value)
from ..callgraph import CallGraph, sink_kind, open_mode
from ..facts import const_bool, op_const, place_fields, op_local, rvalue_places

DOC = {
    'explanation': 'Static conformance of the lock-then-act discipline: in the resolved MIR of FsCommand::execute every enum arm '
                   'attempts the advisory lock on the path it is about to remove/replace/move, the attempt dominates every call that can '
                   'reach a file-system mutating primitive, and its failure is propagated (C20.R1); maybe_lock swallows only '
                   'ErrorKind::Unsupported (R2); FileLock::new write-opens and issues a non-blocking F_SETLK/F_WRLCK and every failure '
                   'returns Err (R3); the should_lock flag is the negated --no-lock option (R4). The behaviour under real foreign locks is not executed.',
    'rules': {
        'C20.R1': 'every arm of execute: maybe_lock(<path to be affected>, should_lock) dominates every mutating call and its result is propagated',
        'C20.R2': 'maybe_lock maps only ErrorKind::Unsupported to Ok(None); lock=false is the only other Ok(None)',
        'C20.R3': 'FileLock::new: write-open, then fcntl(F_SETLK, F_WRLCK) over the whole file (l_start = l_len = 0); every failure returns Err',
        'C20.R9': 'the file that is written is the file that is locked: the lock step refuses symbolic links (opening one would lock its target), so no command that writes THROUGH the path is generated for a link - dedupe_script makes a RefLink command (which opens the destination path for writing and clones into it) only for a path that is not a symbolic link',
        'C20.R8': 'the lock is not lost half way: a traditional fcntl record lock is released when the process closes any descriptor of the file (fs::copy of a cross-device move, the backup clone of dedupe open the locked file again), so FileLock takes a lock owned by the open file description (F_OFD_SETLK; it conflicts with the record locks of other processes all the same) - or nothing under execute() opens files again',
        'C20.R7': 'the lock is held for the duration of the operation: in every arm of execute the Option<FileLock> returned by maybe_lock is dropped only after the last mutating call of the arm (a guard bound with `let _ =` is dropped immediately, which turns the lock into a probe)',
        'C20.R6': 'taking the lock needs no permission that the operation itself does not need (removing / replacing a name needs write access to the directory, not to the file): when the write-open is denied, FileLock::new falls back to a read-only open and a lock probe instead of failing - otherwise read-only duplicates are listed by --dry-run (and removed by its script) but skipped with an error by the real run',
        'C20.R5': 'FileLock::new never opens through a symbolic link (lstat test on the false edge before the open, or O_NOFOLLOW): the commands act on the link itself, so the lock of the file it points to is irrelevant and the open fails once that file is gone - a link reported with -S whose target is dropped first was left dangling by the real run while the dry run removes it',
        'C20.R4': 'run_script passes !no_lock as should_lock to execute',
    },
    'not_decided': 'semantics of fcntl locks in the kernel (until D104 the lock was only a probe - the guard was dropped at once - and I had written that off as sufficient; C20.R7 now requires the guard to outlive the operation)',
    'assumptions': ['FileLock::new is the only lock primitive', 'the table of mutating primitives (callgraph.SINKS) is complete for the crates fclones uses'],
}

EXEC = 'dedupe::FsCommand::execute'


def affected_fields(ctx, unit):
    """variant -> field naming the file that is affected, read off the sibling
    `file_to_remove` (falls back to the table confirmed by reading)."""
    table = {'Remove': 'file', 'SoftLink': 'link', 'HardLink': 'link', 'RefLink': 'link', 'Move': 'source'}
    b = unit.body('dedupe::FsCommand::file_to_remove')
    if b is None:
        return table, 'table'
    got = {}
    for blk in b.blocks:
        for s in blk['stmts']:
            rv = s['rv']
            ps = [rv['p']] if rv['k'] in ('ref',) else []
            for p in ps:
                var = None
                for e in p[1]:
                    if isinstance(e, list) and e[0] == 'D':
                        var = e[2]
                    elif isinstance(e, list) and e[0] == 'F' and var and var not in got:
                        got[var] = e[2]
    return (got, 'file_to_remove') if len(got) >= 5 else (table, 'table')


@register('C20', DOC)
def run(ctx):
    lib = ctx.lib
    cg = CallGraph([lib])
    ex = ctx.need_body('C20.R1', EXEC)
    if ex is not None:
        r1(ctx, lib, cg, ex)
        r7(ctx, lib, cg, ex)
        r8(ctx, lib, cg, ex)
    r9(ctx, lib)
    r2(ctx, lib)
    r3(ctx, lib)
    r4(ctx, lib)
    r5(ctx, lib)
    r6(ctx, lib)


def r9(ctx, lib):
    rule = 'C20.R9'
    b = ctx.need_body(rule, 'dedupe::PartitionedFileGroup::dedupe_script')
    if b is not None:
        # the loop over the dropped files may be written as `into_iter().filter_map(|f| ..).collect()`: the closure body is looked at where the loop would stand
        from ..desugar import desugared
        b = desugared(lib, b, adaptors=True)
    if b is None:
        return
    from .common import bypass_decisions
    aggs = [(bi, st) for bi, blk in enumerate(b.blocks) if not blk['cleanup'] for st in blk['stmts']
            if st['rv']['k'] == 'agg' and st['rv'].get('adt') == 'dedupe::FsCommand' and st['rv'].get('variant') == 'RefLink']
    if not ctx.floor(rule, 'RefLink commands built in dedupe_script', len(aggs), 1, b.where()):
        return
    def reads_linkness(x):
        return any('link_metadata' in place_fields(pl) for blk in x.blocks for st in blk['stmts'] for pl in rvalue_places(st['rv']))
    for bi, st in aggs:
        guarded = False
        for d in b.dominators()[bi]:
            t_ = b.blocks[d]['term']
            if t_['k'] != 'switch' or not any(b.dominates(x, bi) for x in dict.fromkeys(t_['tgts'])):
                continue
            sl = backslice(b, [t_['op']])
            if 'link_metadata' in sl.field_names():
                guarded = True
            for c in sl.calls:
                # a closure (`is_link`) or a local function that looks at link_metadata
                if c.f.get('self_closure') and lib.body(c.f['self_closure']) is not None and reads_linkness(lib.body(c.f['self_closure'])):
                    guarded = True
                l0 = op_local(c.args[0]) if c.args else None
                cp = lib.closure_of_type(b.local_ty(l0)) if l0 is not None else None
                if cp and reads_linkness(lib.body(cp)):
                    guarded = True
                if c.f.get('local') and lib.body(c.path) is not None and reads_linkness(lib.body(c.path)):
                    guarded = True
        ctx.check(guarded, rule, b.path + '|no-reflink-through-a-link', b.where(st['line']), 'a RefLink command is made only for a path that is not a symbolic link',
                  'with a --symbolic-links report a dropped symbolic link L -> A becomes RefLink{retained, L}: maybe_lock skips the lock (FileLock refuses links), linux_reflink opens L for writing - '
                  'that is A - and clones the retained file into it: a file that is locked by another process, and that need not be one of the reported files at all, is written to ("Processed 1 files")')


def r8(ctx, lib, cg, ex):
    """The lock stays until the guard is dropped: a traditional record lock (F_SETLK) belongs to the process and is released when the process closes
    ANY descriptor of the file - so either the lock belongs to the open file description (F_OFD_SETLK, flock), or nothing under execute() opens files again."""
    rule = 'C20.R8'
    lk = ctx.need_body(rule, 'lock::FileLock::fcntl_lock')
    if lk is None:
        return
    bodies = [lk] + [hb for k in lk.calls(r'^lock::FileLock::\w+$') for hb in [lib.body(k.path)] if hb is not None]
    variants = sorted({st['rv'].get('variant') for x in bodies for blk in x.blocks for st in blk['stmts']
                       if st['rv']['k'] == 'agg' and st['rv'].get('adt') == 'nix::fcntl::FcntlArg'})
    flock = any(x.calls(r'nix::fcntl::flock$|^libc::flock$|Flock') for x in bodies)
    if not variants and not flock:
        ctx.missing(rule, 'the fcntl command of FileLock::fcntl_lock', lk.where())
        return
    owned_by_description = flock or (variants and all(v.startswith('F_OFD_') for v in variants))
    # who opens files while a guard is alive: everything reachable from execute()
    reopen = []
    if not owned_by_description:
        for k in sorted(cg.reachable([k_ for k_ in cg.bodies if k_[1] == ex.path] if isinstance(next(iter(cg.bodies)), tuple) else [ex.path])):
            b = cg.bodies[k]
            if b.path.startswith('lock::'):
                continue
            for c in b.calls(r'^std::fs::copy$|^std::fs::File::open$|OpenOptions::open$|^std::fs::read'):
                reopen.append((b, c))
    ctx.check(owned_by_description or not reopen, rule, lk.path + '|lock-survives-reopening', (reopen[0][1].where() if reopen else lk.where()),
              ('the lock belongs to the open file description (%s): closing another descriptor of the file does not release it' % (', '.join(variants) or 'flock') if owned_by_description else
               'a process-owned record lock, and nothing under execute() opens files again'),
              'the lock is a traditional record lock (%s): it belongs to the process and the kernel releases it as soon as the process closes ANY descriptor of the file. %s opens the locked file '
              'again (%d such sites under execute(): fs::copy of a cross-device move, the backup clone of dedupe) and closes it - from then on the guard guards nothing: another process gets the '
              'lock while the copy exists and the source is about to be unlinked, and loses what it writes' % (', '.join(variants), reopen[0][0].path if reopen else '-', len(reopen)))


def r7(ctx, lib, cg, ex):
    """The lock is held while the file is operated on: the guard returned by maybe_lock is not dropped before the mutating calls of its arm."""
    rule = 'C20.R7'
    arms = variant_arms(ex, lib, 1)
    if not arms:
        return
    sw, arm_map, _ = arms[0]
    n = 0
    for var, tgt in sorted(arm_map.items()):
        region = dominated_region(ex, tgt)
        locks = [c for c in ex.calls(r'FsCommand::maybe_lock$') if c.bb in region]
        hoisted_ = [c for c in ex.calls(r'FsCommand::maybe_lock$') if c.bb not in region and ex.dominates(c.bb, sw)]
        if not locks and not hoisted_:
            continue
        L = (locks or hoisted_)[0]
        mut = []
        for c in ex.calls():
            if c.bb not in region or c.matches(r'FsCommand::maybe_lock$'):
                continue
            if (sink_kind(c) and not c.f.get('local')) or (c.f.get('local') and c.path in cg.bodies and cg.may_mutate(c.path)) or (c.f.get('self_closure') and cg.may_mutate(c.f['self_closure'])):
                mut.append(c)
        if not mut:
            continue
        n += 1
        # the drops of a value of type Option<FileLock> / FileLock in this arm (normal control flow only)
        scope_ = region if locks else (ex.reachable(L.ret) if L.ret is not None else set())     # a lock taken before the match lives until after it
        drops = [bi for bi in scope_ if not ex.blocks[bi]['cleanup'] and ex.blocks[bi]['term']['k'] == 'drop'
                 and 'FileLock' in ex.local_ty(ex.blocks[bi]['term']['p'][0])]
        early = [d for d in drops if any(m.bb in ex.reachable(d) for m in mut)]
        ctx.check(bool(drops) and not early, rule, '%s|arm=%s|guard-outlives-operation' % (EXEC, var), (ex.where(ex.blocks[early[0]]['term']['line']) if early else L.where()),
                  'the lock guard is dropped only after the mutating calls of the arm',
                  'the guard returned by maybe_lock is dropped at once (`let _ = ..` does not bind it): FileLock::drop sends F_UNLCK before rename / link / unlink / the copy start, so the "lock" is a probe '
                  'at one instant - a process that locks the file a moment later gets the lock, writes under it, and its file is replaced or removed all the same (strace: F_SETLK F_WRLCK = 0, '
                  'F_SETLK F_UNLCK = 0, rename .., linkat .., unlink ..)')
    ctx.floor(rule, 'arms of execute that lock and mutate', n, 5, ex.where())


def r1(ctx, lib, cg, ex):
    rule = 'C20.R1'
    fields, src = affected_fields(ctx, lib)
    arms = variant_arms(ex, lib, 1)
    if not arms:
        ctx.missing(rule, 'match on *self in execute', ex.where())
        return
    sw, arm_map, _ = arms[0]
    adt = lib.adts.get('dedupe::FsCommand')
    nvar = len(adt['variants']) if adt else 5
    ctx.floor(rule, 'execute arms', len(arm_map), nvar, ex.where())
    locks_total = 0
    for var, tgt in sorted(arm_map.items()):
        region = dominated_region(ex, tgt)
        locks = [c for c in ex.calls(r'FsCommand::maybe_lock$') if c.bb in region]
        # one lock taken before the match, on `self.file_to_remove()`, stands for a lock at the head of every arm: the sibling names the
        # affected file of each variant (the table `fields` is read off that very function)
        hoisted = [c for c in ex.calls(r'FsCommand::maybe_lock$') if c.bb not in region and ex.dominates(c.bb, sw) and src == 'file_to_remove'
                   and backslice(ex, [c.args[0]]).has_call(r'FsCommand::file_to_remove$') and 1 in backslice(ex, [c.args[0]]).params]
        locks = locks + hoisted
        locks_total += len(locks)
        mut = []
        for c in ex.calls():
            if c.bb not in region or c.matches(r'FsCommand::maybe_lock$'):
                continue
            if sink_kind(c) and not c.f.get('local'):
                mut.append(c)
            elif c.f.get('local') and c.path in cg.bodies and cg.may_mutate(c.path):
                mut.append(c)
            elif c.f.get('self_closure') and cg.may_mutate(c.f['self_closure']):
                mut.append(c)
        key = '%s|arm=%s' % (EXEC, var)
        where = ex.where(ex.blocks[tgt]['term']['line']) if not locks else locks[0].where()
        if not mut:
            ctx.note(rule, where, 'arm %s contains no mutating call' % var)
        if not locks:
            if mut:
                ctx.violation(rule, key, where, 'arm %s mutates (%s) without calling maybe_lock' % (var, mut[0].path))
            continue
        # a lock attempt qualifies if (1) its path operand is the affected file of this variant,
        # (2) its flag derives from should_lock, (3) failure is propagated and success dominates all mutators
        good = None
        why = []
        for L in locks:
            sl = backslice(ex, [L.args[0]])
            want = fields.get(var)
            if L in hoisted:
                pass
            elif want not in sl.field_names() or 'path' not in sl.field_names():
                why.append('lock path derives from {%s}, expected field `%s.path`' % (','.join(sorted(sl.field_names())), want))
                continue
            fl = backslice(ex, [L.args[1]])
            if 2 not in fl.params and 'should_lock' not in fl.param_names(ex):
                why.append('lock flag does not derive from parameter should_lock (%s)' % fl.describe(ex))
                continue
            sw_ = switch_on_result_of(ex, L)
            fate = classify_result(ex, L)
            if sw_ is None:
                why.append('result of maybe_lock is not propagated (%s%s)' % (','.join(sorted(fate.kinds)), '; ' + '; '.join(fate.notes) if fate.notes else ''))
                continue
            ok_blocks = sw_['ok']
            bad = [m for m in mut if not any(ex.dominates(o, m.bb) for o in ok_blocks)]
            if bad:
                why.append('mutating call %s at %s is not dominated by the success edge of the lock attempt' % (bad[0].path, bad[0].where()))
                continue
            # the failure edge must not mutate and must return Err
            err_ok = True
            for e in sw_['err']:
                reach = ex.reachable(e)
                if any(m.bb in reach for m in mut):
                    why.append('a mutating call is reachable from the failure edge of the lock attempt')
                    err_ok = False
                rv = return_variants_from(ex, e)
                if 'Ok' in rv:
                    why.append('the failure edge of the lock attempt can return Ok')
                    err_ok = False
            if not err_ok:
                continue
            good = L
            break
        if good:
            ctx.ok(rule, key, good.where(), 'maybe_lock(%s.path, should_lock)? dominates %d mutating call(s): %s' % (
                fields.get(var), len(mut), ', '.join(sorted({m.path.split('::')[-1] for m in mut}))))
        else:
            ctx.violation(rule, key, locks[0].where(), 'arm %s: %s' % (var, '; '.join(why)))
    ctx.floor(rule, 'maybe_lock call sites in execute', locks_total, 5, ex.where())
    ctx.stats['C20.R1:affected-field source'] = src


def r2(ctx, lib):
    rule = 'C20.R2'
    b = ctx.need_body(rule, 'dedupe::FsCommand::maybe_lock')
    if b is None:
        return
    news = b.calls(r'lock::FileLock::new$')
    if not ctx.floor(rule, 'FileLock::new in maybe_lock', len(news), 1, b.where()):
        return
    key = 'dedupe::FsCommand::maybe_lock'
    for n in news:
        # the lock attempt is made whenever the flag is true: the only guard is the `lock` parameter
        sw = switch_on_result_of(b, n)
        if sw is None or not sw['err']:
            fate = classify_result(b, n)
            if 'RETURNED' in fate.kinds or 'PROPAGATED' in fate.kinds:
                ctx.ok(rule, key + '|err-arm', n.where(), 'lock result returned unchanged')
                continue
            ctx.violation(rule, key + '|err-arm', n.where(), 'result of FileLock::new is neither matched nor returned (%s)' % fate)
            continue
        # blocks on the error side that produce Ok must be guarded by `kind == Unsupported`
        ok_in_err = []
        for e in sw['err']:
            for x in b.reachable(e):
                for s in b.blocks[x]['stmts']:
                    if s['p'][0] == 0 and s['rv']['k'] == 'agg' and s['rv'].get('variant') == 'Ok':
                        ok_in_err.append(x)
        guards = []
        for cmp in comparisons(b):
            if cmp.op not in ('==', '!='):
                continue
            sa = backslice(b, [cmp.a])
            sb = backslice(b, [cmp.b])
            vals = slice_const_values(lib, sa) + slice_const_values(lib, sb)
            kinds = [v for v in vals if v and 'ErrorKind::' in v]
            br = branch_of(b, cmp)
            if br is None or not kinds:
                continue
            swb, t, f = br
            eqt = t if cmp.op == '==' else f
            guards.append((kinds, eqt, cmp))
        bad = []
        for x in set(ok_in_err):
            g = [g for g in guards if b.dominates(g[1], x)]
            if not g:
                bad.append((x, 'Ok produced on the error path without an ErrorKind test'))
            else:
                for kinds, _, cmp in g:
                    for k in kinds:
                        if not k.endswith('ErrorKind::Unsupported'):
                            bad.append((x, 'error kind %s is swallowed' % k))
        if bad:
            for x, why in bad:
                ctx.violation(rule, key + '|swallow', b.where(b.blocks[x]['term']['line']), why)
        else:
            ctx.ok(rule, key + '|swallow', n.where(), 'Err arm yields Ok only under kind()==ErrorKind::Unsupported (%d guarded block(s)); otherwise Err is returned' % len(set(ok_in_err)))
        # the Err must be returned on the remaining path
        rvs = set()
        for e in sw['err']:
            rvs |= return_variants_from(b, e)
        ctx.check('Err' in rvs, rule, key + '|err-returned', n.where(), 'the non-swallowed error is returned as Err', 'no Err is returned from the error arm')
    # the call of FileLock::new is guarded only by the `lock` parameter
    for n in news:
        doms = [d for d in b.dominators()[n.bb] if b.blocks[d]['term']['k'] == 'switch' and d != n.bb]
        okg = True
        for d in doms:
            sl = backslice(b, [b.blocks[d]['term']['op']])
            if not (sl.params <= {2} and not sl.calls):
                okg = False
        ctx.check(okg, rule, key + '|guard', n.where(), 'lock attempt guarded only by parameter `lock`', 'lock attempt is additionally guarded by a condition not derived from `lock`')


def r3(ctx, lib):
    rule = 'C20.R3'
    b = ctx.need_body(rule, 'lock::FileLock::new')
    if b is None:
        return
    key = 'lock::FileLock::new'
    opens = b.calls(r'^std::fs::OpenOptions::open$')
    if not ctx.floor(rule, 'open in FileLock::new', len(opens), 1, b.where()):
        return
    o = opens[0]
    methods, unknown, sl = open_mode(b, o)
    # write(true) must be applied; create(true)/truncate(true) must not
    wr = any(c.path.endswith('OpenOptions::write') and const_bool(c.args[1]) is True for c in sl.calls)
    bad = [c.path.split('::')[-1] for c in sl.calls if re.search(r'OpenOptions::(create|create_new|truncate|append)$', c.path) and const_bool(c.args[1]) is not False]
    ctx.check(wr and not bad, rule, key + '|open-mode', o.where(), 'opened with write(true), never create/truncate',
              'open mode: write=%s, forbidden=%s' % (wr, bad))
    psl = backslice(b, [o.args[1]])
    ctx.check(1 in psl.params, rule, key + '|open-path', o.where(), 'opened path derives from the parameter', 'opened path does not derive from the parameter')
    fate = classify_result(b, o)
    from ..analysis import return_variants_from
    # `open(..).map_err(..)?`, or a `match` whose Err arm returns an error (it may first try the read-only probe, which returns on its own)
    matched_err = 'MATCHED' in fate.kinds and bool(fate.err_arm_blocks) and all('Err' in return_variants_from(b, eb) for eb in fate.err_arm_blocks)
    ctx.check('PROPAGATED' in fate.kinds or matched_err, rule, key + '|open-err', o.where(), 'open failure propagated (`?`, or an Err arm that returns an error)', 'open failure not propagated: %s' % fate)
    from ..analysis import result_tests, reachable_state
    locks = b.calls(r'lock::FileLock::fcntl_lock$')
    probes = b.calls(r'lock::FileLock::fcntl_test_lock$')
    if ctx.floor(rule, 'fcntl_lock in FileLock::new', len(locks), 1, b.where()):
        l = locks[0]
        ot = result_tests(b, o)
        dom_ok = bool(ot) and l.bb not in reachable_state(b, 0, ot, 'err')
        ctx.check(dom_ok, rule, key + '|order', l.where(), 'fcntl_lock is reached only after the write-open succeeded', 'fcntl_lock can be reached although the open failed')
        # every FileLock (the success value) is built only after a lock call succeeded
        lt = {}
        for c_ in locks + probes:
            lt.update(result_tests(b, c_))
        aggs = [bi for bi, blk in enumerate(b.blocks) if not blk['cleanup'] for s in blk['stmts']
                if s['rv']['k'] == 'agg' and s['rv'].get('adt') == 'lock::FileLock']
        lock_blocks = {c_.bb for c_ in locks + probes}
        # (a) no FileLock without passing a lock call, (b) none when the lock call it passed failed
        unguarded = [a for a in aggs if a in b.reachable(0, avoid=lock_blocks)]
        after_fail = [a for a in aggs if a in reachable_state(b, 0, lt, 'err') and not any(a in reachable_state(b, c_.ret, lt, 'ok') and c_.bb in b.dominators()[a] for c_ in locks + probes)]
        ctx.check(bool(aggs) and bool(lt) and not unguarded and not after_fail, rule, key + '|lock-err', l.where(), 'lock failure returns Err; FileLock is built only after the lock (or the lock probe) succeeded',
                  'a FileLock is returned %s' % ('without any lock call on the path' if unguarded else 'on a path where the lock call failed'))
    if probes:
        tb = lib.body('lock::FileLock::fcntl_test_lock')
        if tb is not None:
            from ..analysis import comparisons, branch_of
            good = False
            for cmp in comparisons(tb):
                sa, sb_ = backslice(tb, [cmp.a]), backslice(tb, [cmp.b])
                lt_side = 'l_type' in sa.field_names() or 'l_type' in sb_.field_names()
                unl = any(i.endswith('F_UNLCK') for i in sa.items | sb_.items) or any('F_UNLCK' in (v or '') for v in slice_const_values(lib, sa) + slice_const_values(lib, sb_))
                br = branch_of(tb, cmp)
                if lt_side and unl and cmp.op in ('==', '!=') and br:
                    sw_, tt_, ft_ = br
                    eq_side = tt_ if cmp.op == '==' else ft_
                    ne_side = ft_ if cmp.op == '==' else tt_
                    oks = [bi for bi, blk in enumerate(tb.blocks) for s_ in blk['stmts'] if s_['p'][0] == 0 and s_['rv']['k'] == 'agg' and s_['rv'].get('variant') == 'Ok']
                    good = bool(oks) and all(tb.dominates(eq_side, x) for x in oks) and not any(x in tb.reachable(ne_side) for x in oks)
            ctx.check(good, rule, 'lock::FileLock::fcntl_test_lock|unlocked-only', tb.where(), 'the probe succeeds only when F_GETLK reports F_UNLCK (no conflicting lock)',
                      'the lock probe can return Ok although F_GETLK reported a conflicting lock')
    for FN, CMD in (('lock::FileLock::fcntl_lock', 'F_SETLK'),) + ((('lock::FileLock::fcntl_test_lock', 'F_GETLK'),) if probes else ()):
        fl = ctx.need_body(rule, FN)
        if fl is None:
            continue
        fc = fl.calls(r'^nix::fcntl::fcntl$')
        if ctx.floor(rule, 'fcntl call', len(fc), 1, fl.where()):
            c = fc[0]
            sl = backslice(fl, [c.args[1]])
            # (the command may be chosen by a helper of FileLock: the process-owned F_SETLK or the description-owned F_OFD_SETLK, both non-blocking)
            flh = [fl] + [hb for k in fl.calls(r'^lock::FileLock::\w+$') for hb in [lib.body(k.path)] if hb is not None]
            cmds = {s['rv'].get('variant') for x in flh for blk in x.blocks for s in blk['stmts'] if s['rv']['k'] == 'agg' and s['rv'].get('adt') == 'nix::fcntl::FcntlArg'}
            setlk = bool(cmds) and cmds <= {CMD, CMD.replace('F_', 'F_OFD_', 1)}
            ctx.check(setlk, rule, FN + '|cmd', c.where(), 'non-blocking %s' % '/'.join(sorted(cmds)), 'fcntl command is not the non-blocking %s (%s)' % (CMD, sorted(cmds)))
            # l_type assigned from F_WRLCK
            wr = False
            for blk in fl.blocks:
                for s in blk['stmts']:
                    if 'l_type' in place_fields(s['p']):
                        vs = slice_const_values(lib, backslice(fl, rvalue_ops(s)))
                        wr = any('F_WRLCK' in (v or '') or v in ('const 1_i32', 'const 1_i16') for v in vs) or wr
                        items = backslice(fl, rvalue_ops(s)).items
                        wr = wr or any(i.endswith('F_WRLCK') for i in items)
            ctx.check(wr, rule, FN + '|type', c.where(), 'l_type = F_WRLCK', 'l_type is not assigned from F_WRLCK')
            # the probed region is the whole file: l_start / l_len stay 0 (zeroed struct), l_whence = SEEK_SET
            region_bad = []
            for blk in fl.blocks:
                for s in blk['stmts']:
                    fs = place_fields(s['p'])
                    if fs and fs[-1] in ('l_start', 'l_len') and any(isinstance(e, list) and e[0] == 'F' and len(e) > 3 and e[3].endswith('flock') for e in s['p'][1]):
                        sl2 = backslice(fl, rvalue_ops(s))
                        vals = slice_const_values(lib, sl2)
                        zero = vals and all(re.match(r'^(const )?0(_i64|_i32|_isize)?$', v or '') for v in vals) and not sl2.calls and not sl2.params
                        if not zero:
                            region_bad.append((fs[-1], s['line']))
            fsl = backslice(fl, [c.args[1]])
            zeroed = fsl.has_call(r'lock::FileLock::new_flock$')
            nf = lib.body('lock::FileLock::new_flock')
            if nf is not None:
                zeroed = zeroed and any(cc.matches(r'std::mem::zeroed$|MaybeUninit.*zeroed') for cc in nf.calls())
            ctx.check(not region_bad and zeroed, rule, FN + '|whole-file-region', c.where(),
                      'flock is zero-initialised and l_start/l_len stay 0: the probe covers the whole file, including bytes beyond EOF',
                      'the probed byte range is narrowed (%s): a foreign lock outside it is not seen' % (region_bad or 'flock not from new_flock/zeroed'))
            fate = classify_result(fl, c)
            ctx.check(bool(fate.kinds & {'PASSED', 'RETURNED', 'PROPAGATED'}) and 'DISCARDED' not in fate.kinds, rule, FN + '|result', c.where(),
                      'fcntl result converted and returned', 'fcntl result not returned: %s' % fate)


def rvalue_ops(s):
    from ..facts import rvalue_operands
    return rvalue_operands(s['rv'])


def follow_to_params(unit, body, ops, depth=6):
    """slice `ops` in `body`, following closure up-vars outwards; returns (body, slice)
    of the outermost non-closure body reached, plus the number of `Not` on the way"""
    nots = 0
    cur_b = body
    from ..analysis import upvar_operand
    for _ in range(depth):
        sl = backslice(cur_b, ops)
        nots += sum(1 for blk in cur_b.blocks for s in blk['stmts']
                    if s['p'][0] in sl.locals and s['rv']['k'] == 'un' and s['rv']['op'] == 'Not')
        if cur_b.kind == 'closure' and sl.upvars and not sl.params - {1}:
            nxt = []
            pb = None
            for idx, name in sl.upvars:
                pb, o = upvar_operand(unit, cur_b, idx)
                if o is not None:
                    nxt.append(o)
            if not nxt or pb is None:
                return cur_b, sl, nots
            cur_b, ops = pb, nxt
            continue
        return cur_b, sl, nots
    return cur_b, sl, nots


def r4(ctx, lib):
    rule = 'C20.R4'
    rs = ctx.need_body(rule, 'dedupe::run_script')
    if rs is None:
        return
    sites = []
    for p in [rs.path] + lib.closures_of(rs.path):
        b = lib.body(p)
        for c in b.calls(r'FsCommand::execute$'):
            sites.append((b, c))
    if not ctx.floor(rule, 'execute call sites under run_script', len(sites), 1, rs.where()):
        return
    for b, c in sites:
        key = '%s|execute-call' % b.path
        ob, sl, nots = follow_to_params(lib, b, [c.args[1]])
        good = ob.path == rs.path and 'should_lock' in sl.param_names(ob) and nots == 0 and not sl.calls
        ctx.check(good, rule, key, c.where(), 'execute(should_lock) receives run_script\'s parameter unchanged',
                  'should_lock passed to execute is not run_script\'s parameter (%s, nots=%d)' % (sl.describe(ob), nots))
    # the binary passes !config.no_lock
    bn = ctx.bin
    if bn is None:
        ctx.missing(rule, 'binary unit')
        return
    calls = []
    for b in bn.bodies.values():
        for c in b.calls(r'(^|::)dedupe::run_script$|^fclones::run_script$'):
            calls.append((b, c))
    if not ctx.floor(rule, 'run_script call sites in the binary', len(calls), 1):
        return
    for b, c in calls:
        ctx.fn(b)
        key = 'bin::%s|run_script-call' % b.path
        ob, sl, nots = follow_to_params(bn, b, [c.args[1]])
        good = 'no_lock' in sl.field_names() and nots % 2 == 1
        ctx.check(good, rule, key, c.where(), 'should_lock = !config.no_lock',
                  'should_lock is not the negated no_lock option (%s, negations=%d)' % (sl.describe(ob), nots))


def r5(ctx, lib, rule='C20.R5'):
    from ..analysis import backslice, switch_targets_bool
    b = ctx.need_body(rule, 'lock::FileLock::new')
    if b is None:
        return
    op = b.calls(r'OpenOptions::open$')
    if not ctx.floor(rule, 'OpenOptions::open in FileLock::new', len(op), 1, b.where()):
        return
    ok = False
    for c in b.calls(r'FileType::is_symlink$'):
        if not backslice(b, [c.args[0]]).has_call(r'symlink_metadata$'):
            continue
        for (bbx, idx, what) in b.operand_uses(c.dest[0]):
            if what[0] == 'switch':
                tt, ft = switch_targets_bool(what[1])
                if ft is not None and b.dominates(ft, op[0].bb) and not b.dominates(tt, op[0].bb):
                    ok = True
    nofollow = any('NOFOLLOW' in str(i) for i in backslice(b, [op[0].args[0]]).items) or bool(b.calls(r'OpenOptionsExt>::custom_flags$'))
    ctx.check(ok or nofollow, rule, b.path + '|no-follow', op[0].where(), 'the file is opened only when the path is not a symbolic link',
              'FileLock::new opens the path with a following open(): for a symbolic link (a legal group member with -S) it locks the target instead of the link, and fails with ENOENT when the target '
              'has just been removed by another command of the same group, so the link is left behind dangling and the run differs from its own --dry-run script')


def r6(ctx, lib, rule='C20.R6'):
    from ..analysis import result_tests, reachable_state
    b = ctx.need_body(rule, 'lock::FileLock::new')
    if b is None:
        return
    wo = b.calls(r'^std::fs::OpenOptions::open$')
    if not wo:
        ctx.missing(rule, 'write-open in FileLock::new', b.where())
        return
    tests = result_tests(b, wo[0])
    err_region = reachable_state(b, 0, tests, 'err') - reachable_state(b, 0, tests, 'ok') if tests else set()
    ro = [c for c in b.calls(r'^std::fs::File::open$') if c.bb in err_region]
    aggs = [bi for bi, blk in enumerate(b.blocks) if not blk['cleanup'] for s in blk['stmts'] if s['rv']['k'] == 'agg' and s['rv'].get('adt') == 'lock::FileLock']
    ok = bool(ro) and any(a in b.reachable(ro[0].bb) for a in aggs)
    denied = any(i.endswith('PermissionDenied') for blk in b.blocks for s in blk['stmts'] for i in [str(s['rv'].get('variant') or '')]) or \
        any('PermissionDenied' in str(x) for c in b.calls() for x in [c.path]) or any('PermissionDenied' in (i or '') for i in backslice(b, [{'c': [0, []]}]).items)
    if ro:
        busy = False
        for d, blk in enumerate(b.blocks):
            t = blk['term']
            if blk['cleanup'] or t['k'] != 'switch' or not backslice(b, [t['op']]).has_call(r'io::Error::raw_os_error$'):
                continue
            reach = [ro[0].bb in b.reachable(x) for x in dict.fromkeys(t['tgts']) if b.blocks[x]['term']['k'] != 'unreach']
            if any(reach) and not all(reach):
                busy = True
        ctx.check(busy, rule, b.path + '|busy-executable', ro[0].where(), 'the fall-back is also taken for an error number (ETXTBSY: the file is a running program)',
                  'the read-only fall-back is taken for PermissionDenied only: a duplicate that is the image of a running program cannot be opened for writing either (ETXTBSY), so the real run '
                  'fails on it ("Text file busy") although nobody holds a lock and --dry-run / --no-lock process it')
    ctx.check(ok, rule, b.path + '|no-extra-permission', (ro[0].where() if ro else wo[0].where()), 'a denied write-open falls back to a read-only open + lock probe',
              'FileLock::new fails when the file cannot be opened for writing, although rm / mv / ln on it only need write access to the directory: for a non-root user a 0444 duplicate is '
              'announced by --dry-run ("Would process 1 files", and `bash script.sh` removes it) while the real run reports "Failed to open file .. for write: Permission denied" and processes 0 files')

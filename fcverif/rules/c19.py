"""C19 - the semaphore is safe and live (conformance to the Mesa monitor pattern)."""
import re
from . import register
from ..analysis import backslice, comparisons, branch_of, dominated_region, FLIP, forward_locals
from ..callgraph import CallGraph
from ..facts import const_int, op_place, op_local, place_fields, rvalue_places

DOC = {
    'explanation': 'Conformance of semaphore.rs to the Mesa-monitor pattern, decided on the CFGs of acquire/release/the guard Drop impls: '
                   'the Condvar::wait lies in a loop with the test of the counter and the decrement is only reachable through the loop exit (R1), test and '
                   'decrement happen under one MutexGuard (R2), release increments under the lock and a notify post-dominates the increment (R3), both guard '
                   'Drop impls release unconditionally and access* acquire before building a guard (R4), only Semaphore\'s own methods touch lock/cvar (R5), '
                   'and no holder of the open-file semaphore re-acquires it (R6). The textbook argument then gives safety and freedom from lost wake-ups; '
                   'the interleavings themselves are not explored.',
    'rules': {
        'C19.R1': 'acquire: wait is in a cycle with the counter test; wait-while relation is count <= 0; decrement by 1 only through the test\'s exit edge, exactly once',
        'C19.R2': 'test and decrement happen under the same MutexGuard (no drop / unlock in between)',
        'C19.R3': 'release: increment by 1 under the lock; notify_one/notify_all post-dominates the increment',
        'C19.R4': 'both guard Drop impls call release on every path; access/access_owned call acquire before building the guard',
        'C19.R5': 'only Semaphore\'s own methods read or write the fields lock / cvar',
        'C19.R9': 'no semaphore of the library starts with zero permits: the count is a multiple of the real size of a thread pool (current_num_threads() >= 1), a max(.., 1), or a positive constant - never a configured size, where 0 means automatic',
        'C19.R8': 'no descriptor or thread escapes the budget: every helper thread of the library that can block (opens a path, waits for a child, reads a stream to the end) is joined - directly, or by the Drop of the struct that keeps its JoinHandle - while the resource it waits for is still there (the stderr reaper of a transform opens the $OUT pipe for writing; joined in Drop for Execution before the reading end is closed)',
        'C19.R7': 'the open-file budget is counted in the unit the permits are spent in: one permit is taken per hashing task, and a task of a --transform run holds several descriptors (input file, pipes to the child, temporary copy, named pipe) - the number of permits is (RLIMIT_NOFILE - reserve) divided by at least the number of descriptor-opening call sites of one transform execution, with no floor above 1',
        'C19.R10': 'the directory walk spends the same budget: every std::fs::read_dir of the library, every call that takes the ReadDir and its drop lie in the region where a guard of RLIMIT_OPEN_FILES is live (the entries are collected under the permit, the visits of the children are spawned after it is released, so no holder waits for another task)',
        'C19.R6': 'no call path from a region holding an RLIMIT_OPEN_FILES guard re-acquires that semaphore',
    },
    'not_decided': 'the thread interleavings themselves (a model checker or loom would explore them); fairness; std::sync::Condvar/Mutex internals',
    'assumptions': ['std Mutex/Condvar implement Mesa semantics (wait atomically releases the mutex and re-acquires it before returning; spurious wake-ups allowed)'],
}

S = 'semaphore::Semaphore'
LOCK_F, CVAR_F = 'lock', 'cvar'


def counter_updates(body, opname):
    """assignments `*guard = *guard (+|-) const` : list of (bb, const, stmt)"""
    out = []
    for bi, blk in enumerate(body.blocks):
        if blk['cleanup']:
            continue
        for s in blk['stmts']:
            rv = s['rv']
            if rv['k'] == 'bin' and rv['op'] in (opname, opname + 'WithOverflow', opname + 'Unchecked'):
                k = const_int(rv['b'])
                out.append((bi, k, s))
    return out


def stores_through(body, locals_):
    out = []
    for bi, blk in enumerate(body.blocks):
        if blk['cleanup']:
            continue
        for s in blk['stmts']:
            if '*' in s['p'][1] and s['p'][0] in locals_:
                out.append((bi, s))
    return out


def sem_fields(lib):
    """(mutex field, condvar field) of Semaphore by what acquire does with them: the field whose Mutex is locked and the field whose Condvar is
    waited on - whatever they are called"""
    b = lib.body(S + '::acquire')
    lock_f = cvar_f = None
    if b is not None:
        own = lambda sl: [e[2] for l in [0] for blk in b.blocks for st in blk['stmts'] if st['p'][0] in sl.locals for pl in rvalue_places(st['rv'])
                          for e in pl[1] if isinstance(e, list) and e[0] == 'F' and len(e) > 3 and e[3].endswith('semaphore::Semaphore')]
        for c in b.calls(r'^std::sync::Mutex::<T>::lock$|^std::sync::Mutex::lock$'):
            fs = own(backslice(b, [c.args[0]]))
            lock_f = lock_f or (fs[0] if fs else None)
        for c in b.calls(r'^std::sync::Condvar::wait(_while|_timeout|_timeout_while)?$'):
            fs = own(backslice(b, [c.args[0]]))
            cvar_f = cvar_f or (fs[0] if fs else None)
    return lock_f or 'lock', cvar_f or 'cvar'


@register('C19', DOC)
def run(ctx):
    lib = ctx.lib
    global LOCK_F, CVAR_F
    LOCK_F, CVAR_F = sem_fields(lib)
    acq = ctx.need_body('C19.R1', S + '::acquire')
    rel = ctx.need_body('C19.R3', S + '::release')
    if acq is not None:
        r12(ctx, lib, acq)
    if rel is not None:
        r3(ctx, lib, rel)
    r4(ctx, lib)
    r5(ctx)
    r6(ctx)
    r7(ctx)
    r8(ctx)
    r9(ctx)
    r10(ctx)


BLOCKING = r'OpenOptions::open$|^std::fs::File::open$|::wait$|::recv$|read_to_string$|read_to_end$|::lock$'


def r8(ctx):
    """A helper thread that can block (it opens a path, waits for a process, reads a stream to its end) is joined by the owner of
    its handle; a blocked detached thread keeps its stack and the descriptor reserved by the open() for the rest of the run."""
    rule = 'C19.R8'
    lib = ctx.lib
    n = 0
    for p_, b in sorted(lib.bodies.items()):
        if re.search(r'(^|::|<)tests?(::|$)', p_) or b.kind in ('const', 'static', 'promoted'):
            continue
        for c in b.calls(r'^std::thread::spawn$|thread::Builder::spawn$'):
            # the closure run by the thread
            cl = None
            l = op_local(c.args[-1])
            if l is not None:
                cl = lib.closure_of_type(b.local_ty(l))
            cb = lib.body(cl) if cl else None
            blocking = [k for k in (cb.calls(BLOCKING) if cb is not None else [])]
            if cb is None or not blocking:
                continue
            n += 1
            holders = forward_locals(b, c.dest[0]) | {c.dest[0]}
            joined = any(k for k in b.calls(r'JoinHandle::<T>::join$|JoinHandle<.*>::join$') if op_local(k.args[0]) in holders)
            owner = None
            if not joined:
                # the handle is stored in a field of a struct: its Drop has to join it
                changed = True
                while changed and owner is None:
                    changed = False
                    for blk in b.blocks:
                        for st in blk['stmts']:
                            if st['rv']['k'] == 'agg' and any(op_local(o) in holders for o in st['rv']['ops']):
                                if st['rv'].get('ak') == 'adt' and not re.search(r'^(std|core)::(option|result)::', st['rv']['adt']):
                                    fi = [i for i, o in enumerate(st['rv']['ops']) if op_local(o) in holders][0]
                                    owner = (st['rv']['adt'], (st['rv'].get('fields') or [None] * (fi + 1))[fi])
                                elif st['p'][0] not in holders:
                                    holders |= forward_locals(b, st['p'][0]) | {st['p'][0]}
                                    changed = True
                if owner:
                    for dp, db in lib.bodies.items():
                        if re.search(r'^<%s as std::ops::Drop>::drop$' % re.escape(owner[0]), dp):
                            for k in db.calls(r'JoinHandle::<T>::join$|JoinHandle<.*>::join$'):
                                fn_ = backslice(db, [k.args[0]]).field_names()
                                if owner[1] is None or owner[1] in fn_:
                                    joined = True
            ctx.check(joined, rule, '%s|blocking-thread-joined' % p_, c.where(), 'the thread spawned here (it can block in %s) is joined by %s' % (blocking[0].path.rsplit('::', 1)[-1], ('Drop of ' + owner[0]) if owner else 'its creator'),
                      'the thread spawned here can block (%s at %s) and nobody joins it%s: when the condition it waits for never comes - the FIFO of `--transform .. $OUT` opened for writing after the reader has '
                      'gone - the thread stays for the rest of the run together with the descriptor number its open() reserved; some hundred files later the process is out of descriptors although the '
                      'semaphore admits only a few tasks, and readable files fail with EMFILE' % (blocking[0].path.rsplit('::', 1)[-1], cb.where(blocking[0].line), (' (the handle is kept in %s.%s, whose Drop does not join it)' % owner) if owner else ''))
    ctx.floor(rule, 'spawned threads that can block', n, 1)


def r9(ctx):
    """A semaphore that gates progress is created with at least one permit."""
    rule = 'C19.R9'
    lib = ctx.lib
    from ..analysis import slice_const_values
    n = 0
    for p_, b in sorted(lib.bodies.items()):
        if re.search(r'(^|::|<)tests?(::|$)', p_) or b.kind == 'promoted':
            continue
        for c in b.calls(r'semaphore::Semaphore::new$'):
            n += 1
            sl = backslice(b, [c.args[0]])
            pool = sl.has_call(r'ThreadPool::current_num_threads$|rayon::current_num_threads$')
            floor1 = any(k.matches(r'^std::cmp::max$|Ord>::max$|Ord::max$') for k in sl.calls) and any(re.match(r'^[1-9]\d*(_\w+)?$', str(v)) for v in slice_const_values(lib, sl))
            cfg = sorted(set(sl.field_names()) & {'sequential', 'random', 'parallelism', 'threads'})
            const_pos = not sl.calls and not sl.params and not sl.field_names() and any(re.match(r'^[1-9]\d*(_\w+)?$', str(v)) for v in slice_const_values(lib, sl))
            ctx.check((pool or floor1 or const_pos) and not (cfg and not floor1), rule, '%s|permits-positive' % p_, c.where(),
                      'the number of permits is at least 1 (%s)' % ('a multiple of the real size of the thread pool' if pool else ('max(.., 1)' if floor1 else 'a positive constant')),
                      'the number of permits of this semaphore comes from %s and nothing keeps it above zero: a configured pool size of 0 means "choose automatically" (`--threads 0`, `hdd:0`), rayon then builds a '
                      'real pool, but a semaphore with 0 permits admits nobody - the thread that feeds the hashing tasks blocks before its first task and the run never ends' % (('the configured ' + '/'.join(cfg)) if cfg else 'a value that is not known to be positive'))
    ctx.floor(rule, 'Semaphore::new sites in the library', n, 2)


def r12_wait_while(ctx, lib, b, w, locks):
    """The same monitor pattern written with Condvar::wait_while(guard, |count| pred): std runs `while pred(&mut *guard) { guard = wait(guard) }`,
    i.e. the predicate is re-tested under the lock after every wake-up (spurious ones included). What is left to decide: the predicate is
    `count <= 0`, the guard that goes in is the one of lock() on the mutex of self, and the single decrement by one happens through the guard
    that comes out, with no unlock in between, on every path to the return."""
    from ..analysis import truth_table
    rule = 'C19.R1'
    P = b.path
    ctx.ok(rule, P + '|wait-kind', w.where(), 'Condvar::wait_while (untimed): the loop around the wait is the one of the standard library')
    wsl = backslice(b, [w.args[0]])
    ctx.check(CVAR_F in wsl.field_names() and 1 in wsl.params, rule, P + '|wait-cvar', w.where(), 'waits on the condition variable of self (field `%s`)' % CVAR_F, 'wait is not on a condition variable of self')
    lsl = backslice(b, [locks[0].args[0]])
    ctx.check(LOCK_F in lsl.field_names() and 1 in lsl.params and len(locks) == 1, rule, P + '|lock-field', locks[0].where(), 'locks the mutex of self (field `%s`) once' % LOCK_F, 'lock() is not on the mutex of self / %d lock calls' % len(locks))
    gsl = backslice(b, [w.args[1]])
    ctx.check(locks[0] in gsl.calls, rule, P + '|test-under-guard', w.where(), 'the guard handed to wait_while is the one of lock()', 'the guard handed to wait_while does not come from lock()')
    l2 = op_local(w.args[2]) if len(w.args) > 2 else None
    cp = lib.closure_of_type(b.local_ty(l2)) if l2 is not None else None
    cb = lib.body(cp) if cp else None
    if cb is None:
        ctx.missing(rule, 'predicate closure of wait_while', w.where())
        return
    tests = []
    for cmp in comparisons(cb):
        ka, kb = const_int(cmp.a), const_int(cmp.b)
        if (ka is None) == (kb is None):
            continue
        var, k, op = (cmp.a, kb, cmp.op) if kb is not None else (cmp.b, ka, FLIP[cmp.op])
        if 2 in backslice(cb, [var]).params:
            tests.append((cmp, op, k))
    if not tests:
        ctx.missing(rule, 'comparison of the guarded counter with a constant in the predicate of wait_while', cb.where())
        return
    cmp, op, k = tests[0]
    names, table = truth_table(cb, {'t': cmp.bb})
    same = all(r is v[0] for v, r in table.items() if v[0] is not None)
    neg = all(r is (not v[0]) for v, r in table.items() if v[0] is not None)
    rel = op if same else ({'<': '>=', '<=': '>', '>': '<=', '>=': '<', '==': '!=', '!=': '=='}[op] if neg else None)
    waits_iff = (rel == '<=' and k == 0) or (rel == '<' and k == 1)
    ctx.check(waits_iff, rule, P + '|wait-relation', cb.where(cmp.line), 'waits while count %s %d (= count <= 0)' % (rel, k), 'waits while count %s %s; expected count <= 0' % (rel, k))
    ctx.ok(rule, P + '|recheck-loop', w.where(), 'after every wake-up the predicate is tested again under the lock (Condvar::wait_while)')
    decs = counter_updates(b, 'Sub')
    stores = [(bi, kk, s_) for bi, kk, s_ in decs if backslice(b, [s_['rv']['a']]).has_call(r'MutexGuard<.*> as std::ops::DerefMut>::deref_mut$')]
    if not stores:
        ctx.missing(rule, 'decrement of the guarded counter', b.where())
        return
    ctx.check(len(stores) == 1 and stores[0][1] == 1, rule, P + '|decrement-by-one', b.where(stores[0][2]['line']), 'a single decrement by 1', '%d decrements, amounts %s' % (len(stores), [x[1] for x in stores]))
    dbb = stores[0][0]
    ctx.check(w.ret is not None and b.dominates(w.ret, dbb), rule, P + '|decrement-after-exit', b.where(stores[0][2]['line']), 'the decrement is reachable only after wait_while has returned', 'the decrement is reachable without passing wait_while')
    okp, off = b.must_pass(w.ret, lambda x: x == dbb) if w.ret is not None else (False, None)
    # the Err of a poisoned wait leaves by panicking (unwrap) or returning an error: only successful paths count - must_pass looks at returns
    ctx.check(okp, rule, P + '|decrement-on-every-exit', b.where(stores[0][2]['line']), 'every path from wait_while to the return decrements', 'a path returns without decrementing')
    rule2 = 'C19.R2'
    between = (b.reachable(w.ret) if w.ret is not None else set()) & {x for x in range(len(b.blocks)) if dbb in b.reachable(x)}
    bad = [x for x in between if (b.blocks[x]['term']['k'] == 'drop' and 'MutexGuard' in b.blocks[x]['term']['ty'] and x != dbb)
           or (b.call_at(x) is not None and b.call_at(x).matches(r'std::mem::drop$|Mutex::<T>::lock$|Mutex::lock$|Mutex::<T>::try_lock$|Condvar::wait'))]
    dsl = backslice(b, [stores[0][2]['rv']['a']])
    ctx.check(not bad and w in dsl.calls, rule2, P + '|check-and-decrement-atomic', b.where(stores[0][2]['line']), 'the decrement goes through the guard that wait_while returned, with no unlock in between',
              'the MutexGuard is released/re-taken between wait_while and the decrement (blocks %s), or the decrement uses another guard' % sorted(bad))
    ctx.ok(rule2, P + '|guard-held-in-loop', w.where(), 'the guard is only given up inside Condvar::wait_while')


def r12(ctx, lib, b):
    rule = 'C19.R1'
    global LOCK_F, CVAR_F
    LOCK_F, CVAR_F = sem_fields(lib)
    P = b.path
    waits = b.calls(r'^std::sync::Condvar::wait(_while|_timeout|_timeout_while)?$')
    locks = b.calls(r'^std::sync::Mutex::<T>::lock$|^std::sync::Mutex::lock$')
    if not ctx.floor(rule, 'Condvar::wait in acquire', len(waits), 1, b.where()) or not ctx.floor(rule, 'Mutex::lock in acquire', len(locks), 1, b.where()):
        return
    w = waits[0]
    if w.path.endswith('::wait_while') and len(waits) == 1:
        return r12_wait_while(ctx, lib, b, w, locks)
    ctx.check(w.path.endswith('::wait') and len(waits) == 1, rule, P + '|wait-kind', w.where(), 'plain Condvar::wait (untimed)', 'wait variant %s / %d waits' % (w.path, len(waits)))
    wsl = backslice(b, [w.args[0]])
    ctx.check(CVAR_F in wsl.field_names() and 1 in wsl.params, rule, P + '|wait-cvar', w.where(), 'waits on the condition variable of self (field `%s`)' % CVAR_F, 'wait is not on a condition variable of self')
    lsl = backslice(b, [locks[0].args[0]])
    ctx.check(LOCK_F in lsl.field_names() and 1 in lsl.params and len(locks) == 1, rule, P + '|lock-field', locks[0].where(), 'locks the mutex of self (field `%s`) once' % LOCK_F, 'lock() is not on the mutex of self / %d lock calls' % len(locks))
    # the counter test: comparison whose one operand derives from the guard (deref of the MutexGuard) and the other is a constant
    tests = []
    for cmp in comparisons(b):
        ka, kb = const_int(cmp.a), const_int(cmp.b)
        if (ka is None) == (kb is None):
            continue
        var, k, op = (cmp.a, kb, cmp.op) if kb is not None else (cmp.b, ka, FLIP[cmp.op])
        sl = backslice(b, [var])
        if sl.has_call(r'MutexGuard<.*> as std::ops::Deref(Mut)?>::deref(_mut)?$'):
            tests.append((cmp, op, k, sl))
    if not tests:
        ctx.missing(rule, 'comparison of the guarded counter with a constant in acquire', b.where())
        return
    cmp, op, k, tsl = tests[0]
    br = branch_of(b, cmp)
    if br is None:
        ctx.missing(rule, 'branch on the counter test', b.where(cmp.line))
        return
    sw, t_true, t_false = br
    reach_true = b.reachable(t_true)
    wait_on_true = w.bb in reach_true and w.bb in dominated_region(b, t_true)
    wait_on_false = w.bb in dominated_region(b, t_false)
    if wait_on_true == wait_on_false:
        ctx.violation(rule, P + '|wait-guarded', w.where(), 'the wait is not on exactly one side of the counter test')
        return
    # waiting set {c | c OP k} (or its complement) must be {c <= 0}
    rel = op if wait_on_true else {'<': '>=', '<=': '>', '>': '<=', '>=': '<', '==': '!=', '!=': '=='}[op]
    waits_iff = (rel == '<=' and k == 0) or (rel == '<' and k == 1)
    ctx.check(waits_iff, rule, P + '|wait-relation', b.where(cmp.line), 'waits while count %s %d (= count <= 0)' % (rel, k),
              'waits while count %s %d; expected count <= 0' % (rel, k))
    exit_t = t_false if wait_on_true else t_true
    # loop: wait returns to the test
    cyc = w.ret is not None and cmp.bb in b.reachable(w.ret) and all(True for _ in [0])
    # every path from the wait's return to a return passes the test again
    okp, off = b.must_pass(w.ret, lambda x: x == sw)
    ctx.check(cyc and okp, rule, P + '|recheck-loop', w.where(), 'after every wake-up the counter is tested again (wait lies in a cycle with the test)',
              'a path from the wake-up leaves acquire without re-testing the counter')
    # the guard returned by wait is the one re-tested: result of wait flows into the local used by the test
    ctx.check(tsl.has_call(r'Condvar::wait$') and tsl.has_call(r'Mutex::<T>::lock$|Mutex::lock$'), rule, P + '|test-under-guard', b.where(cmp.line),
              'the test reads the counter through the guard from lock()/wait()', 'the tested value does not come from the guard of lock()/wait()')
    # decrement
    decs = counter_updates(b, 'Sub')
    stores = []
    for bi, kk, s in decs:
        sl = backslice(b, [s['rv']['a']])
        if sl.has_call(r'MutexGuard<.*> as std::ops::DerefMut>::deref_mut$'):
            stores.append((bi, kk, s))
    if not stores:
        ctx.missing(rule, 'decrement of the guarded counter', b.where())
        return
    ctx.check(len(stores) == 1 and stores[0][1] == 1, rule, P + '|decrement-by-one', b.where(stores[0][2]['line']), 'a single decrement by 1', '%d decrements, amounts %s' % (len(stores), [x[1] for x in stores]))
    dbb = stores[0][0]
    ctx.check(b.dominates(exit_t, dbb) and w.bb not in b.reachable(dbb), rule, P + '|decrement-after-exit', b.where(stores[0][2]['line']),
              'the decrement is reachable only through the exit edge of the test and is outside the wait loop',
              'the decrement is reachable without passing the exit edge of the counter test')
    okp, off = b.must_pass(exit_t, lambda x: x == dbb)
    ctx.check(okp, rule, P + '|decrement-on-every-exit', b.where(stores[0][2]['line']), 'every path from the loop exit to the return decrements', 'a path returns without decrementing')
    # the written-back value is the subtraction result
    wb = [s for bi, s in stores_through(b, set(range(len(b.locals)))) if True]
    okwb = False
    for s in wb:
        sl = backslice(b, [p for p in rvalue_places(s['rv'])])
        if any(st is stores[0][2] for _, st in sl.binops):
            okwb = True
    ctx.check(okwb, rule, P + '|decrement-stored', b.where(stores[0][2]['line']), 'the decremented value is stored back through the guard', 'the subtraction result is not stored back')
    # R2: no guard drop / second lock between test exit and the decrement
    rule2 = 'C19.R2'
    between = b.reachable(exit_t) & {x for x in range(len(b.blocks)) if dbb in b.reachable(x)}
    bad = []
    for x in between:
        t = b.blocks[x]['term']
        if t['k'] == 'drop' and 'MutexGuard' in t['ty'] and x != dbb:
            bad.append(x)
        c = b.call_at(x)
        if c is not None and c.matches(r'std::mem::drop$|Mutex::<T>::lock$|Mutex::lock$|Mutex::<T>::try_lock$|Condvar::wait'):
            bad.append(x)
    dsl = backslice(b, [stores[0][2]['rv']['a']])
    same_guard = dsl.has_call(r'Mutex::<T>::lock$|Mutex::lock$')
    ctx.check(not bad and same_guard, rule2, P + '|check-and-decrement-atomic', b.where(stores[0][2]['line']),
              'test and decrement happen under the same MutexGuard, with no unlock in between',
              'the MutexGuard is released/re-taken between the test and the decrement (blocks %s)' % sorted(bad))
    # the guard is held (not dropped) while looping: no drop of a MutexGuard inside the loop other than via wait
    loop_blocks = {x for x in b.reachable(t_true if wait_on_true else t_false) if cmp.bb in b.reachable(x)}
    dl = [x for x in loop_blocks if b.blocks[x]['term']['k'] == 'drop' and 'MutexGuard' in b.blocks[x]['term']['ty']]
    ctx.check(not dl, rule2, P + '|guard-held-in-loop', w.where(), 'the guard is only given up inside Condvar::wait', 'the guard is dropped inside the wait loop')


def r3(ctx, lib, b):
    global LOCK_F, CVAR_F
    LOCK_F, CVAR_F = sem_fields(lib)
    rule = 'C19.R3'
    P = b.path
    incs = []
    for bi, kk, s in counter_updates(b, 'Add'):
        sl = backslice(b, [s['rv']['a']])
        if sl.has_call(r'MutexGuard<.*> as std::ops::DerefMut>::deref_mut$') and sl.has_call(r'Mutex::<T>::lock$|Mutex::lock$'):
            incs.append((bi, kk, s, sl))
    if not incs:
        ctx.missing(rule, 'increment of the guarded counter in release', b.where())
        return
    bi, kk, s, sl = incs[0]
    ctx.check(len(incs) == 1 and kk == 1, rule, P + '|increment-by-one', b.where(s['line']), 'a single increment by 1 under the lock', '%d increments, amounts %s' % (len(incs), [x[1] for x in incs]))
    ctx.check(LOCK_F in sl.field_names(), rule, P + '|lock-field', b.where(s['line']), 'the counter is behind the mutex that acquire locks (field `%s`)' % LOCK_F, 'the incremented value is not behind the mutex that acquire locks')
    okp, off = b.must_pass(0, lambda x: x == bi)
    ctx.check(okp, rule, P + '|increment-on-every-path', b.where(s['line']), 'every path through release increments', 'a path through release does not increment')
    nots = b.calls(r'^std::sync::Condvar::notify_(one|all)$')
    nots = [c for c in nots if CVAR_F in backslice(b, [c.args[0]]).field_names()]
    if not ctx.floor(rule, 'notify on self.cvar in release', len(nots), 1, b.where()):
        return
    nb = {c.bb for c in nots}
    start = b.succs(bi)[0] if b.succs(bi) else bi
    okp, off = b.must_pass(start, lambda x: x in nb)
    ctx.check(okp and all(n.bb in b.reachable(bi) for n in nots), rule, P + '|notify-postdominates-increment', nots[0].where(),
              'every path from the increment to the return passes notify_one/notify_all',
              'a path from the increment returns without notifying a waiter (conditional notify: lost wake-up)')


def r4(ctx, lib):
    rule = 'C19.R4'
    drops = [p for p in lib.bodies if re.match(r'^<semaphore::(Owned)?SemaphoreGuard(<.*>)? as std::ops::Drop>::drop$', p)]
    ctx.floor(rule, 'guard Drop impls', len(drops), 2)
    for p in drops:
        b = lib.body(p)
        ctx.fn(b)
        rc = b.calls(r'semaphore::Semaphore::release$')
        rb = {c.bb for c in rc}
        okp, off = b.must_pass(0, lambda x: x in rb)
        onsem = rc and all('sem' in backslice(b, [c.args[0]]).field_names() for c in rc)
        ctx.check(bool(rc) and okp and len(rc) == 1 and onsem, rule, p + '|release', b.where(), 'drop calls self.sem.release() exactly once on every path',
                  'drop does not release on every path (%d release calls)' % len(rc))
    for name, guard in (('access', 'semaphore::SemaphoreGuard'), ('access_owned', 'semaphore::OwnedSemaphoreGuard')):
        b = ctx.need_body(rule, '%s::%s' % (S, name))
        if b is None:
            continue
        ac = b.calls(r'semaphore::Semaphore::acquire$')
        aggs = [(bi, s) for bi, blk in enumerate(b.blocks) if not blk['cleanup'] for s in blk['stmts'] if s['rv']['k'] == 'agg' and s['rv'].get('adt') == guard]
        good = len(ac) == 1 and aggs and all(b.dominates(ac[0].bb, bi) and bi != ac[0].bb or b.dominates(ac[0].ret, bi) for bi, s in aggs)
        same = False
        if ac and aggs:
            a_sl = backslice(b, [ac[0].args[0]])
            g_sl = backslice(b, aggs[0][1]['rv']['ops'])
            same = 1 in a_sl.params and 1 in g_sl.params
        ctx.check(bool(good) and same, rule, b.path + '|acquire-before-guard', b.where(), 'acquire() on self dominates the construction of the guard over the same semaphore',
                  'a guard is built without a preceding acquire on the same semaphore')
    # guards are only built by access/access_owned
    for u in [ctx.lib]:
        for b in u.bodies.values():
            for blk in b.blocks:
                for s in blk['stmts']:
                    if s['rv']['k'] == 'agg' and s['rv'].get('adt') in ('semaphore::SemaphoreGuard', 'semaphore::OwnedSemaphoreGuard'):
                        ctx.check(b.path in (S + '::access', S + '::access_owned'), rule, b.path + '|guard-construction', b.where(s['line']),
                                  'guard built inside access*', 'a semaphore guard is constructed outside access/access_owned')


def r5(ctx):
    rule = 'C19.R5'
    n = 0
    units = [ctx.lib] + ([ctx.bin] if ctx.bin else [])
    for u in units:
        for b in u.bodies.values():
            touched = False
            line = b.lo
            for blk in b.blocks:
                for s in blk['stmts']:
                    for p in [s['p']] + rvalue_places(s['rv']):
                        for e in p[1]:
                            if isinstance(e, list) and e[0] == 'F' and len(e) > 3 and e[3].endswith('semaphore::Semaphore') and e[2] in (LOCK_F, CVAR_F):
                                touched = True
                                line = s['line']
                for s in blk['stmts']:
                    rv = s['rv']
                    if rv['k'] == 'agg' and rv.get('adt', '').endswith('semaphore::Semaphore'):
                        touched = True
                        line = s['line']
            if touched:
                n += 1
                ctx.fn(b)
                own = re.match(r'^semaphore::Semaphore::(new|acquire|release)$', b.path) is not None
                ctx.check(own, rule, b.path, b.where(line), 'lock/cvar touched inside Semaphore::{new,acquire,release}', 'lock/cvar of the semaphore is accessed outside Semaphore::{new,acquire,release}')
    ctx.floor(rule, 'bodies touching lock/cvar', n, 3)


def indirect_targets(lib, b, c):
    """closures that may be invoked by a call through a Fn-typed parameter: follow the
    callee operand out through closure up-vars to a parameter of the root function and
    collect the closures passed at that position by every caller of the root function"""
    from .c20 import follow_to_params
    from ..analysis import closure_creation, forward_locals
    ob, sl, _ = follow_to_params(lib, b, [c.args[0]])
    out = []
    for p in sl.params:
        for caller in lib.bodies.values():
            for cc in caller.calls():
                if cc.path == ob.path and p - 1 < len(cc.args):
                    asl = backslice(caller, [cc.args[p - 1]])
                    for l in asl.locals:
                        m = re.search(r'\{closure@', caller.local_ty(l))
                        if m:
                            for cl in lib.closures_of(caller.path):
                                cr = closure_creation(lib, cl)
                                if cr and cr[2]['p'][0] in asl.locals:
                                    out.append(cl)
    return sorted(set(out))


def acquires_rlimit(b):
    out = []
    for c in b.calls(r'semaphore::Semaphore::(access_owned|access|acquire)$'):
        sl = backslice(b, [c.args[0]])
        if any('RLIMIT_OPEN_FILES' in i for i in sl.items) or sl.has_call(r'RLIMIT_OPEN_FILES'):
            out.append(c)
    return out


def held_region(b, c):
    """blocks of b where the guard returned by the acquisition c is live: from the acquisition to the drop of the guard local
    (or the end of the body if the guard is moved away - then the whole rest counts as held). Returns (held, drops)."""
    gl = c.dest[0]
    region = b.reachable(c.ret) if c.ret is not None else set()
    drops = [x for x in region if b.blocks[x]['term']['k'] == 'drop' and b.blocks[x]['term']['p'][0] == gl]
    # an explicit drop(guard) moves the guard into std::mem::drop
    holders = forward_locals(b, gl)
    for x in region:
        k = b.call_at(x)
        if k is not None and k.matches(r'^std::mem::drop$|^core::mem::drop$') and op_local(k.args[0]) in holders:
            drops.append(x)
    held = set()
    for x in region:
        if not drops or any(d in b.reachable(x) for d in drops):
            held.add(x)
    return held, drops


def r6(ctx):
    rule = 'C19.R6'
    lib = ctx.lib
    cg = CallGraph([lib])

    holders = []
    acquirers = set()
    for b in lib.bodies.values():
        if '::test' in b.path:
            continue
        acs = acquires_rlimit(b)
        if acs:
            acquirers.add(b.path)
            for c in acs:
                holders.append((b, c))
    if not ctx.floor(rule, 'acquisitions of RLIMIT_OPEN_FILES', len(holders), 2):
        return
    for b, c in holders:
        # region where the guard is live: from the acquisition to the drop of the guard local (or the end of the body
        # if the guard is moved away - then the holder is whoever receives it; handled by treating the whole rest as held)
        held, drops = held_region(b, c)
        bad = []
        n_ind = 0
        for x in held:
            if x in drops:
                continue
            c2 = b.call_at(x)
            if c2 is None or c2 == c:
                continue
            tgts = []
            if c2.f.get('local') and c2.path in cg.bodies:
                tgts.append(c2.path)
            if c2.f.get('self_closure'):
                tgts.append(c2.f['self_closure'])
            if not c2.f.get('res') and c2.f.get('method') in ('call', 'call_mut', 'call_once'):
                it = indirect_targets(lib, b, c2)
                n_ind += len(it)
                tgts.extend(it)
            for t in tgts:
                r = cg.reachable([t])
                hit = r & acquirers
                if hit:
                    bad.append((c2, sorted(hit)[0]))
            if c2 in acquires_rlimit(b):
                bad.append((c2, b.path))
        key = '%s|held-region' % b.path
        if bad:
            ctx.violation(rule, key, c.where(), 'while holding an open-file permit, %s may re-acquire it via %s' % (bad[0][0].path, bad[0][1]))
        else:
            ctx.ok(rule, key, c.where(), 'no call in the %d blocks where the permit is held reaches another acquisition (%d indirect callees resolved)' % (len(held), n_ind))
        ctx.fn(b)


def r7(ctx):
    rule = 'C19.R7'
    lib = ctx.lib
    from ..callgraph import CallGraph
    from ..analysis import slice_const_values, direct_def
    from ..facts import const_int
    init = [b for p, b in lib.bodies.items() if re.search(r'RLIMIT_OPEN_FILES as std::ops::Deref>::deref::__static_ref_initialize$', p)]
    if not init:
        ctx.missing(rule, 'initialiser of RLIMIT_OPEN_FILES')
        return
    ib = init[0]
    new = ib.calls(r'semaphore::Semaphore::new$')
    if not new:
        ctx.missing(rule, 'Semaphore::new in the initialiser', ib.where())
        return
    # descriptors one transform execution opens: call sites reachable from Transform::run
    cg = CallGraph([lib])
    reach = cg.reachable(['transform::Transform::run'])
    fd_sites = []
    for k in reach:
        b = cg.bodies[k]
        if not b.file.endswith('transform.rs'):
            continue
        for c in b.calls(r'^std::fs::File::(open|create)$|^std::process::Stdio::piped$|^std::fs::copy$|mkfifo$|OpenOptions::open$'):
            fd_sites.append(c)
    need = len(fd_sites) + sum(1 for c in fd_sites if c.path.endswith('fs::copy'))     # copy holds two files
    ctx.floor(rule, 'descriptor-opening call sites of one transform execution', len(fd_sites), 4, ib.where())
    # the size expression: max(.. / k, floor)
    sl = backslice(ib, [new[0].args[0]])
    div = None
    for blk in ib.blocks:
        for st in blk['stmts']:
            rv = st['rv']
            if rv['k'] == 'bin' and rv.get('op') == 'Div' and st['p'][0] in sl.locals:
                vals = slice_const_values(lib, backslice(ib, [rv['b']]))
                for v in vals:
                    m = re.search(r'(\d+)', v or '')
                    if m:
                        div = int(m.group(1))
                it = backslice(ib, [rv['b']]).items
                for i in it:
                    cb = lib.body(i) or lib.body(i.replace('fclones::', ''))
                    if cb is not None:
                        for b2 in cb.blocks:
                            for s2 in b2['stmts']:
                                k = const_int(s2['rv'].get('op') or {}) if s2['rv']['k'] == 'use' else None
                                if k:
                                    div = k
    floors = [const_int(a) for c in ib.calls(r'^std::cmp::max$|Ord::max$') for a in c.args if const_int(a) is not None]
    ok = div is not None and div >= need and all(f <= 1 for f in floors)
    ctx.check(ok, rule, 'rlimit::RLIMIT_OPEN_FILES|permits-per-task', new[0].where(), 'permits = (limit - reserve) / %s >= %d descriptors of one transform task; floor %s' % (div, need, floors),
              'the semaphore has one permit per descriptor of the limit (divisor %s, floor %s) but a hashing task takes ONE permit and, with --transform, opens up to %d descriptors '
              '(%s): with `ulimit -n 256 --threads 64 --transform "cp $IN $OUT"` most files fail with EMFILE and silently drop out of the groups; a floor above 1 exceeds small limits by itself' % (
                  div, floors, need, ', '.join(sorted({c.path.rsplit('::', 1)[-1] for c in fd_sites}))))


def r10(ctx):
    """Directories are read under a permit as well: a thread that is inside read_dir / getdents keeps a descriptor open."""
    rule = 'C19.R10'
    lib = ctx.lib
    n = 0
    for p_, b in sorted(lib.bodies.items()):
        if re.search(r'(^|::|<)tests?(::|$)', p_) or b.kind in ('const', 'static', 'promoted'):
            continue
        opens = b.calls(r'^std::fs::read_dir$')
        if not opens:
            continue
        helds = [held_region(b, c)[0] for c in acquires_rlimit(b)]
        held = set().union(*helds) if helds else set()
        for c in opens:
            n += 1
            # every use of the open directory: calls that take a ReadDir (by value or by reference) and the drops of ReadDir places
            users = []
            for x, blk in enumerate(b.blocks):
                k = b.call_at(x)
                if k is not None and any('std::fs::ReadDir' in (b.local_ty(op_local(a)) or '') for a in k.args if op_local(a) is not None):
                    users.append((x, k.path))
                t = blk['term']
                if t['k'] == 'drop' and 'std::fs::ReadDir' in (b.local_ty(t['p'][0]) or ''):
                    users.append((x, 'drop'))
            outside = [u for u in [(c.bb, 'std::fs::read_dir')] + users if u[0] not in held]
            ctx.check(not outside, rule, '%s|directory-read-under-permit' % p_, c.where(),
                      'the directory is opened, read (%d uses of the ReadDir) and closed while a permit of RLIMIT_OPEN_FILES is held' % len(users),
                      'the directory opened here is %s: every thread of the walk that is inside visit_dir keeps one descriptor open, and their number is '
                      'bounded by `--threads` only, not by the permits derived from RLIMIT_NOFILE - with more walker threads than descriptors (`ulimit -n 32`, `--threads 256`; many threads are what one configures for '
                      'slow storage) read_dir fails with EMFILE, the sub-tree is left out with a warning and `group` exits 0 with a report that lacks those files' % (
                          'not read under a permit of the open-file semaphore' if not held else 'used outside the region where the permit is held (%s)' % ', '.join(sorted({u[1].rsplit('::', 1)[-1] for u in outside}))))
            ctx.fn(b)
    ctx.floor(rule, 'read_dir sites in the library', n, 1)

"""C01 - reported groups contain only files with byte-identical content."""
import re
from . import register
from .common import rehash_core, rehash_core_path, rehash_rx
from .c20 import follow_to_params
from ..analysis import (return_variants_from, backslice, aggregates, agg_field, switch_targets_bool, count_nots, closure_creation, forward_locals,
                        direct_field, direct_def, comparisons, branch_of, dominated_region, FLIP, NEG, upvar_operand,
                        switch_on_result_of, field_writes)
from ..facts import const_bool, const_int, op_local, op_place, op_const, const_val, rvalue_operands, rvalue_places, place_fields

DOC = {
    'explanation': 'Byte identity itself is not decidable statically (contents, hash quality). Decided is the staged-hashing plumbing that makes the final group key cover every byte: '
                   'the lengths fully hashed by the prefix stage and those hashed by the contents stage cover all lengths with one shared threshold, and the contents stage is bypassed '
                   'only by --skip-content-hash (R1); the regrouping key is (length, hash) (R2); the suffix hash is joined with the old hash in a way that identifies the pair (R3); one hash is shared only between '
                   'paths with equal (device, inode) (R4); the transformed stream is hashed without a bound derived from the raw file length (R5); a length changed by the hash function '
                   'reaches every path of the inode (R6); file_hash honours chunk.pos/chunk.len and the read loop stops only at the bound, at EOF or on error (R7).',
    'rules': {
        'C01.M': __import__('fcverif.rules.common', fromlist=['MANDATORY_TEXT']).MANDATORY_TEXT,
        'C01.R1': 'stage cover: prefix stage hashes (0, P) when len REL1 P; contents stage hashes (0, len) when len REL2 M; {REL1}+{REL2} cover all lengths and P, M are the same value; contents bypassed only under skip_content_hash',
        'C01.R2': 'rehash: GroupMap key = (file_info.len, file_hash)',
        'C01.R3': 'group_by_suffix: the result is a combination of the old (prefix) hash and the new (suffix) hash, never the new hash alone, and the combination identifies the pair - the hashes are joined (FileHash::combine), not xor-ed (xor cancels equal operands and commutes: files whose first and last block are equal would all get the key 0)',
        'C01.R4': 'hashing task: inode groups keyed by file_info.id; FileId equality is the derived one over exactly {device, inode}',
        'C01.R5': 'hash_transformed: the length bound handed to stream_hash has no data dependence on chunk.len (the raw file length)',
        'C01.R6': 'fields of FileInfo written through the &mut handed to hash_fn and read by the group key are assigned on every HashedFileInfo the task sends',
        'C01.R15': 'a group that no stage reads (all its paths are one file: hard links kept by -H / --isolate) is still looked at before it is reported: the test that decides whether a passed group has to be examined also opens every path and compares its current length with the scanned one, so that an unreadable or grown file goes through the hashing path and its warnings instead of being reported as it was scanned',
        'C01.R14': 'one result per inode is shared between hard links only where it is a function of the file alone: group_transformed switches the sharing off (the grouping key of the hashing thread includes the path) when the transform program is handed the original path ($IN with --no-copy)',
        'C01.R13': 'one hash per inode is shared only between paths that still have that (device, inode): the hashing task of rehash re-examines the identity of the members of a multi-path group (FileId::new of the path against the scanned id) before the hash function is called, and leaves out the paths that now lead elsewhere',
        'C01.R12': 'with the hash cache a reported group still consists of identical files: an entry that a same-length rewrite within the tick of a coarse file-system clock would leave valid is never stored (re-evaluates C12.R6)',
        'C01.R11': 'a file is identified by its whole FileId: the inode number is never read without the device (derived Eq/Ord/Hash of FileId, the cache key), except by the inode_id() accessor whose only user computes the read-ordering `location`; a run of \'paths of the same file\' keyed by the inode alone would give one hash to different files of two file systems mapped to one DiskDevice',
        'C01.R10': 'the chunks are cut from the length recorded by the scan, so the data are only those of the reported file if the length still holds: the three raw hashing stages hand the scanned length to the hasher with the chunk, and file_hash compares it with the length of the file it has open (fstat) and fails on a mismatch - a file that grew or shrank after the scan leaves the stage with a warning instead of being reported under its old length',
        'C01.R9': 'the report file (-o FILE) is created, empty, before the scan starts (main.rs: check_can_create_output_file), so the scan must not take it for one of the input files: scan_files filters out the path that equals config.output',
        'C01.R8': 'the suffix stage never hashes the chunk the prefix stage already hashed: its pre-filter excludes files not longer than the prefix length (a comparison of file_len with a value that group_files derives from the same prefix_len it hands to the prefix and contents stages); otherwise whole-file ^ whole-file = 0 merges all files of one length',
        'C01.R7': 'file_hash opens at chunk.pos and bounds by chunk.len; stream_hash feeds every buffer to the hasher; the read loop exits only at the bound, on read()==0, or with Err',
    },
    'not_decided': 'that equal hashes mean equal bytes; short reads of files that change under the scan; device classification at run time',
    'assumptions': ['the hash functions are collision-free for the purposes of the tool'],
}


@register('C01', DOC)
def run(ctx):
    r1(ctx)
    r2(ctx)
    r3(ctx)
    r4(ctx)
    r5(ctx)
    r6(ctx, 'C01.R6')
    r7(ctx)
    r8(ctx)
    r9(ctx)
    r10(ctx)
    r11(ctx)
    r13(ctx)
    r14(ctx)
    r15(ctx)
    from .common import reevaluate
    from . import c12
    reevaluate(ctx, 'C01.R12', c12.r6)
    from .common import run_mandatory
    run_mandatory(ctx, 'C01')


def hash_closure_of(lib, stage):
    """the closure handed to rehash as hash function (last argument) in a stage fn"""
    b = lib.body('group::' + stage)
    if b is None:
        return None, None, None
    rh = b.calls(rehash_rx(lib))
    if not rh:
        return b, None, None
    l = op_local(rh[0].args[-1])
    for cp in lib.closures_of(b.path, recursive=False):
        cr = closure_creation(lib, cp)
        if cr and l in forward_locals(b, cr[2]['p'][0]):
            return b, rh[0], lib.body(cp)
    return b, rh[0], None


def pre_filter_of(lib, stage):
    b = lib.body('group::' + stage)
    rh = b.calls(rehash_rx(lib)) if b else []
    if not rh:
        return None
    l = op_local(rh[0].args[1])
    for cp in lib.closures_of(b.path, recursive=False):
        cr = closure_creation(lib, cp)
        if cr and (l in forward_locals(b, cr[2]['p'][0]) or cr[2]['p'][0] in backslice(b, [rh[0].args[1]]).locals):
            return lib.body(cp)
    return None


def r1(ctx):
    rule = 'C01.R1'
    lib = ctx.lib
    pb, prh, pc = hash_closure_of(lib, 'group_by_prefix')
    cb_, crh, cc = hash_closure_of(lib, 'group_by_contents')
    if pc is None or cc is None:
        ctx.missing(rule, 'hash closures of group_by_prefix / group_by_contents')
        return
    ctx.fn(pc, cc)
    # prefix stage: comparison fi.len REL1 prefix_len; on the true side chunk len = prefix_len
    rel1 = None
    for cmp in comparisons(pc):
        sa, sb = backslice(pc, [cmp.a]), backslice(pc, [cmp.b])
        a_len = 'len' in sa.field_names() and not sa.upvars
        b_len = 'len' in sb.field_names() and not sb.upvars
        a_p = any(n == 'prefix_len' for _, n in sa.upvars)
        b_p = any(n == 'prefix_len' for _, n in sb.upvars)
        if a_len and b_p:
            rel1 = (cmp, cmp.op)
        elif b_len and a_p:
            rel1 = (cmp, FLIP[cmp.op])
    if rel1 is None:
        others = []
        for cmp in comparisons(pc):
            sa, sb = backslice(pc, [cmp.a]), backslice(pc, [cmp.b])
            if 'len' in sa.field_names() or 'len' in sb.field_names():
                oth = sb if 'len' in sa.field_names() else sa
                others.append((cmp, oth.describe(pc)))
        if others:
            ctx.violation(rule, pc.path + '|prefix-threshold', pc.where(others[0][0].line),
                          'the prefix stage decides "this file is hashed completely" by comparing its length with {%s}, not with the prefix length that group_files also hands to the '
                          'contents stage as its lower bound: files between the two thresholds are hashed completely by neither stage' % others[0][1])
        else:
            ctx.missing(rule, 'comparison fi.len vs prefix_len in the prefix stage', pc.where())
        return
    cmp, op1 = rel1
    br = branch_of(pc, cmp)
    fc = pc.calls(r'FileChunk.*::new$')
    if br is None or not fc:
        ctx.missing(rule, 'branch / FileChunk::new in the prefix stage', pc.where())
        return
    sw, tt, ft = br
    # length operand of the chunk: on which side is it the full prefix_len (>= file length)?
    lsl = backslice(pc, [fc[0].args[2]])
    full_on_true = None
    ll = op_local(fc[0].args[2])
    for d in pc.defs().get(ll, []) if ll is not None else []:
        pass
    # find the assignments feeding the length local on each side
    def side_value(side):
        vals = set()
        for x in pc.reachable(side):
            if x == fc[0].bb:
                continue
            for s in pc.blocks[x]['stmts']:
                if s['p'][0] in lsl.locals and not s['p'][1] and pc.dominates(side, x):
                    ss = backslice(pc, rvalue_operands(s['rv']))
                    if any(n == 'prefix_len' for _, n in ss.upvars) and not ss.calls:
                        vals.add('prefix_len')
                    elif ss.has_call(r'min_prefix_len$'):
                        vals.add('min_prefix_len')
            c = pc.call_at(x)
            if c is not None and c.dest[0] in lsl.locals and pc.dominates(side, x) and c.matches(r'min_prefix_len$'):
                vals.add('min_prefix_len')
        return vals
    vt, vf = side_value(tt), side_value(ft)
    # the side that hashes `prefix_len` bytes is the side where len REL prefix_len holds
    if 'prefix_len' in vt and 'prefix_len' not in vf:
        rel_small = op1
    elif 'prefix_len' in vf and 'prefix_len' not in vt:
        rel_small = NEG[op1]
    else:
        ctx.violation(rule, pc.path + '|prefix-chunk', fc[0].where(), 'cannot tell on which side the whole prefix is hashed (true side %s, false side %s)' % (sorted(vt), sorted(vf)))
        return
    pos0 = const_int_of_filepos(pc, fc[0].args[1])
    ctx.check(rel_small in ('<=', '<') and pos0 == 0, rule, pc.path + '|prefix-chunk', fc[0].where(),
              'files with len %s P are hashed as chunk (0, P) = completely' % rel_small, 'prefix stage: full prefix hashed when len %s P, position %s' % (rel_small, pos0))
    # contents stage
    pf = pre_filter_of(lib, 'group_by_contents')
    rel2 = None
    if pf is not None:
        ctx.fn(pf)
        for c2 in comparisons(pf):
            sa, sb = backslice(pf, [c2.a]), backslice(pf, [c2.b])
            if 'file_len' in sa.field_names() and any(n == 'min_file_len' for _, n in sb.upvars):
                rel2 = (c2, c2.op)
            elif 'file_len' in sb.field_names() and any(n == 'min_file_len' for _, n in sa.upvars):
                rel2 = (c2, FLIP[c2.op])
    if rel2 is None:
        ctx.missing(rule, 'pre-filter comparison file_len vs min_file_len in the contents stage')
        return
    op2 = rel2[1]
    # which lengths are content-hashed: those for which the pre-filter can be true
    fcc = cc.calls(r'FileChunk.*::new$')
    full = bool(fcc) and const_int_of_filepos(cc, fcc[0].args[1]) == 0 and 'len' in backslice(cc, [fcc[0].args[2]]).field_names() and not backslice(cc, [fcc[0].args[2]]).upvars
    ctx.check(full, rule, cc.path + '|contents-chunk', (fcc[0].where() if fcc else cc.where()), 'contents stage hashes chunk (0, fi.len)', 'the contents stage does not hash the whole file')
    cover = not (rel_small == '<' and op2 == '>') and op2 in ('>=', '>')
    ctx.check(cover, rule, 'group::group_by_contents|cover', pf.where(), 'len %s P hashed fully by the prefix stage, len %s M by the contents stage: every length is covered' % (rel_small, op2),
              'files with len == threshold are hashed fully by neither stage (prefix: len %s P, contents: len %s M)' % (rel_small, op2))
    # P and M are the same value in group_files
    gf = ctx.need_body(rule, 'group::group_files')
    if gf is not None:
        cp_ = gf.calls(r'group::group_by_prefix$')
        cc_ = gf.calls(r'group::group_by_contents$')
        if cp_ and cc_:
            from ..analysis import base_named_local
            a = base_named_local(gf, cp_[0].args[1])
            bq = base_named_local(gf, cc_[0].args[1])
            same = a is not None and a == bq and not backslice(gf, [cc_[0].args[1]], stop_local=lambda l: l == a).binops
            ctx.check(same, rule, gf.path + '|same-threshold', cc_[0].where(), 'prefix length and contents threshold are the same local `%s`' % (gf.local_name(a) if a else '?'), 'the contents threshold is not the prefix length used by the prefix stage')
            # bypass only under skip_content_hash
            g = None
            for d in gf.dominators()[cc_[0].bb]:
                t = gf.blocks[d]['term']
                if t['k'] == 'switch':
                    df = direct_field(gf, t['op'])
                    if df and df[0] == 'skip_content_hash':
                        tt2, ft2 = switch_targets_bool(t)
                        run_side = tt2 if df[2] else ft2
                        g = gf.dominates(run_side, cc_[0].bb)
            other_guards = [d for d in gf.dominators()[cc_[0].bb] if gf.blocks[d]['term']['k'] == 'switch' and d not in gf.dominators()[cp_[0].bb]
                            and not (direct_field(gf, gf.blocks[d]['term']['op']) or ('', '', 0))[0] == 'skip_content_hash']
            ctx.check(bool(g) and not other_guards, rule, gf.path + '|bypass', cc_[0].where(), 'the contents stage runs unless skip_content_hash', 'the contents stage can be skipped without --skip-content-hash')
    # the pre-filter's other conjunct may only be "more than one distinct inode"
    if pf is not None:
        others = [c.path.rsplit('::', 1)[-1] for c in pf.calls() if not c.matches(r'PartialOrd|Deref')]
        ctx.check(set(others) <= {'unique_count', 'ge', 'gt', 'le', 'lt'}, rule, pf.path + '|prefilter-conjuncts', pf.where(), 'content hashing skipped only for groups of one inode or below the threshold', 'the contents pre-filter also depends on %s' % others)


def const_int_of_filepos(body, op):
    sl = backslice(body, [op])
    for blk in body.blocks:
        for s in blk['stmts']:
            if s['p'][0] in sl.locals and s['rv']['k'] == 'agg' and s['rv'].get('adt', '').endswith('FilePos'):
                return const_int(s['rv']['ops'][0])
    if sl.has_call(r'FilePos::zero$'):
        return 0
    return None


def r2(ctx):
    rule = 'C01.R2'
    lib = ctx.lib
    rh = ctx.need_body(rule, rehash_core_path(lib))
    if rh is None:
        return
    gm = rh.calls(r'GroupMap.*::new$')
    if not ctx.floor(rule, 'GroupMap::new in rehash', len(gm), 1, rh.where()):
        return
    l = op_local(gm[0].args[0])
    kc = None
    for cp in lib.closures_of(rh.path, recursive=False):
        cr = closure_creation(lib, cp)
        if cr and (l in forward_locals(rh, cr[2]['p'][0]) or cr[2]['p'][0] == l):
            kc = lib.body(cp)
    if kc is None:
        ctx.missing(rule, 'key closure of GroupMap::new', gm[0].where())
        return
    ctx.fn(kc)
    # return value = (key, value); key = (len, hash)
    tuples = [s for blk in kc.blocks for s in blk['stmts'] if s['rv']['k'] == 'agg' and s['rv'].get('ak') == 'tuple']
    good = False
    for s in tuples:
        if s['p'][0] == 0 and len(s['rv']['ops']) == 2:
            ksl = backslice(kc, [s['rv']['ops'][0]])
            fn_ = ksl.field_names()
            good = 'len' in fn_ and 'file_hash' in fn_
    ctx.check(good, rule, kc.path, kc.where(), 'regrouping key = (file_info.len, file_hash)', 'the regrouping key is not (length, hash)')
    # all call sites hand every hashed file to add()
    n = 0
    for st in ('group_transformed', 'group_by_prefix', 'group_by_suffix', 'group_by_contents'):
        sb = lib.body('group::' + st)
        if sb is not None and sb.calls(rehash_rx(lib)):
            n += 1
    ctx.floor(rule, 'rehash call sites', n, 4)


def r3(ctx):
    rule = 'C01.R3'
    lib = ctx.lib
    b, rh, hc = hash_closure_of(lib, 'group_by_suffix')
    if hc is None:
        ctx.missing(rule, 'hash closure of group_by_suffix')
        return
    ctx.fn(hc)
    found = False
    for body in [hc] + [lib.body(p) for p in lib.closures_of(hc.path)]:
        for c in body.calls(r'FileHash as std::ops::BitXor.*>::bitxor$|^file::FileHash::\w+$'):
            if len(c.args) < 2:
                continue
            sa, sb = backslice(body, [c.args[0]]), backslice(body, [c.args[1]])
            old_a = any(n == 'old_hash' for _, n in sa.upvars) or any(body.local_name(l) == 'old_hash' for l in sa.locals)
            new_b = 2 in sb.params or any(body.local_name(l) == 'new_hash' for l in sb.locals)
            old_b = any(n == 'old_hash' for _, n in sb.upvars) or any(body.local_name(l) == 'old_hash' for l in sb.locals)
            new_a = 2 in sa.params or any(body.local_name(l) == 'new_hash' for l in sa.locals)
            if not ((old_a and new_b) or (old_b and new_a)):
                continue
            found = True
            ret = c.dest[0] == 0 or c in backslice(body, [0]).calls
            ctx.check(ret, rule, body.path, c.where(), 'the suffix stage returns a combination of the old and the new hash', 'the combination of the old and the new hash is not the result')
            # the combination identifies the PAIR (prefix hash, suffix hash): xor does not - equal operands cancel (a file whose first and last block are equal
            # gets 0, whatever the block contains) and the operands commute (X..Y and Y..X get the same value)
            xor = c.matches(r'BitXor.*>::bitxor$')
            cb = lib.body(c.path) if not xor else None
            if cb is not None:
                xor = any(st['rv']['k'] == 'bin' and st['rv']['op'] == 'BitXor' for blk in cb.blocks for st in blk['stmts']) or bool(cb.calls(r'BitXor.*>::bitxor$'))
                for cp_ in lib.closures_of(cb.path):
                    xor = xor or any(st['rv']['k'] == 'bin' and st['rv']['op'] == 'BitXor' for blk in lib.body(cp_).blocks for st in blk['stmts'])
                joins = bool(cb.calls(r'::concat$|::extend_from_slice$|::extend$|Iterator::chain$|::join$'))
            else:
                joins = False
            ctx.check(not xor and (joins or cb is None and False), rule, body.path + '|pair-identified', c.where(), 'the two hashes are joined, not xor-ed: the result identifies the pair (prefix hash, suffix hash)',
                      'the prefix hash and the suffix hash are combined with xor, which cancels and commutes: when the block read as the prefix equals the block read as the suffix (4 KiB each: the default on '
                      'SSDs for files >= 64 KiB; files filled with one value, padded images) every such file gets the key (len, 0), and X..Y / Y..X get the same key - groups that the prefix stage had '
                      'separated are merged again; with --skip-content-hash that is final (two classes reported as one group; with --unique / --rf-under both vanish)')
    if not found:
        ctx.violation(rule, hc.path, hc.where(), 'the suffix stage does not combine the new hash with the previous one: the prefix information is lost from the group key')
    # the result passes through Option::map of the hash result (None stays None)
    hf = hc.calls(r'hash_file_or_log_err$')
    ctx.check(bool(hf) and any(c.matches(r'Option(::)?<.*>::map$') and hf[0] in backslice(hc, [c.args[0]]).calls for c in hc.calls()), rule, hc.path + '|none-stays-none', hc.where(), 'a failed suffix hash stays None', 'a failed suffix hash is replaced by a value')


def r4(ctx):
    rule = 'C01.R4'
    lib = ctx.lib
    found = False
    for cp in lib.closures_of(rehash_core_path(lib)):
        cb = lib.body(cp)
        for c in cb.calls(r'Itertools::group_by$|::group_by$|::chunk_by$'):
            l = op_local(c.args[1])
            for kp in lib.closures_of(cp, recursive=False):
                cr = closure_creation(lib, kp)
                if cr and l in forward_locals(cb, cr[2]['p'][0]):
                    kb = lib.body(kp)
                    rs = backslice(kb, [0])
                    found = True
                    ctx.fn(kb)
                            # the key holds the whole id (no function of it); it may hold more than the id (a finer grouping shares less)
                    id_through_call = [k for k in rs.calls if any('id' in backslice(kb, [a], follow_call=lambda c_: []).field_names() for a in k.args)]
                    ctx.check(rs.field_names() >= {'file_info', 'id'} and not id_through_call, rule, kp, kb.where(), 'inode groups keyed by file_info.id%s' % (' (+ %s)' % ', '.join(sorted(rs.field_names() - {'file_info', 'id'})) if rs.field_names() - {'file_info', 'id'} else ''),
                              'the hash is shared between files grouped by %s' % sorted(rs.field_names()))
            # grouping adjacent entries requires the files to be sorted by the same key first
            srt = [x for x in cb.calls(r'sort') if cb.dominates(x.bb, c.bb)]
            ctx.check(bool(srt), rule, cp + '|sorted-before-grouping', c.where(), 'files are sorted (%s) before adjacent grouping' % ','.join(x.path.rsplit('::', 1)[-1] for x in srt), 'adjacent grouping without a preceding sort')
    if not found:
        ctx.missing(rule, 'group_by(file_info.id) in the hashing thread')
    a = lib.adts.get('file::FileId')
    if a is None:
        ctx.missing(rule, 'struct FileId')
        return
    fields = [f for f, _ in a['variants'][0]['fields']]
    derived_eq = any(i['trait'].endswith('cmp::PartialEq') and i['self_ty'] == 'file::FileId' and i['derived'] for i in lib.impls)
    derived_hash = any(i['trait'].endswith('hash::Hash') and i['self_ty'] == 'file::FileId' and i['derived'] for i in lib.impls)
    ctx.check(set(fields) == {'device', 'inode'} and derived_eq, rule, 'file::FileId|identity', '-', 'FileId = {device, inode} with derived equality', 'FileId fields %s, derived PartialEq=%s' % (fields, derived_eq))
    # location (physical) must not be used as identity: sort key may be location, the grouping key is id


def r5(ctx):
    rule = 'C01.R5'
    lib = ctx.lib
    b = ctx.need_body(rule, "hasher::FileHasher::<'_>::hash_transformed")
    if b is None:
        return
    sh = b.calls(r'hasher::stream_hash$')
    n_alg = len(lib.adts.get('hasher::HashFn', {'variants': []})['variants'])
    ctx.floor(rule, 'stream_hash dispatch arms in hash_transformed', len(sh), max(1, n_alg), b.where())
    for c in sh:
        sl = backslice(b, [c.args[1]], follow_call=lambda cc: [] if cc.matches(r'Transform::run$') else None)
        dep = 1 if False else None
        raw = ('len' in sl.field_names() and (2 in sl.params)) or any(b.local_name(p) == 'chunk' for p in sl.params)
        alg = (c.f.get('gargs') or ['?'])[0].split('::')[-1]
        ctx.check(not raw, rule, '%s|bound|%s' % (b.path, alg), c.where(), 'the bound of the transformed stream does not depend on the raw length (%s)' % (sl.describe(b) or 'constant'),
                  'the transformed stream is hashed only up to chunk.len, the length of the *raw* file: outputs that differ beyond that offset (an expanding transform) get the same hash and length')
        # the stream is the transform's output
        ssl = backslice(b, [c.args[0]])
        ctx.check(ssl.has_call(r'Transform::run$') and 'out_stream' in ssl.field_names(), rule, '%s|stream|%s' % (b.path, alg), c.where(), 'hashes transform.run(path).out_stream', 'the hashed stream is not the transform output')
    # the returned length is the number of bytes hashed
    rs = backslice(b, [0])
    ctx.check(any(c in rs.calls for c in sh), rule, b.path + '|returns-stream-length', b.where(), 'returns (bytes read, hash) of the transformed stream', 'the result is not the stream_hash result')
    # group_transformed stores that length in the FileInfo
    bb_, rh, hc = hash_closure_of(lib, 'group_transformed')
    if hc is not None:
        w = []
        for body in [hc] + [lib.body(p) for p in lib.closures_of(hc.path)]:
            w += [(body, s) for bi, s in field_writes(body, 'len', 'FileInfo', include_mut_borrows=True)]
        ctx.check(bool(w), rule, 'group::group_transformed|length-recorded', hc.where(), 'fi.len = transformed length', 'the transformed length is not stored in the FileInfo')


def r6(ctx, rule):
    lib = ctx.lib
    # W: FileInfo fields written through the &mut given to hash_fn
    W = set()
    for st in ('group_transformed', 'group_by_prefix', 'group_by_suffix', 'group_by_contents'):
        b, rh, hc = hash_closure_of(lib, st)
        if hc is None:
            continue
        for body in [hc] + [lib.body(p) for p in lib.closures_of(hc.path)]:
            for blk in body.blocks:
                for s in blk['stmts']:
                    fs = [e for e in s['p'][1] if isinstance(e, list) and e[0] == 'F' and len(e) > 3 and e[3].endswith('FileInfo')]
                    if fs:
                        W.add(fs[-1][2])
                    if s['rv']['k'] in ('ref', 'rawptr') and s['rv'].get('mut'):
                        fs = [e for e in s['rv']['p'][1] if isinstance(e, list) and e[0] == 'F' and len(e) > 3 and e[3].endswith('FileInfo')]
                        if fs:
                            W.add(fs[-1][2])
    # R: fields of file_info read by the group key closure
    rh = rehash_core(lib)
    R = set()
    if rh is not None:
        for cp in lib.closures_of(rh.path, recursive=False):
            cb = lib.body(cp)
            if cb.argc == 2 and 'HashedFileInfo' in cb.local_ty(2):
                for blk in cb.blocks:
                    for s in blk['stmts']:
                        for p in rvalue_places(s['rv']):
                            fs = [e for e in p[1] if isinstance(e, list) and e[0] == 'F']
                            for i, e in enumerate(fs):
                                if len(e) > 3 and e[3].endswith('FileInfo'):
                                    R.add(e[2])
    ctx.stats[rule + ':written-by-hash_fn'] = sorted(W)
    ctx.stats[rule + ':read-by-group-key'] = sorted(R)
    need = W & R
    task = None
    for cp in lib.closures_of(rehash_core_path(lib)):
        cb = lib.body(cp)
        if cb.calls(r'Sender<.*>::send$|Sender::<T>::send$'):
            task = cb
    if task is None:
        ctx.missing(rule, 'hashing task (Sender::send)')
        return
    ctx.fn(task)
    send = task.calls(r'Sender<.*>::send$|Sender::<T>::send$')[0]
    sent_l = set(backslice(task, [send.args[1]], follow_call=lambda c: []).locals)
    for f in sorted(need):
        # an assignment to <sent>.file_info.<f> that dominates the send inside the loop
        ok = False
        for bi, s in field_writes(task, f, 'FileInfo'):
            if s['p'][0] in sent_l and task.dominates(bi, send.bb):
                ok = True
        ctx.check(ok, rule, '%s|field=%s' % (task.path, f), send.where(), 'every HashedFileInfo sent gets file_info.%s assigned before send()' % f,
                  'file_info.%s is modified by the hash function on the first path of an inode only (through &mut fg[0].file_info) but it is part of the group key: '
                  'the other hard links of the inode are sent with the stale value and land in a different group' % f)
    if not need:
        ctx.ok(rule, task.path + '|no-shared-field', send.where(), 'no FileInfo field is both written by a hash function and read by the group key')


def r7(ctx):
    rule = 'C01.R7'
    lib = ctx.lib
    fh = ctx.need_body(rule, 'hasher::file_hash')
    if fh is not None:
        op = fh.calls(r'hasher::open$')
        sh = fh.calls(r'hasher::stream_hash$')
        good = bool(op and sh)
        if good:
            p, l = backslice(fh, [op[0].args[1]]), backslice(fh, [op[0].args[2]])
            bl = backslice(fh, [sh[0].args[1]])
            good = 'pos' in p.field_names() and 'len' in bl.field_names() and 1 in bl.params and op[0] in backslice(fh, [sh[0].args[0]]).calls
        ctx.check(good, rule, fh.path, fh.where(), 'open(path, chunk.pos, ..) then stream_hash(file, chunk.len)', 'file_hash does not honour chunk.pos / chunk.len')
    ob = ctx.need_body(rule, 'hasher::open')
    if ob is not None:
        sk = ob.calls(r'Seek>::seek$|::seek$')
        good = bool(sk) and 2 in backslice(ob, [sk[0].args[1]]).params
        ctx.check(good, rule, ob.path + '|seek', ob.where(), 'seeks to the chunk offset', 'open() does not seek to the requested offset')
    sh = ctx.need_body(rule, 'hasher::stream_hash')
    if sh is not None:
        upd = None
        for cp in lib.closures_of(sh.path):
            cb = lib.body(cp)
            u = cb.calls(r'StreamHasher::update$|StreamHasher>::update$')
            if u:
                upd = (cb, u[0])
        good = upd is not None and 2 in backslice(upd[0], [upd[1].args[1]]).params
        ctx.check(bool(good), rule, sh.path + '|update', sh.where(), 'every buffer handed to the consumer is fed to the hasher unchanged', 'the consumer does not hash the buffer it receives')
        sc = sh.calls(r'hasher::scan$')
        good = bool(sc) and 2 in backslice(sh, [sc[0].args[1]]).params and not backslice(sh, [sc[0].args[1]]).binops
        ctx.check(good, rule, sh.path + '|bound', sh.where(), 'scan(stream, len, ..) with the caller\'s bound', 'stream_hash alters the bound')
    # the read loop
    loop_body = None
    for p, b in lib.bodies.items():
        if p.startswith('hasher::scan') and b.calls(r'Read>::read$|Read::read$'):
            loop_body = b
    if loop_body is None:
        ctx.missing(rule, 'read loop in hasher::scan')
        return
    b = loop_body
    ctx.fn(b)
    rd = b.calls(r'Read>::read$|Read::read$')[0]
    loop = {x for x in b.reachable(rd.bb) if rd.bb in b.reachable(x)}
    sw = switch_on_result_of(b, rd)
    exits = []
    for x in loop:
        t = b.blocks[x]['term']
        for s in b.succs(x):
            if s not in loop:
                exits.append((x, s))
    bad = []
    kinds = []
    for x, s in exits:
        t = b.blocks[x]['term']
        if t['k'] != 'switch':
            if t['k'] in ('call', 'drop', 'goto', 'assert'):
                # straight-line exit: classify by the block that decided to come here
                doms = [d for d in b.dominators()[x] if d in loop and b.blocks[d]['term']['k'] == 'switch']
                x = max(doms, key=lambda d: len(b.dominators()[d])) if doms else x
                t = b.blocks[x]['term']
            if t['k'] != 'switch':
                bad.append((x, 'non-switch exit'))
                continue
        dd = direct_def(b, t['op'])
        kind = None
        if dd[0] == 'stmt' and dd[1]['rv']['k'] == 'bin' and dd[1]['rv']['op'] in ('Lt', 'Le', 'Gt', 'Ge'):
            # bound test: read vs len
            from ..analysis import base_named_local
            na = base_named_local(b, dd[1]['rv']['a'])
            nb = base_named_local(b, dd[1]['rv']['b'])
            # the accumulator (only ever increased by the bytes just read) against a bound that depends on neither
            def is_acc(l):
                if l is None:
                    return False
                for d_ in b.defs().get(l, []):
                    if d_[2] == 'assign':
                        sl_ = backslice(b, rvalue_operands(d_[3]['rv']), stop_local=lambda x: x == l)
                        if any(op_.startswith('Add') for op_, _ in sl_.binops) and rd.dest[0] in sl_.locals and l in sl_.locals:
                            return True
                return False

            def is_bound(l, acc):
                if l is None:
                    return False
                sl_ = backslice(b, [l])
                return rd.dest[0] not in sl_.locals and acc not in sl_.locals and bool(sl_.upvars or sl_.params)
            if (is_acc(na) and is_bound(nb, na)) or (is_acc(nb) and is_bound(na, nb)):
                kind = 'bound'
        elif dd[0] == 'stmt' and dd[1]['rv']['k'] == 'disc' and (dd[1]['rv']['p'][0] == rd.dest[0] or any(
                k.matches(r'Try>::branch$|Try::branch$') and k.dest[0] == dd[1]['rv']['p'][0] and op_local(k.args[0]) in forward_locals(b, rd.dest[0]) for k in b.calls())):
            # `match read(..)` or `read(..)?` (the discriminant of Try::branch(result))
            kind = 'error'
        elif dd[0] == 'stmt' and dd[1]['rv']['k'] == 'bin' and dd[1]['rv']['op'] in ('Eq', 'Ne') and 0 in (const_int(dd[1]['rv']['a']), const_int(dd[1]['rv']['b'])):
            # `if n == 0 { break }` on the number of bytes just read
            other = dd[1]['rv']['b'] if const_int(dd[1]['rv']['a']) == 0 else dd[1]['rv']['a']
            if op_local(other) in forward_locals(b, rd.dest[0], through_calls=lambda c_, i_: c_.matches(r'Try>::branch$|Try::branch$')):
                tt, ft = switch_targets_bool(t)
                zero = tt if dd[1]['rv']['op'] == 'Eq' else ft
                if zero == s or (zero not in loop and s in b.reachable(zero)):
                    kind = 'eof'
        else:
            # switch on the Ok payload: value 0 leaves
            pl = op_place(t['op'])
            src = dd[1] if dd[0] == 'place' else None
            if (src and src[0] == rd.dest[0]) or (dd[0] == 'stmt' and dd[1]['rv']['k'] == 'use' and (op_place(dd[1]['rv']['op']) or [None])[0] == rd.dest[0]):
                m = dict(zip(t['vals'], t['tgts']))
                if 0 in m and (m[0] == s or s in b.reachable(m[0]) and m[0] not in loop):
                    kind = 'eof'
        if kind is None:
            bad.append((x, 'exit decided by %s' % (dd[0],)))
        else:
            kinds.append(kind)
    ctx.check(not bad and 'bound' in kinds and 'eof' in kinds, rule, b.path + '|loop-exits', rd.where(),
              'the read loop is left only at the bound, on read()==0 and on Err (%s)' % ','.join(sorted(set(kinds))),
              'the read loop can also stop early: %s (a short read is not EOF: the rest of the stream would stay unhashed)' % '; '.join('bb%d %s (line %s)' % (x, w, b.blocks[x]['term']['line']) for x, w in bad))
    # the consumer gets exactly the bytes read: &buf[..actual_read]
    cons = [c for c in b.calls() if not c.f.get('res') and c.f.get('method') in ('call_mut', 'call', 'call_once')]
    if cons:
        sl = backslice(b, [cons[0].args[1]])
        ctx.check(rd.dest[0] in sl.locals or rd in sl.calls, rule, b.path + '|consumer-slice', cons[0].where(), 'the consumer receives buf[..actual_read]', 'the consumer does not receive exactly the bytes just read')


def r8(ctx, rule='C01.R8'):
    lib = ctx.lib
    gf = ctx.need_body(rule, 'group::group_files')
    sb = ctx.need_body(rule, 'group::group_by_suffix')
    if gf is None or sb is None:
        return
    from ..analysis import base_named_local, upvar_operand
    pc = gf.calls(r'group::group_by_prefix$')
    sc = gf.calls(r'group::group_by_suffix$')
    if not pc or not sc:
        ctx.missing(rule, 'group_by_prefix / group_by_suffix calls in group_files', gf.where())
        return
    src = base_named_local(gf, pc[0].args[1]) if len(pc[0].args) > 1 else None
    pidx = None
    for i, a in enumerate(sc[0].args):
        if src is not None and base_named_local(gf, a) == src and i != 0:
            pidx = i + 1      # parameter local of group_by_suffix
    pf = pre_filter_of(lib, 'group_by_suffix')
    ok = False
    why = 'group_files does not hand the prefix length to group_by_suffix at all'
    if pidx is not None and pf is not None:
        why = 'the pre-filter of group_by_suffix never compares file_len with the prefix length'
        for cmp in comparisons(pf):
            sa, sb_ = backslice(pf, [cmp.a]), backslice(pf, [cmp.b])
            for flen, other, op in ((sa, sb_, cmp.op), (sb_, sa, FLIP[cmp.op])):
                if 'file_len' not in flen.field_names():
                    continue
                from_param = False
                for i, n in other.upvars:
                    pb, o = upvar_operand(lib, pf, i)
                    if pb is not None and o is not None and pidx in backslice(pb, [o]).params:
                        from_param = True
                if from_param:
                    ok = op == '>'
                    br = branch_of(pf, cmp)
                    if ok and br:
                        # the comparison is a conjunct: from its false side the closure can only return false
                        sw, tt, ft = br
                        fside = ft if op == cmp.op else ft
                        for x in pf.reachable(fside):
                            if pf.dominates(tt, x):
                                continue
                            for st in pf.blocks[x]['stmts']:
                                if st['p'][0] == 0 and not st['p'][1] and not (st['rv']['k'] == 'use' and const_bool(st['rv']['op']) is False) and not pf.dominates(fside, x) is False:
                                    if pf.dominates(fside, x):
                                        ok = False
                                        why = 'the comparison of file_len with the prefix length is not a necessary condition of the pre-filter (the closure can return true from its false side)'
                    why = 'the pre-filter compares file_len %s prefix length; files with file_len == prefix length were hashed completely by the prefix stage too' % op
    elif pf is None:
        why = 'pre-filter closure of group_by_suffix not found'
    ctx.check(ok, rule, 'group::group_by_suffix|skips-fully-hashed', sb.where(), 'suffix stage pre-filter: file_len > prefix_len (the value group_files hands to all three stages)',
              why + ': for a file that the prefix stage hashed completely and whose suffix chunk is again the whole file (--max-suffix-size >= length), old_hash ^ new_hash = 0, '
              'so every file of that length lands in one group and the contents stage (file_len >= prefix_len only) never separates them')


def r9(ctx, rule='C01.R9'):
    lib, bn = ctx.lib, ctx.bin
    sc = ctx.need_body(rule, 'group::scan_files')
    if sc is None:
        return
    rg = bn.body('run_group') if bn else None
    created_before = False
    if rg is not None:
        cc = rg.calls(r'check_can_create_output_file$')
        gf = rg.calls(r'group_files$')
        created_before = bool(cc and gf) and rg.dominates(cc[0].bb, gf[0].bb)
    if not created_before:
        ctx.ok(rule, 'group::scan_files|output-not-scanned', sc.where(), 'the report file is not created before the scan')
        return
    bodies = [sc] + [lib.body(c) for c in lib.closures_of(sc.path)]
    ok = False
    for x in bodies:
        for c in x.calls(r'PartialEq.*>::(eq|ne)$|PartialEq::(eq|ne)$'):
            names = set()
            for a in c.args:
                sl = backslice(x, [a])
                names |= set(sl.field_names()) | {n for _, n in sl.upvars}
            if 'output' in names and ('path' in names or 'info' in names):
                ok = True
    # the other way the report file exists before the scan: the shell created it for `> report.txt` (the usage shown in the README)
    fst = [(x, c) for x in bodies + [hb for x0 in bodies for k in x0.calls(r'^group::\w+$') for hb in [lib.body(k.path)] if hb is not None]
           for c in x.calls(r'nix::sys::stat::fstat$|^libc::fstat|File::metadata$|AsRawFd|as_raw_fd$|^std::io::stdout$')]
    cmp_id = False
    for x in bodies:
        for c in x.calls(r'PartialEq.*>::(eq|ne)$|PartialEq::(eq|ne)$'):
            names = set()
            for a in c.args:
                sl = backslice(x, [a])
                names |= set(sl.field_names()) | {n for _, n in sl.upvars}
            if 'id' in names and any(n and 'output' in n for n in names):
                cmp_id = True
    ctx.check(bool(fst) and cmp_id, rule, 'group::scan_files|redirected-output-not-scanned', (fst[0][1].where() if fst else sc.where()), 'scan_files drops the file that the standard output is redirected to (compared by file identifier)',
              'only the path given with -o is kept out of the scan: with `cd d; fclones group . --min 0 > dupes.txt` the shell creates dupes.txt before fclones starts, it stays empty until the report is '
              'written at the very end, and the report lists dupes.txt itself as a 0 B duplicate of the empty files (or as a unique file with --unique)')
    # ... under every name it has: the -o file too is told by its identifier (a hard link to it, or a reported symbolic link, has another path)
    def about_output(x, c):
        if any('output' in backslice(x, [a]).field_names() or any(n == 'output' for _, n in backslice(x, [a]).upvars) for a in c.args):
            return True
        # inside a closure applied to config.output: `config.output.as_ref().and_then(|p| FileId::new(..))`
        cr = closure_creation(lib, x.path) if x.kind == 'closure' or '{closure' in x.path else None
        if cr:
            par, _, st = cr
            fl = forward_locals(par, st['p'][0]) | {st['p'][0]}
            for k in par.calls(r'Option<.*>::(and_then|map)$|Option::<T>::(and_then|map)$'):
                if any(op_local(a) in fl for a in k.args[1:]) and 'output' in backslice(par, [k.args[0]]).field_names():
                    return True
        return False
    oid = [(x, c) for x in bodies for c in x.calls(r'^file::FileId::new$|FileMetadata::new$|^std::fs::metadata$|FileId::from_metadata$') if about_output(x, c)]
    ctx.check(bool(oid) and cmp_id, rule, 'group::scan_files|output-identified-by-file-id', (oid[0][1].where() if oid else sc.where()), 'the -o file is recognised by its file identifier, like the redirected one',
              'the -o file is kept out of the scan by comparing paths, the redirected one by comparing file identifiers: a second name of the report file in the scanned tree - a hard link (`ln report.txt '
              'latest.txt`) or, with --symbolic-links, a link to it - is empty at scan time and lands in the group of the empty files of the very report that is written into it; `-o FILE` and '
              '`> FILE` then describe different groups of the same tree')
    ctx.check(ok, rule, 'group::scan_files|output-not-scanned', sc.where(), 'scan_files drops the path equal to config.output',
              'run_group creates (truncates) the report file before group_files scans the tree, and nothing keeps the scan from picking it up: with `cd d; fclones group . --min 0 -o report.txt` the '
              'report lists report.txt itself as a 0-byte duplicate of the empty files, while it is hundreds of bytes long')


def r10(ctx, rule='C01.R10'):
    lib = ctx.lib
    fh = [b for p_, b in lib.bodies.items() if re.match(r'^hasher::file_hash$', p_)]
    if not fh:
        ctx.missing(rule, 'fn hasher::file_hash')
        return
    b = fh[0]
    md = b.calls(r'File::metadata$')
    ok = False
    for cmp in comparisons(b):
        sa, sb_ = backslice(b, [cmp.a]), backslice(b, [cmp.b])
        exp = 'file_len' in sa.field_names() or 'file_len' in sb_.field_names()
        act = sa.has_call(r'Metadata::len$') or sb_.has_call(r'Metadata::len$')
        if exp and act and cmp.op in ('==', '!='):
            br = branch_of(b, cmp)
            if br:
                ne_side = br[1] if cmp.op == '!=' else br[2]
                rv = return_variants_from(b, ne_side)
                ok = 'Err' in rv and not (b.dominates(ne_side, b.return_blocks()[0]) and 'Ok' in rv and 'Err' not in rv)
    # PartialEq::ne on FileLen is a call, not a primitive comparison
    for c in b.calls(r'PartialEq.*>::(ne|eq)$|PartialEq::(ne|eq)$'):
        names = set()
        calls = []
        for a in c.args:
            sl = backslice(b, [a])
            names |= set(sl.field_names())
            calls += sl.calls
        if 'file_len' in names and any(k.matches(r'Metadata::len$') for k in calls):
            for (bbx, idx, what) in b.operand_uses(c.dest[0]):
                if what[0] == 'switch':
                    tt, ft = switch_targets_bool(what[1])
                    side = tt if c.path.endswith('ne') else ft
                    if side is not None and 'Err' in return_variants_from(b, side):
                        ok = True
    ctx.check(bool(md) and ok, rule, b.path + '|length-still-holds', (md[0].where() if md else b.where()), 'file_hash fails when the length of the open file differs from the scanned length carried by the chunk',
              'file_hash reads `chunk.len` bytes at `chunk.pos`, both cut from the length recorded by the scan, and never looks at the current length of the file (it even discards the number of bytes read): '
              'a file that was appended to after the scan is hashed over its old length and reported as a duplicate with that length, a file that was truncated is hashed over fewer bytes than reported - '
              'both silently')
    # ... and the length is only worth something if it says how much data there is: the number of bytes that stream_hash read is compared with what the
    # length promises, and a chunk that ends at the end of the file is followed by a probe for more data
    sh = b.calls(r'hasher::stream_hash$')
    counted = False
    probe = [c for c in b.calls(r'Read>::read$|Read::read$|::read_exact$|::read_to_end$') if True]
    if sh:
        for cmp in comparisons(b):
            for x in (cmp.a, cmp.b):
                sl = backslice(b, [x])
                if any(k.bb == sh[0].bb for k in sl.calls) and cmp.op in ('==', '!='):
                    other = backslice(b, [cmp.b if x is cmp.a else cmp.a])
                    if 'file_len' in other.field_names() or other.has_call(r'cmp::min$'):
                        br = branch_of(b, cmp)
                        if br:
                            ne_side = br[1] if cmp.op == '!=' else br[2]
                            if 'Err' in return_variants_from(b, ne_side):
                                counted = True
    ctx.check(bool(sh) and counted and bool(probe), rule, b.path + '|amount-read-matches-length', (sh[0].where() if sh else b.where()),
              'file_hash fails when the number of bytes read differs from what the scanned length promises, or when more data follow a chunk that ends at the end of the file',
              'file_hash discards the number of bytes that stream_hash read and compares only st_size with st_size: a file whose reported length says nothing about its data (procfs: 0 B with contents, '
              'sysfs: 4096 B with two bytes) is hashed over whatever comes - two /proc files with different contents ("65536", "65534") are reported as one group of "0 B" files when they agree in the '
              'first --max-prefix-size bytes (the contents stage is skipped for a file shorter than the prefix), and sysfs files are reported with a length of 4096 B')
    n = 0
    for st in ('group_by_prefix', 'group_by_suffix', 'group_by_contents'):
        pb, rh, hc = hash_closure_of(lib, st)
        if hc is None:
            ctx.missing(rule, 'hash closure of ' + st)
            continue
        fc = hc.calls(r'FileChunk.*::new$')
        ex = hc.calls(r'FileChunk.*::of_file_len$')
        good = bool(fc) and bool(ex) and 'len' in backslice(hc, [ex[0].args[1]]).field_names() and fc[0] in backslice(hc, [ex[0].args[0]]).calls
        n += 1
        ctx.check(good, rule, 'group::%s|chunk-carries-scanned-length' % st, (fc[0].where() if fc else hc.where()), '%s: the chunk carries fi.len' % st,
                  '%s hands the chunk to the hasher without the scanned file length, so a changed length cannot be noticed' % st)


def file_id_field_reads(b):
    """names among {inode, device} that the body reads as fields of a place"""
    out = {}
    for blk in b.blocks:
        if blk['cleanup']:
            continue
        for st in blk['stmts']:
            for pl in rvalue_places(st['rv']):
                for f in place_fields(pl):
                    if f in ('inode', 'device'):
                        out.setdefault(f, st['line'])
        t = blk['term']
        for o in (t.get('args') or []):
            pl = op_place(o)
            if pl is not None:
                for f in place_fields(pl):
                    if f in ('inode', 'device'):
                        out.setdefault(f, t['line'])
    return out


def r11(ctx):
    """The identity of a file is the whole FileId (device AND inode)."""
    rule = 'C01.R11'
    lib = ctx.lib
    n = 0
    for p_, b in sorted(lib.bodies.items()):
        if re.search(r'(^|::|<)tests?(::|$)', p_) or b.kind in ('const', 'static', 'promoted'):
            continue
        rd = file_id_field_reads(b)
        if 'inode' not in rd:
            continue
        n += 1
        if p_.endswith('::inode_id'):
            ctx.ok(rule, p_ + '|inode-accessor', b.where(), 'the accessor that feeds the physical location of the file (ordering of the reads only)')
            continue
        ctx.check('device' in rd, rule, p_ + '|inode-with-device', b.where(rd['inode']), 'the inode number is used together with the device',
                  'the inode number of a FileId is used without its device: inode numbers are unique only within one file system, and the files handled together (one DiskDevice of fclones = '
                  'a mount point known to sysinfo and everything mounted below it: tmpfs, bind mounts, btrfs subvolumes, FUSE) come from several - two different files with the same '
                  'inode number are then taken for one file, only one of them is hashed and both are reported with its hash')
    ctx.floor(rule, 'bodies reading FileId.inode', n, 7)
    users = [(p_, c) for p_, b in sorted(lib.bodies.items()) if not re.search(r'(^|::|<)tests?(::|$)', p_) for c in b.calls(r'::inode_id$')]
    for p_, c in users:
        b = lib.body(p_)
        locs = [st for blk in b.blocks for st in blk['stmts'] if st['rv']['k'] == 'agg' and agg_field(st, 'location') is not None
                and any(k.bb == c.bb for k in backslice(b, [agg_field(st, 'location')]).calls)]
        ctx.check(bool(locs), rule, p_ + '|inode_id-feeds-location', c.where(), 'inode_id() is only used for the `location` (read ordering) of the file',
                  'inode_id() - the inode number without the device - is used here for something else than the read-ordering `location`')
    ctx.floor(rule, 'inode_id() users', len(users), 1)


def r14(ctx):
    """One result per inode is sound only where the result is a function of the file alone: the stage that runs the transform program must not share
    it between the hard links when the program is handed the original path ($IN with --no-copy)."""
    rule = 'C01.R14'
    lib = ctx.lib
    core = rehash_core(lib)
    stage, rh, hc = hash_closure_of(lib, 'group_transformed')
    if core is None or stage is None or rh is None:
        ctx.missing(rule, 'group_transformed -> rehash')
        return
    ctx.fn(stage)
    # the key closure of the adjacent grouping in the hashing thread
    kb = None
    for cp in lib.closures_of(core.path):
        cb = lib.body(cp)
        for c in cb.calls(r'Itertools::group_by$|::group_by$|::chunk_by$'):
            l = op_local(c.args[1])
            for kp in lib.closures_of(cp, recursive=False):
                cr = closure_creation(lib, kp)
                if cr and l in forward_locals(cb, cr[2]['p'][0]):
                    kb = lib.body(kp)
    if kb is None:
        ctx.missing(rule, 'group_by key closure in the hashing thread')
        return
    rs = backslice(kb, [0])
    per_path = 'path' in rs.field_names()
    switches = [blk['term'] for blk in kb.blocks if blk['term']['k'] == 'switch']
    flags = {n for t in switches for _, n in backslice(kb, [t['op']]).upvars}
    params = {core.local_name(i): i for i in range(1, core.argc + 1) if core.local_ty(i) == 'bool'}
    flag = sorted(flags & set(params))
    ok, how = False, ''
    if per_path and not switches:
        ok, how = True, 'every path is hashed on its own'
    elif per_path and flag and rh.path == core.path and len(rh.args) >= params[flag[0]]:
        a = rh.args[params[flag[0]] - 1]
        sl = backslice(stage, [a])
        from_transform = sl.has_call(r'^transform::Transform::\w+$') or bool({'copy', 'no_copy'} & sl.field_names())
        ok = from_transform
        how = 'sharing is switched by `%s`, which group_transformed derives from the transform (%s)' % (flag[0], ', '.join(sorted({c.path.rsplit('::', 1)[-1] for c in sl.calls if c.matches(r'^transform::Transform::')} | ({'copy'} & sl.field_names()))))
    ctx.check(ok, rule, stage.path + '|path-dependent-results-not-shared', rh.where(), 'the transform stage shares one result per inode only when the program cannot see the path: ' + how,
              'the transform stage hashes one path per (device, inode) and copies the result to the other hard links, also when the program is handed the path of the original file ($IN with --no-copy) and '
              'its output depends on it: `group --no-copy --transform "basename $IN"` reports d2/b (hard link of d1/a) with the output of d1/a, or misses the duplicates d1/a = d3/a - which one '
              'depends on the walk order, so the result changes from run to run (the cache is bypassed for such transforms for the same reason)')


def r13(ctx):
    """The hash of one path is given to the other paths of its inode group only if they still are that file."""
    rule = 'C01.R13'
    lib = ctx.lib
    task = None
    for cp in lib.closures_of(rehash_core_path(lib)):
        cb = lib.body(cp)
        if cb.calls(r'Sender<.*>::send$|Sender::<T>::send$'):
            task = cb
    if task is None:
        ctx.missing(rule, 'hashing task of rehash')
        return
    hf = [c for c in task.calls() if not c.f.get('res') and c.f.get('method') in ('call', 'call_once', 'call_mut') and any(n == 'hash_fn' for _, n in backslice(task, [c.args[0]]).upvars)]
    if not hf:
        ctx.missing(rule, 'hash_fn invocation in the task', task.where())
        return
    SEL = r'Vec<.*>::retain$|Vec::<T, A>::retain$|Iterator::(filter|partition)$'
    def predicate_body(x, c):
        """the closure or the function handed to retain / filter / partition"""
        a = c.args[-1]
        k = op_const(a)
        if isinstance(k, dict) and k.get('fn'):
            return lib.body(k['fn'])
        l = op_local(a)
        cp = lib.closure_of_type(x.local_ty(l)) if l is not None else None
        return lib.body(cp) if cp else None
    def compares_identity(cb):
        ids = cb.calls(r'^file::FileId::new$|FileMetadata::new$|^std::fs::metadata$')
        reads_id = any('id' in place_fields(pl) for blk in cb.blocks for st in blk['stmts'] for pl in rvalue_places(st['rv'])) or \
            any('id' in backslice(cb, [a]).field_names() for k in cb.calls(r'PartialEq.*>::(eq|ne)$') for a in k.args)
        if not (ids and reads_id):
            # one level down: the predicate applies the test to the members of a group (Iterator::all / any over the files)
            for cp2 in lib.closures_of(cb.path, recursive=False):
                if compares_identity(lib.body(cp2)):
                    return True
        return bool(ids and reads_id)
    rt = [c for c in task.calls(SEL)]
    ok = False
    where = hf[0].where()
    for c in rt:
        cb = predicate_body(task, c)
        if cb is None:
            continue
        # (it sits under `if fg.len() > 1`: a single path shares nothing) - it precedes the hashing, it need not dominate it
        if compares_identity(cb) and hf[0].bb in task.reachable(c.bb) and c.bb not in task.reachable(hf[0].bb):
            ok, where = True, c.where()
    # a path that fails the test still exists, is readable and was selected by the scan: it is hashed as the file it is now (or at least reported), not dropped
    sel_ok = [c for c in rt if predicate_body(task, c) is not None and compares_identity(predicate_body(task, c))]
    kept = any(c.matches(r'::partition$') for c in sel_ok) and len(hf) >= 2
    warned = bool(task.calls(r'::warn$|::err$')) or any(predicate_body(task, c).calls(r'::warn$|::err$') for c in sel_ok)
    if not warned:
        # the task has no log: it hands the paths it leaves out to a shared list (a captured Arc<Mutex<Vec<..>>>), and the function that owns the
        # list reports them when the hashing is over
        handed = set()
        for k in task.calls(r'Vec<.*>::(extend|push|append)$|Vec::<T, A>::(extend|push|append)$|Extend<.*>>::extend$'):
            handed |= {n for _, n in backslice(task, [k.args[0]]).upvars}
        core_ = rehash_core(lib)
        if handed and core_ is not None:
            reported = [k for k in core_.calls(r'::warn$|::err$')]
            owns = any(core_.local_name(i) and any(core_.local_name(i).startswith(h) or h.startswith(core_.local_name(i)) for h in handed) and 'Mutex' in core_.local_ty(i) for i in range(len(core_.locals)))
            warned = bool(reported) and owns
    if sel_ok:
        ctx.check(kept or warned, rule, task.path + '|replaced-path-not-dropped', sel_ok[0].where(), 'the paths that lead to another file now are hashed on their own, or left out with a warning (%s)' % ('hashed' if kept else 'reported by the function that owns the list the task hands them to'),
                  'a path that was re-created since the scan (atomic save: write a new file, rename it over the name) is removed from the work item without a word and never hashed: it exists, is readable, '
                  'was selected by the scan and may be byte-identical to the others - the report lists {a, c} and no message mentions b')
    # ... but not with what is known about the file it WAS: the suffix stage combines the new hash with the old one (the prefix hash), so a replaced path
    # hashed "on its own" with its former prefix hash gets a key no file can share and vanishes; and its group of origin may have been passed by a stage
    # whose groups the result cannot rejoin.  Either it is left out (with the warning above), or its history is recomputed - never inherited
    if sel_ok and len(hf) >= 2:
        part = [c for c in sel_ok if c.matches(r'::partition$')]
        stale = None
        for h in hf[1:]:
            # the tuple argument (&mut file_info, old_hash): does old_hash derive from the file_hash field of an element of the `other` half?
            asl = backslice(task, h.args[1:])
            if 'file_hash' in asl.field_names() and h.bb in task.reachable(part[0].bb if part else 0):
                first = hf[0]
                # the first invocation legitimately uses fg[0].file_hash: tell them apart by reachability order
                if h.bb != first.bb and first.bb not in task.reachable(h.bb):
                    stale = h
        ctx.check(stale is None, rule, task.path + '|replaced-path-has-no-history', (stale.where() if stale else hf[0].where()), 'a replaced path is not hashed with the hash its former file had',
                  'a path that leads to another file now is hashed on its own, but the hash function is handed the hash of the group it came from - the PREFIX hash of the file it used to be: the suffix '
                  'stage combines the two (prefix of the old file || suffix of the new one) into a key that no other file can have, the path ends up alone, the stage\'s filter removes it and nothing is '
                  'logged - t/b, a copy of t/x and t/y for the last 1.7 s of the run, is missing from the report')
    # the groups that skip the hashing altogether (all their paths are one file: the pre-filter of the stages asks for unique_count() > 1) are
    # the purest case of "never looked at again": they are examined too - after the hashing, close to the report - and regrouped when a path has moved on
    core = rehash_core(lib)
    passed_ok, pwhere = False, core.where() if core is not None else '-'
    if core is not None:
        parts = core.calls(r'Iterator::partition$')
        first = [c for c in parts if not compares_identity(predicate_body(core, c) or core)] if parts else []
        for c in parts:
            pb = predicate_body(core, c)
            if pb is not None and pb.path != core.path and compares_identity(pb):
                # what fails the test is hashed after all: it reaches a call of the regrouping machinery
                again = [k for k in core.calls(rehash_rx(lib)) if k.bb in core.reachable(c.bb)]
                if again or (first and c.bb not in core.reachable(first[0].bb)):
                    passed_ok, pwhere = True, c.where()
    ctx.check(passed_ok, rule, (core.path if core else 'group::rehash') + '|passed-groups-rechecked', pwhere,
              'the groups passed on without hashing (all paths one file) are examined too: the paths that lead elsewhere now are regrouped by what they contain',
              'a group whose paths were all one (device, inode) at scan time fails the pre-filter of every stage (unique_count() > 1) and is handed on untouched - nobody opens or stats any of its paths '
              'again: `group -H` reports t/a and t/b as identical (hash 0) although t/b was replaced by another file right after the scan, and `link` / `remove` then act on that claim')
    ctx.check(ok, rule, task.path + '|identity-rechecked', where, 'before one path is hashed for the others, the members of the inode group whose path now leads to another file are left out',
              'the paths that had one (device, inode) when they were scanned share one hash for ever: only the first path is opened, the others are never looked at again. When a hard-linked name is '
              'replaced by "write a new file, rename it over the name" (editors, rsync, package managers) between the scan and the hashing - or between two stages - the replaced name is still '
              'reported with the hash and length of its former siblings although its content differs, or its new content is hashed and given to the untouched siblings')


def r15(ctx, rule='C01.R15'):
    lib = ctx.lib
    core = rehash_core(lib)
    if core is None:
        ctx.missing(rule, 'group::rehash')
        return
    preds = []
    for c in core.calls(r'Iterator::partition$'):
        k = op_const(c.args[-1])
        pb = lib.body(k['fn']) if isinstance(k, dict) and k.get('fn') else None
        if pb is None:
            l = op_local(c.args[-1])
            cp = lib.closure_of_type(core.local_ty(l)) if l is not None else None
            pb = lib.body(cp) if cp else None
        if pb is not None and pb.path != core.path:
            bodies = [pb] + [lib.body(cp) for cp in lib.closures_of(pb.path)]
            if any(x.calls(r'^file::FileId::new$|FileMetadata::new$|^std::fs::metadata$') for x in bodies):
                preds.append((c, bodies))
    if not preds:
        ctx.missing(rule, 'the examination test of the passed groups in rehash', core.where())
        return
    c, bodies = preds[0]
    opens = [k for x in bodies for k in x.calls(r'^std::fs::File::open$|hasher::open_noatime$|OpenOptions::open$')]
    lens = False
    for x in bodies:
        for k in x.calls(r'PartialEq.*>::(eq|ne)$|PartialEq::(eq|ne)$'):
            names = set()
            for a in k.args:
                names |= set(backslice(x, [a]).field_names())
            if 'len' in names and any(backslice(x, [a]).has_call(r'FileMetadata::len$|Metadata::len$') for a in k.args):
                lens = True
    ctx.check(bool(opens) and lens, rule, core.path + '|passed-groups-readable', (opens[0].where() if opens else c.where()),
              'the test of the passed groups opens every path and compares its length with the scanned one: an unreadable or changed file is examined (hashed, with its warnings)',
              'a group that passes all stages unhashed (its paths are one file: hard links with -H or --isolate) is never opened: d/a = d/b with mode 000 are reported as duplicates without a '
              'warning - and are left out with "Permission denied" as soon as an unrelated file of the same size exists; a file that grew after the scan is reported with its old length, while a '
              'hashed file in that situation is left out ("file length changed since the file was scanned")')

"""C14 - a report is internally consistent in every output format."""
import re
from . import register
from ..analysis import (backslice, aggregates, agg_field, closure_creation, forward_locals, direct_def, base_named_local)
from ..facts import op_local, const_val

DOC = {
    'explanation': 'Decided: every statistic in the header is computed from the very slice of groups that is handed to the writer, with the filter of the same configuration (R1); each '
                   'of the four writers prints the group count from files.len() and lists exactly the files of the group, without skipping, limiting or filtering (R2); replica-count '
                   'shortcuts in the statistics are guarded so that the header agrees with the replication filter (R3); the body passes the final ordering (R4 = C13.R1); group '
                   'lengths are consistent for all paths of an inode (R5 = C01.R6).',
    'rules': {
        'C14.M': __import__('fcverif.rules.common', fromlist=['MANDATORY_TEXT']).MANDATORY_TEXT,
        'C14.R1': 'write_report: group_count/total/redundant/missing all derive from the `groups` parameter and config.group_filter(); the same `groups` feed ReportWriter::write',
        'C14.R2': 'write_as_text/fdupes/csv/json: count printed = g.files.len(); the listed paths iterate g.files completely (no skip/take/filter/step_by/rev)',
        'C14.R3': 'replica-count shortcuts are guarded by root_paths.is_empty() and !group_by_id (re-evaluates C06.R8)',
        'C14.R4': 'the groups passed the final ordering and the per-group path sort (re-evaluates C13.R1)',
        'C14.R6': 'ReportWriter::write: whatever the format, on every path where all writes succeeded the output stream is flushed and the result of the flush is returned (the writer is wrapped in a BufWriter, whose drop discards the error of the final write): sibling agreement of the four format writers',
        'C14.R5': 'a length changed by the hash function reaches every path of the inode (re-evaluates C01.R6)',
    },
    'not_decided': 'numeric equality of the statistics for concrete trees; CSV/JSON escaping by the external crates',
    'assumptions': [],
}

WR = 'report::ReportWriter::<W>::'


@register('C14', DOC)
def run(ctx):
    r1(ctx)
    r2(ctx)
    r345(ctx)
    r6(ctx)
    from .common import run_mandatory
    run_mandatory(ctx, 'C14')


def r1(ctx):
    rule = 'C14.R1'
    lib = ctx.lib
    b = lib.body('group::write_report_with_timestamp') or lib.body('group::write_report')
    if b is None:
        ctx.missing(rule, 'fn write_report')
        return
    ctx.fn(b)
    P = b.path
    gp = [i for i in range(1, b.argc + 1) if b.local_name(i) == 'groups']
    cp_ = [i for i in range(1, b.argc + 1) if b.local_name(i) == 'config']
    if not gp or not cp_:
        ctx.missing(rule, 'parameters groups/config of write_report', b.where())
        return
    gp, cfgp = gp[0], cp_[0]
    st = aggregates(b, 'report::FileStats')
    if not ctx.floor(rule, 'FileStats construction', len(st), 1, b.where()):
        return
    s = st[0][1]

    def deep_params(op):
        """parameters of write_report an operand derives from, looking into the fold closures"""
        sl = backslice(b, [op])
        ps = set(sl.params)
        calls = set(c.path for c in sl.calls)
        for cpath in lib.closures_of(b.path, recursive=False):
            cr = closure_creation(lib, cpath)
            if cr and cr[2]['p'][0] in sl.locals:
                cb = lib.body(cpath)
                for c in cb.calls():
                    calls.add(c.path)
                for idx, name in cb.upvars.items():
                    if name == 'config':
                        ps.add(cfgp)
                    if name == 'groups':
                        ps.add(gp)
        return ps, calls
    want_fn = {'group_count': r'::len$', 'total_file_count': r'group::file_count$', 'total_file_size': r'group::total_size$',
               'redundant_file_count': r'::redundant_count$', 'redundant_file_size': r'::redundant_count$',
               'missing_file_count': r'::missing_count$', 'missing_file_size': r'::missing_count$'}
    for f, rx in want_fn.items():
        op = agg_field(s, f)
        if op is None:
            ctx.violation(rule, P + '|' + f, b.where(s['line']), 'statistic %s is not set' % f)
            continue
        ps, calls = deep_params(op)
        uses_groups = gp in ps
        right_fn = any(re.search(rx, c) for c in calls)
        needs_filter = f.startswith(('redundant', 'missing'))
        filt = (not needs_filter) or (any(c.endswith('GroupConfig::group_filter') for c in calls) and cfgp in ps)
        ctx.check(uses_groups and right_fn and filt, rule, '%s|%s' % (P, f), b.where(s['line']), '%s computed from `groups`%s' % (f, ' with config.group_filter()' if needs_filter else ''),
                  '%s: from groups=%s, function ok=%s, filter ok=%s' % (f, uses_groups, right_fn, filt))
    # one filter for all groups: building it resolves the isolate roots in the file system (canonical_root: is_file + realpath per root), so a filter
    # built inside the per-group closures costs groups x roots x depth system calls and judges the groups by roots resolved at different moments
    per_group = [c for cp in lib.closures_of(b.path) for c in lib.body(cp).calls(r'GroupConfig::group_filter$')]
    once = b.calls(r'GroupConfig::group_filter$')
    ctx.advise(bool(once) and not per_group, rule, P + '|one-filter-for-all-groups', (per_group[0].where() if per_group else (once[0].where() if once else b.where())),
              'the replication filter of the statistics is built once, outside the per-group closures',
              'config.group_filter() is called inside the closures that fold over the groups: since the roots of --isolate are canonicalised by group_filter() (D-series repair of the root spelling), the '
              'header statistics cost 2 x groups x roots x path-depth readlink() calls (120076 instead of 56 for 3000 groups under two roots 8 levels deep; minutes for a million groups), and every '
              'group is judged by roots resolved at another moment than the ones the groups were filtered with')
    # the byte totals are sums and products of file lengths: hard links and sparse files make sums beyond 2^64 reachable without reading a byte
    # (`truncate -s 9223372036854775807 a; ln a b; ln a c; group --match-links`), so the arithmetic of FileLen must not wrap (release) or panic (debug)
    ops = [p_ for p_ in lib.bodies if re.search(r'^<file::FileLen as std::ops::(Add|AddAssign|Mul<u64>)>::(add|add_assign|mul)$', p_)]
    wraps = []
    for p_ in ops:
        ob = lib.body(p_)
        plain = [st for blk in ob.blocks for st in blk['stmts'] if st['rv']['k'] in ('bin', 'checked_bin') and str(st['rv'].get('op', '')).startswith(('Add', 'Mul'))]
        safe = ob.calls(r'::(saturating|checked|wrapping|overflowing)_(add|mul)$')
        if plain and not safe:
            wraps.append(ob)
    if ctx.floor(rule, 'arithmetic operators of FileLen', len(ops), 3):
        ctx.check(not wraps, rule, 'file::FileLen|totals-do-not-wrap', (wraps[0].where() if wraps else lib.body(ops[0]).where()), 'FileLen + and * saturate (or check) instead of overflowing',
                  'the byte totals are computed with the plain `+` and `*` of u64 (%s): three hard links to a sparse file of 2^63-1 bytes make the debug build panic ("attempt to add with overflow", no '
                  'report at all) and the release build print a wrapped Total that is smaller than Redundant' % ', '.join(x.path for x in wraps))
    # ... and so do the COUNTS next to them: missing_count() is as large as the --rf-under value the user gave (any usize), so two groups are enough
    cnt_bodies = [b] + [lib.body(cp) for cp in lib.closures_of(b.path)] + [x for x in [lib.body('group::stage_stats')] if x is not None]
    plain_cnt = []
    for x in cnt_bodies:
        for blk in x.blocks:
            for st in blk['stmts']:
                if st['rv']['k'] in ('bin', 'checked_bin') and str(st['rv'].get('op', '')).startswith('Add'):
                    sl_ = backslice(x, [st['rv']['a']]) , backslice(x, [st['rv']['b']])
                    if any(k.matches(r'::(redundant_count|missing_count|reported_count)$') for y in sl_ for k in y.calls):
                        plain_cnt.append((x, st))
    ctx.check(not plain_cnt, rule, P + '|counts-do-not-wrap', (plain_cnt[0][0].where(plain_cnt[0][1]['line']) if plain_cnt else b.where()), 'the file counts of the statistics are added with saturating_add',
              'the numbers of redundant / missing files are added with the plain `+` of usize (%d place(s)): `group --rf-under 10000000000000000000 d` with two groups panics in the debug build '
              '("attempt to add with overflow", no report) and prints a wrapped count in a build without overflow checks, while the byte total next to it saturates' % len(plain_cnt))
    # the writer receives the same groups and the header built here
    wc = b.calls(r'ReportWriter::<W>::write$|ReportWriter<.*>::write$')
    if ctx.floor(rule, 'ReportWriter::write calls', len(wc), 2, b.where()):
        hdr = aggregates(b, 'report::ReportHeader')
        for c in wc:
            gsl = backslice(b, [c.args[3]])
            lim = [x.path for x in gsl.calls if re.search(r'::(skip|take|filter|step_by|rev|skip_while|take_while|filter_map)$', x.path)]
            hsl = backslice(b, [c.args[2]])
            ok = gp in gsl.params and not lim and (not hdr or hdr[0][1]['p'][0] in hsl.locals)
            fsl = backslice(b, [c.args[1]])
            ok = ok and 'format' in fsl.field_names()
            ctx.check(ok, rule, '%s|writer-input@%d' % (P, c.line), c.where(), 'the writer gets all of `groups`, this header and config.format', 'the writer input differs from the groups the statistics were computed from (%s)' % lim)
    hdr = aggregates(b, 'report::ReportHeader')
    if hdr:
        bd = backslice(b, [agg_field(hdr[0][1], 'base_dir')])
        ctx.check('base_dir' in bd.field_names() and cfgp in bd.params, rule, P + '|base_dir', b.where(hdr[0][1]['line']), 'header.base_dir = config.base_dir', 'header base dir is not the configuration\'s')


def r2(ctx):
    rule = 'C14.R2'
    lib = ctx.lib
    n = 0
    for fmt in ('write_as_text', 'write_as_fdupes', 'write_as_csv', 'write_as_json'):
        b = ctx.need_body(rule, WR + fmt)
        if b is None:
            continue
        bodies = [b] + [lib.body(p) for p in lib.closures_of(b.path)]
        lim = []
        for x in bodies:
            for c in x.calls(r'::(skip|take|filter|step_by|rev|skip_while|take_while|filter_map|dedup|unique|sorted|sort)(_by|_by_key)?$'):
                if not c.matches(r'Option|Result'):
                    lim.append(c)
        ctx.check(not lim, rule, '%s|no-limiting' % b.path, b.where(), 'groups and files are iterated completely and in order', 'the writer alters the listing with %s' % [c.path.rsplit('::', 1)[-1] for c in lim])
        n += 1
        # files iteration: slice::iter over field `files`
        its = []
        for x in bodies:
            for c in x.calls(r'slice::<impl \[T\]>::iter$|IntoIterator>::into_iter$|Vec<.*>::iter$'):
                if 'files' in backslice(x, [c.args[0]]).field_names():
                    its.append(c)
        ctx.check(bool(its), rule, '%s|lists-files' % b.path, b.where(), 'iterates g.files', 'does not iterate g.files')
        # every group of the iterator is emitted: in a writer with an explicit loop over the groups no path of the loop body gets back to
        # the next group without having started the listing of the files of this one (an error return is the only other exit)
        outer = [c for c in b.calls(r'Iterator>::next$|Iterator::next$') if any(b.local_name(p_) == 'groups' for p_ in backslice(b, [c.args[0]]).params)]
        mine = [c for c in b.calls(r'slice::<impl \[T\]>::iter$|IntoIterator>::into_iter$|Vec<.*>::iter$') if 'files' in backslice(b, [c.args[0]]).field_names()]
        if outer and mine:
            N = outer[0]
            some_t = None
            for (bbx, idx, what) in b.operand_uses(N.dest[0]):
                if what[0] == 'stmt' and what[1]['rv']['k'] == 'disc':
                    for (b2, i2, w2) in b.operand_uses(what[1]['p'][0]):
                        if w2[0] == 'switch':
                            some_t = dict(zip(w2[1]['vals'], w2[1]['tgts'])).get(1)
            skipped = some_t is not None and N.bb in b.reachable(some_t, avoid=[c.bb for c in mine])
            ctx.check(some_t is not None and not skipped, rule, '%s|every-group-emitted' % b.path, N.where(), 'every group taken from the iterator is listed (no path of the loop body skips the listing)',
                      'a group can be skipped by this writer (a path of the loop body returns to the next group without listing its files): the %s output then has fewer groups than the other formats '
                      'and than the header statistics say - e.g. single-path groups of a --unique / --rf-under run' % fmt.replace('write_as_', ''))
        if fmt in ('write_as_text', 'write_as_csv'):
            lens = []
            for x in bodies:
                for c in x.calls(r'Vec<.*>::len$|Vec::<T, A>::len$'):
                    dd = direct_def(x, c.args[0])
                    if dd[0] == 'place' and [e[2] for e in dd[1][1] if isinstance(e, list) and e[0] == 'F'][-1:] == ['files']:
                        lens.append(c)
            ctx.check(bool(lens), rule, '%s|count-from-files' % b.path, b.where(), 'the printed count is g.files.len()', 'the printed count is not g.files.len()')
        # length / hash come from the same group
        fields = set()
        for x in bodies:
            for blk in x.blocks:
                for s in blk['stmts']:
                    from ..facts import rvalue_places
                    for p in rvalue_places(s['rv']):
                        for e in p[1]:
                            if isinstance(e, list) and e[0] == 'F' and len(e) > 3 and e[3].endswith('FileGroup'):
                                fields.add(e[2])
        need = {'files'} if fmt == 'write_as_fdupes' else {'files', 'file_len', 'file_hash'}
        ctx.check(need <= fields, rule, '%s|group-fields' % b.path, b.where(), 'prints %s of each group' % sorted(need), 'reads only %s' % sorted(fields))
    w = ctx.need_body(rule, WR + 'write')
    if w is not None:
        tg = {c.path.rsplit('::', 1)[-1] for c in w.calls(r'ReportWriter::<W>::write_as_')}
        ctx.check(tg == {'write_as_text', 'write_as_fdupes', 'write_as_csv', 'write_as_json'}, rule, w.path + '|dispatch', w.where(), 'all four formats dispatch to their writer with the same header and groups', 'dispatch covers %s' % sorted(tg))
        for c in w.calls(r'ReportWriter::<W>::write_as_'):
            ok = backslice(w, [c.args[1]]).params == {3} and backslice(w, [c.args[2]]).params == {4}
            ctx.check(ok, rule, '%s|args-%s' % (w.path, c.path.rsplit('::', 1)[-1]), c.where(), 'same header and groups', 'different header/groups are passed to this format')


def r345(ctx):
    from . import c06, c13, c01
    before = len(ctx.obligations)
    c06.r8(ctx, 'C14.R3')
    ctx.rules_run.add('C14.R3')
    mid = len(ctx.obligations)
    c13.r1(ctx)
    for o in ctx.obligations[mid:]:
        o['key'] = o['key'].replace(o['rule'] + '|', 'C14.R4|', 1)
        o['detail'] = '[%s] %s' % (o['rule'], o['detail'])
        o['rule'] = 'C14.R4'
    ctx.rules_run.add('C14.R4')
    c01.r6(ctx, 'C14.R5')
    ctx.rules_run.add('C14.R5')


def r6(ctx):
    rule = 'C14.R6'
    from .common import flushed_on_success
    lib = ctx.lib
    b = ctx.need_body(rule, 'report::ReportWriter::<W>::write')
    if b is None:
        return
    fmts = b.calls(r'report::ReportWriter::<W>::write_as_\w+$')
    if not ctx.floor(rule, 'format writers dispatched by ReportWriter::write', len(fmts), 4, b.where()):
        return
    ok, w = flushed_on_success(b)
    if ok:
        ctx.ok(rule, b.path + '|flush', b.where(), 'every format: %s' % w)
    else:
        per = []
        for c in fmts:
            cb = lib.body(c.path)
            o, ww = flushed_on_success(cb) if cb is not None else (False, 'no body')
            per.append((c, o, ww))
        for c, o, ww in per:
            ctx.check(o, rule, '%s|flush|%s' % (b.path, c.path.rsplit('::', 1)[-1]), c.where(), '%s flushes and returns the result' % c.path.rsplit('::', 1)[-1],
                      '%s: %s; the report goes through a BufWriter (group::write_report), so an error of the last buffered write (disk full, quota, EIO) is discarded when the BufWriter is dropped: the run ends successfully with a truncated report - the sibling writers %s do flush' % (
                          c.path.rsplit('::', 1)[-1], ww, [x.path.rsplit('::', 1)[-1] for x, oo, _ in per if oo]))
    from .common import buffered_drop_discipline
    bodies = [x for x in lib.bodies.values() if x.file.endswith(('group.rs', 'report.rs')) and not re.search(r'(^|::)tests?(::|$)', x.path)]
    n = buffered_drop_discipline(ctx, rule, bodies)
    ctx.floor(rule, 'buffered report streams dropped in group.rs/report.rs', n, 2, b.where())
    # the stream handed to ReportWriter is indeed buffered
    wr = lib.body('group::write_report_with_timestamp') or lib.body('group::write_report')
    if wr is not None:
        n = len(wr.calls(r'BufWriter(::)?<.*>::new$'))
        ctx.note(rule, wr.where(), 'write_report wraps %d output stream(s) in BufWriter' % n)

"""C10 - reports round-trip losslessly from `group` to the dedupe commands."""
import re
from . import register
from ..analysis import (backslice, aggregates, agg_field, switch_targets_bool, count_nots, closure_creation, forward_locals,
                        direct_field, direct_def, switch_on_result_of, return_variants_from, classify_result, slice_const_values)
from ..facts import op_local, op_place, op_const, const_val, const_int

DOC = {
    'explanation': 'Round-trip equality over all strings is not decidable here. Decided: per report field the reader applies the inverse of the writer\'s codec (R1); the payload handed '
                   'to a decoder is cut out of the line only by the inverse of the writer\'s framing - never by a Unicode-whitespace trim, because the encoder leaves spaces unescaped (R2); '
                   'a final path line without its terminator is rejected (R3); the group iterator stops at the first error and the error is surfaced to the caller (R4). '
                   'The command line codec itself is C17.',
    'rules': {
        'C10.M': __import__('fcverif.rules.common', fromlist=['MANDATORY_TEXT']).MANDATORY_TEXT,
        'C10.R1': 'codec pairing: path/base dir to_escaped_string <-> from_escaped_string; command arg::join <-> arg::split; timestamp format(TIMESTAMP_FMT) <-> parse_from_str(TIMESTAMP_FMT); hash Display <-> FromStr; serde impls of Path/Arg use the same pair',
        'C10.R2': 'framing: the decoder input for paths and the base dir is not derived from str::trim / trim_start / trim_end (Unicode white space)',
        'C10.R3': 'read_paths accepts a path line only if it ends with the line terminator',
        'C10.R5': 'the command line codec of the header (arg::join / arg::split) is consistent (re-evaluates C17.R1, C17.R2, C17.R3, C17.R4, C17.R5)',
        'C10.R4': 'errors stop the group iterator and are returned: TextReportIterator::next propagates read_paths errors; run_dedupe records the error, stops with take_while and returns it',
    },
    'not_decided': 'correctness of the stfu8, serde_json and chrono crates; the equality itself for all strings (a reference model would be needed)',
    'assumptions': ['to_escaped_string escapes control characters including CR and LF, and leaves U+0020 and other Unicode spaces as they are'],
}

TRIM = r'str::<impl str>::(trim|trim_start|trim_end|trim_left|trim_right)$|core::str::<impl str>::(trim|trim_start|trim_end)$'
TI = 'report::TextReportIterator::<R>::'
TR = 'report::TextReportReader::<R>::'
RH = '<report::TextReportReader<R> as report::ReportReader>::read_header'


def deep_slice_calls(lib, body, operands, depth=2):
    """calls in the slice, descending into local callees' return slices (for helper functions like read_extract)"""
    out = []
    sl = backslice(body, operands)
    for c in sl.calls:
        out.append((body, c))
        if depth > 0 and c.f.get('local') and lib.body(c.path) is not None and not lib.body(c.path).file.endswith(('path.rs', 'arg.rs')):
            cb = lib.body(c.path)
            out += deep_slice_calls(lib, cb, [0], depth - 1)
            for cp in lib.closures_of(cb.path):
                out += deep_slice_calls(lib, lib.body(cp), [0], depth - 1)
    # closures handed to adaptors (map, and_then, ...) inside the slice contribute their results
    for l in sl.locals:
        cp = lib.closure_of_type(body.local_ty(l)) if '{closure@' in body.local_ty(l) else None
        if cp and lib.body(cp) is not None and depth >= 0:
            out += deep_slice_calls(lib, lib.body(cp), [0], depth - 1) if depth > 0 else [(lib.body(cp), c) for c in backslice(lib.body(cp), [0]).calls]
    return out


@register('C10', DOC)
def run(ctx):
    lib = ctx.lib
    wt = ctx.need_body('C10.R1', 'report::ReportWriter::<W>::write_as_text')
    rh = ctx.need_body('C10.R1', RH)
    rp = ctx.need_body('C10.R1', TI + 'read_paths')
    r1(ctx, lib, wt, rh, rp)
    r2(ctx, lib, rh, rp)
    r3(ctx, lib, rp)
    r4(ctx, lib)
    r5(ctx, lib)
    from .common import run_mandatory
    run_mandatory(ctx, 'C10')


def writer_fields(lib, wt):
    """header field -> set of encoder calls feeding the formatted line, identified by the template snippet"""
    out = {}
    for c in wt.calls(r'ReportWriter::<W>::write_header_line$'):
        sl = backslice(wt, [c.args[1]])
        snip = ''
        for x in sl.calls:
            sn = x.t.get('snip')
            if sn and 'format!' in sn:
                snip = sn
        m = re.search(r'format!\(\s*"([A-Za-z ]+?)\s*[:{]', snip)
        name = (m.group(1).strip() if m else snip[:20]).lower()
        out[name] = (c, sl)
    return out


def r1(ctx, lib, wt, rh, rp):
    rule = 'C10.R1'
    if wt is None or rh is None or rp is None:
        return
    wf = writer_fields(lib, wt)
    ctx.floor(rule, 'header lines written by write_as_text', len(wf), 7, wt.where())
    # --- base dir
    bd = [v for k, v in wf.items() if k.startswith('base dir')]
    hdr = aggregates(rh, 'report::ReportHeader')
    if not hdr:
        ctx.missing(rule, 'ReportHeader construction in read_header', rh.where())
        return
    hs = hdr[0][1]
    if bd:
        c, sl = bd[0]
        enc = sl.has_call(r'path::Path::to_escaped_string$')
        rcalls = [x for _, x in deep_slice_calls(lib, rh, [agg_field(hs, 'base_dir')], 0)]
        dec = any(x.matches(r'path::Path::from_escaped_string$') for x in rcalls)
        raw = any(x.matches(r'Path as std::convert::From<.*>>::from$|path::Path::from$') for x in rcalls)
        ctx.check(enc == dec, rule, RH + '|base_dir', rh.where(hs['line']),
                  'base dir: written %s, read %s' % ('escaped' if enc else 'raw', 'with from_escaped_string' if dec else 'raw'),
                  'base dir is written with to_escaped_string but read back without decoding (Path::from): a backslash or control character in the working directory comes back doubled/escaped, '
                  'and the isolate roots rebuilt from it no longer match')
    else:
        ctx.missing(rule, 'Base dir header line in write_as_text', wt.where())
    # --- command
    cm = [v for k, v in wf.items() if k.startswith('command')]
    if cm:
        c, sl = cm[0]
        enc = sl.has_call(r'^arg::join$')
        dec = any(x.matches(r'^arg::split$') for _, x in deep_slice_calls(lib, rh, [agg_field(hs, 'command')], 0))
        ctx.check(enc and dec, rule, RH + '|command', rh.where(hs['line']), 'command: arg::join <-> arg::split', 'command line codec mismatch (join=%s, split=%s)' % (enc, dec))
        jsl = backslice(wt, [x.args[0] for x in sl.calls if x.matches(r'^arg::join$')][:1])
        ctx.check('command' in jsl.field_names(), rule, wt.path + '|command-source', c.where(), 'the joined arguments are header.command', 'the command line written is not header.command')
    # --- timestamp
    ts = [v for k, v in wf.items() if k.startswith('timestamp')]
    if ts:
        c, sl = ts[0]
        fm = [x for x in sl.calls if x.matches(r'DateTime.*::format$')]
        wfmt = backslice(wt, [fm[0].args[1]]).items if fm else set()
        pt = lib.body(TR + 'parse_timestamp')
        rfmt = set()
        if pt is not None:
            ps = pt.calls(r'DateTime.*::parse_from_str$')
            if ps:
                rfmt = backslice(pt, [ps[0].args[1]]).items
        ctx.check(bool(wfmt) and wfmt == rfmt, rule, RH + '|timestamp', (fm[0].where() if fm else wt.where()), 'timestamp: format(%s) <-> parse_from_str(%s)' % (sorted(wfmt), sorted(rfmt)), 'timestamp written with %s, parsed with %s' % (sorted(wfmt), sorted(rfmt)))
        used = any(x.matches(r'parse_timestamp$') for _, x in deep_slice_calls(lib, rh, [agg_field(hs, 'timestamp')], 0))
        ctx.check(used, rule, RH + '|timestamp-parsed', rh.where(hs['line']), 'header.timestamp = parse_timestamp(..)', 'the header timestamp is not parsed from the Timestamp line')
        # the offset: `%z` and RFC 3339 (JSON) write hours and minutes only, so the offset of the value that is written must have no seconds
        wr = lib.body('group::write_report_with_timestamp')
        hdr = [st for blk in (wr.blocks if wr is not None else []) if not blk['cleanup'] for st in blk['stmts']
               if st['rv']['k'] == 'agg' and st['rv'].get('adt', '').endswith('report::ReportHeader')]
        if wr is not None and hdr:
            tsl = backslice(wr, [agg_field(hdr[0], 'timestamp')])
            whole = False
            for blk in wr.blocks:
                for st in blk['stmts']:
                    rv = st['rv']
                    if rv['k'] == 'bin' and rv['op'] in ('Rem', 'Div') and const_int(rv['b']) == 60 and st['p'][0] in tsl.locals:
                        whole = True
            utc = tsl.has_call(r'chrono::Utc|with_timezone::<Utc>|naive_utc$') and not tsl.has_call(r'DateTime::<Tz>::offset$|DateTime<.*>::offset$')
            ctx.check(whole or utc, rule, 'group::write_report_with_timestamp|offset-in-whole-minutes', wr.where(hdr[0]['line']),
                      'the offset of the header time stamp is cut to whole minutes (or UTC) before it is written',
                      'the header time stamp keeps the local UTC offset as it is: `%z` (text) and RFC 3339 (JSON) print an offset in hours and minutes, chrono rounds the seconds away, and the instant '
                      'read back differs by up to 30 s from the start of the scan (TZ="XXX-0:00:29"): a file rewritten 3 s after `group` is no longer seen as modified by `remove`')
        else:
            ctx.missing(rule, 'ReportHeader construction in write_report_with_timestamp')
        tf = lib.body('TIMESTAMP_FMT')
        if tf is not None:
            vals = [const_val(s['rv']['op']) for blk in tf.blocks for s in blk['stmts'] if s['rv']['k'] == 'use' and const_val(s['rv']['op'])]
            ctx.check(any('%3f' in (v or '') and '%z' in (v or '') for v in vals), rule, 'TIMESTAMP_FMT|millis-and-offset', tf.where(), 'TIMESTAMP_FMT keeps milliseconds and the UTC offset', 'TIMESTAMP_FMT loses milliseconds or the offset: %s' % vals)
    # --- statistics: each number is written raw (.0) and parsed by parse_u64
    for k in ('total', 'redundant', 'missing'):
        if not any(n.startswith(k) for n in wf):
            ctx.violation(rule, wt.path + '|stats-' + k, wt.where(), 'statistics line %s is not written' % k)
    st = aggregates(rh, 'report::FileStats')
    ctx.check(bool(st) and len(st[0][1]['rv']['ops']) == 7, rule, RH + '|stats', rh.where(), 'all 7 statistics are read back', 'not all statistics are read back')
    # --- group header and paths
    gh = lib.body(TI + 'read_group_header')
    if gh is not None:
        g = aggregates(gh, 'report::GroupHeader')
        ok = bool(g)
        if ok:
            s = g[0][1]
            ok = backslice(gh, [agg_field(s, 'file_hash')]).has_call(r'FileHash as std::str::FromStr>::from_str$') and backslice(gh, [agg_field(s, 'file_len')]).has_call(r'str::<impl str>::parse$|::parse$')
        ctx.check(ok, rule, gh.path, gh.where(), 'group header: hash via FromStr, length and count via parse', 'group header fields are not decoded with FromStr/parse')
    psh = [c for c in rp.calls(r'Vec<.*>::push$|Vec::<T, A>::push$')]
    if psh:
        sl = backslice(rp, [psh[0].args[1]])
        ctx.check(sl.has_call(r'path::Path::from_escaped_string$'), rule, rp.path + '|path', psh[0].where(), 'paths: to_escaped_string <-> from_escaped_string', 'paths are not decoded with from_escaped_string')
    wp = [c for b in [wt] for c in b.calls(r'path::Path::to_escaped_string$')]
    ctx.floor(rule, 'to_escaped_string in write_as_text (base dir + path)', len(wp), 2, wt.where())
    # JSON reader
    for p, b in lib.bodies.items():
        if p.startswith('<report::JsonReportReader as report::ReportReader>::read_groups'):
            if b.calls(r'path::Path::from_escaped_string$'):
                ctx.ok(rule, p + '|json-path', b.where(), 'JSON paths decoded with from_escaped_string')
    # serde impls
    for ty, vis in (('path::Path', 'path::PathVisitor'), ('arg::Arg', 'arg::ArgVisitor')):
        ser = lib.body('<%s as report::_::_serde::Serialize>::serialize' % ty)
        de = lib.body("<%s as report::_::_serde::de::Visitor<'_>>::visit_str" % vis)
        if ser is None or de is None:
            ctx.missing(rule, 'serde impls of ' + ty)
            continue
        ctx.fn(ser, de)
        e = ser.calls(r'::to_escaped_string$')
        d = [c for bb_ in [de] + [lib.body(x) for x in lib.closures_of(de.path)] for c in bb_.calls(r'::from_escaped_string$')]
        ctx.check(bool(e) and bool(d), rule, ty + '|serde', ser.where(), 'serde: to_escaped_string <-> from_escaped_string', 'serde impls of %s do not use the escaped-string pair' % ty)
    fh_s = lib.body('<file::FileHash as report::_::_serde::Serialize>::serialize')
    fh_d = lib.body("<file::FileHash as report::_::_serde::Deserialize<'de>>::deserialize")
    if fh_s is not None and fh_d is not None:
        ctx.ok(rule, 'file::FileHash|serde', fh_s.where(), 'FileHash has hand-written serde impls (hex)')
    # to_escaped_string / from_escaped_string are an stfu8 pair
    te = lib.body('path::Path::to_escaped_string')
    fe = lib.body('path::Path::from_escaped_string')
    ts8 = lib.body('arg::to_stfu8')
    fs8 = lib.body('arg::from_stfu8')
    if te is not None and fe is not None and ts8 is not None and fs8 is not None:
        ok = bool(te.calls(r'arg::to_stfu8$')) and bool(fe.calls(r'arg::from_stfu8$')) and bool(ts8.calls(r'^stfu8::encode_u8$')) and bool(fs8.calls(r'^stfu8::decode_u8$'))
        ctx.check(ok, rule, 'path::Path|stfu8-pair', te.where(), 'escaped string = stfu8::encode_u8 / decode_u8 over the raw bytes', 'to/from_escaped_string are not an stfu8 encode/decode pair')
        # ... on every path: no result of these four functions is produced without passing the codec call
        for body_, rx, what in ((te, r'arg::to_stfu8$', 'encoder'), (fe, r'arg::from_stfu8$', 'decoder'), (ts8, r'^stfu8::encode_u8$', 'encoder'), (fs8, r'^stfu8::decode_u8$', 'decoder')):
            via = {c.bb for c in body_.calls(rx)}
            if not via:
                continue
            early = body_.reachable(0, avoid=via) | {0}
            bypass = None
            for bi in sorted(early - via):
                blk = body_.blocks[bi]
                if blk['cleanup']:
                    continue
                for st in blk['stmts']:
                    if st['p'][0] == 0 and not st['p'][1] and not (st['rv']['k'] == 'agg' and st['rv'].get('variant') == 'Err'):
                        bypass = body_.where(st['line'])
                t = blk['term']
                if t['k'] == 'call' and t.get('dest') and t['dest'][0] == 0 and not re.search(r'FromResidual', t['f'].get('path') or ''):
                    bypass = body_.where(t['line'])
            ctx.check(bypass is None, rule, body_.path + '|always-through-codec', bypass or body_.where(), 'every result of %s passes the stfu8 %s' % (body_.path.rsplit('::', 1)[-1], what),
                      'a result of %s is produced on a path that does not pass the stfu8 %s (a "fast path" for plain strings): the escape character itself - a backslash in a printable ASCII name - is then '
                      'written raw but decoded as an escape (`f\\x41` comes back as `fA`, `back\\slash` is rejected), or the reverse' % (body_.path.rsplit('::', 1)[-1], what))
    else:
        ctx.missing(rule, 'to_escaped_string / from_escaped_string / to_stfu8 / from_stfu8')


ALLOWED_TERMINATOR = {"'\\n'", "'\\r'", '"\\n"', '"\\r\\n"', '"\\r"'}


def broad_strippers(lib, calls):
    """pattern-based trims whose pattern is wider than the line terminator: returns [(body, call, why)]"""
    out = []
    for b, c in calls:
        if not c.matches(r'str::<impl str>::(trim_end_matches|trim_start_matches|trim_matches|strip_suffix|strip_prefix|trim_right_matches|trim_left_matches)$'):
            continue
        last = c.path.rsplit('::', 1)[-1]
        if last in ('strip_prefix', 'trim_start_matches', 'trim_left_matches'):
            continue          # the indentation / the fixed "# Base dir: " prefix: checked by the regex / starts_with
        sl = backslice(b, [c.args[1]])
        fns = [k.get('fn') for k in sl.consts if 'fn' in k]
        clos = [l for l in sl.locals if '{closure@' in b.local_ty(l)]
        from ..analysis import slice_const_values
        vals = [(v or '').replace('const ', '', 1) for v in slice_const_values(lib, sl)]
        chars = [v for v in vals if v.startswith(("'", '"'))]
        if fns or clos:
            out.append((b, c, 'pattern is the predicate %s' % (fns or 'closure')))
        elif not chars or any(v not in ALLOWED_TERMINATOR for v in chars):
            out.append((b, c, 'pattern %s is wider than the line terminator' % chars))
    return out


def r2(ctx, lib, rh, rp):
    rule = 'C10.R2'
    if rp is not None:
        psh = [c for c in rp.calls(r'Vec<.*>::push$|Vec::<T, A>::push$')]
        dec = rp.calls(r'path::Path::from_escaped_string$')
        if ctx.floor(rule, 'from_escaped_string in read_paths', len(dec), 1, rp.where()):
            calls = deep_slice_calls(lib, rp, [dec[0].args[0]], 1)
            trims = [(b, c) for b, c in calls if c.matches(TRIM)]
            # a trimming function handed to an adaptor as a value (`.map(str::trim_end)`) is a trim as well
            fnvals = [k.get('fn') for k in backslice(rp, [dec[0].args[0]]).consts if 'fn' in k and re.search(TRIM, k.get('fn') or '')]
            ctx.check(not fnvals, rule, rp.path + '|path-payload-fn', dec[0].where(), 'no white-space trimming function is applied to the path payload through an adaptor',
                      'the path payload passes %s (handed to an adaptor as a function value): a file name with trailing white space is read back without it - `remove` then acts on the file of that '
                      'other name if there is one of the same length, a file that was never reported' % (fnvals[0] if fnvals else ''))
            for b_, c_, why in broad_strippers(lib, calls):
                ctx.violation(rule, rp.path + '|path-payload-strip', c_.where(), 'the path payload passes %s, but %s: characters the encoder leaves unescaped (e.g. the C1 controls U+0080..U+009F, NBSP) are cut off the end of file names' % (c_.path.rsplit('::', 1)[-1], why))
            ctx.check(not trims, rule, rp.path + '|path-payload', dec[0].where(), 'the path payload is cut out of the line without a white-space trim (%s)' % ','.join(sorted({c.path.rsplit('::', 1)[-1] for _, c in calls if re.search(r'strip_|trim_end_matches|trim_start_matches|index', c.path)})),
                      'the path payload passes str::%s: file names with leading/trailing white space (e.g. "b ") are read back as a different name, and the dedupe command then acts on the wrong file' % (trims[0][1].path.rsplit('::', 1)[-1] if trims else ''))
    if rh is not None:
        hdr = aggregates(rh, 'report::ReportHeader')
        if hdr:
            hs = hdr[0][1]
            calls = deep_slice_calls(lib, rh, [agg_field(hs, 'base_dir')], 1)
            trims = [(b, c) for b, c in calls if c.matches(TRIM)]
            for b_, c_, why in broad_strippers(lib, calls):
                ctx.violation(rule, RH + '|base-dir-payload-strip', c_.where(), 'the base dir payload passes %s, but %s' % (c_.path.rsplit('::', 1)[-1], why))
            ctx.check(not trims, rule, RH + '|base-dir-payload', rh.where(hs['line']), 'the base dir payload is not white-space trimmed',
                      'the base dir payload passes str::%s (in %s): a working directory ending in white space is read back without it' % (trims[0][1].path.rsplit('::', 1)[-1] if trims else '', trims[0][0].path if trims else ''))


def r3(ctx, lib, rp):
    rule = 'C10.R3'
    if rp is None:
        return
    rl = rp.calls(r'BufRead::read_line$|::read_line$')
    if not ctx.floor(rule, 'read_line in read_paths', len(rl), 1, rp.where()):
        return
    psh = [c for c in rp.calls(r'Vec<.*>::push$|Vec::<T, A>::push$')]
    if not psh:
        ctx.missing(rule, 'paths.push in read_paths', rp.where())
        return
    P = psh[0]
    # a test of the terminator: ends_with('\n') / strip_suffix('\n') whose negative outcome returns Err, dominating the push
    ok = False
    how = ''
    for c in rp.calls(r'str::<impl str>::(ends_with|strip_suffix)$'):
        pat = const_val(c.args[1]) or ''
        sl = backslice(rp, [c.args[0]])
        if "'\\n'" not in pat and '"\\n"' not in pat:
            continue
        last = c.path.rsplit('::', 1)[-1]
        if last == 'ends_with':
            for (bbx, idx, what) in rp.operand_uses(c.dest[0]):
                sw = what[1] if what[0] == 'switch' else None
                if what[0] == 'stmt' and what[1]['rv']['k'] == 'un':
                    for (b2, i2, w2) in rp.operand_uses(what[1]['p'][0]):
                        if w2[0] == 'switch':
                            tt, ft = switch_targets_bool(w2[1])
                            if rp.dominates(ft, P.bb) and 'Ok' not in return_variants_from(rp, tt) - {'Ok'} and P.bb not in rp.reachable(tt):
                                ok, how = True, '!ends_with(\'\\n\') -> Err'
                if sw is not None:
                    tt, ft = switch_targets_bool(sw)
                    if rp.dominates(tt, P.bb) and P.bb not in rp.reachable(ft):
                        ok, how = True, 'ends_with(\'\\n\') required'
        else:
            # strip_suffix: the None arm must not reach the push
            fate = classify_result(rp, c)
            for (bbx, idx, what) in rp.operand_uses(c.dest[0]):
                if what[0] == 'stmt' and what[1]['rv']['k'] == 'disc':
                    for (b2, i2, w2) in rp.operand_uses(what[1]['p'][0]):
                        if w2[0] == 'switch':
                            m = dict(zip(w2[1]['vals'], w2[1]['tgts']))
                            none_t = m.get(0, w2[1]['tgts'][-1])
                            if P.bb not in rp.reachable(none_t):
                                ok, how = True, 'strip_suffix(\'\\n\') == None -> Err'
                if what[0] == 'callarg' and what[1].matches(r'Option(::)?<.*>::ok_or(_else)?$'):
                    sw = switch_on_result_of(rp, what[1])
                    if sw and any(rp.dominates(o, P.bb) for o in sw['ok']):
                        ok, how = True, 'strip_suffix(\'\\n\').ok_or(..)?'
    ctx.check(ok, rule, rp.path + '|terminator-required', P.where(), 'a path line is accepted only with its terminator (%s)' % how,
              'read_paths accepts the last line without checking that it ends with a newline: a report cut in the middle of a path (…/file1 -> …/file) is acted on, with a different, possibly existing, file name')
    # n == 0 -> UnexpectedEof
    eof = [blk for blk in rp.blocks for s in blk['stmts'] if s['rv']['k'] == 'bin' and s['rv']['op'] == 'Eq']
    ctx.check(bool(eof), rule, rp.path + '|eof-detected', rl[0].where(), 'read_line() == 0 is reported as an error', 'end of file inside a group is not detected')
    # count: loop over 0..count with the count of the group header
    ctx.check(2 in backslice(rp, [rp.calls(r'IntoIterator>::into_iter$')[0].args[0]]).params if rp.calls(r'IntoIterator>::into_iter$') else False, rule, rp.path + '|count', rp.where(), 'exactly `count` paths are read', 'the number of paths read is not the announced count')


def r4(ctx, lib):
    rule = 'C10.R4'
    nx = None
    for p, b in lib.bodies.items():
        if re.match(r'^<report::TextReportIterator<R> as fallible_iterator::FallibleIterator>::next$', p):
            nx = b
    if nx is None:
        ctx.missing(rule, 'TextReportIterator::next')
    else:
        ctx.fn(nx)
        rp = nx.calls(r'TextReportIterator::<R>::read_paths$')
        gh = nx.calls(r'TextReportIterator::<R>::read_group_header$')
        ok = bool(rp and gh)
        if ok:
            from .common import err_handling
            c1, _ = err_handling(nx, rp[0])
            c2, _ = err_handling(nx, gh[0])
            ok = c1 in ('PROPAGATED', 'ERR-RETURNED', 'RETURNED') and c2 in ('PROPAGATED', 'ERR-RETURNED', 'RETURNED')
            cnt = backslice(nx, [rp[0].args[1]])
            ok = ok and 'count' in cnt.field_names()
        ctx.check(ok, rule, nx.path, nx.where(), 'header and path errors are returned; read_paths gets header.count', 'an error in a group is swallowed by the iterator')
        grp = aggregates(nx, 'group::FileGroup')
        if grp and rp:
            s = grp[0][1]
            okf = rp[0] in backslice(nx, [agg_field(s, 'files')]).calls and 'file_len' in backslice(nx, [agg_field(s, 'file_len')]).field_names() and 'file_hash' in backslice(nx, [agg_field(s, 'file_hash')]).field_names()
            ctx.check(okf, rule, nx.path + '|group-fields', nx.where(s['line']), 'FileGroup{len, hash, files} = header + paths', 'the emitted group mixes up header fields')
    bn = ctx.bin
    rd = bn.body('run_dedupe') if bn else None
    if rd is None:
        ctx.missing(rule, 'fn run_dedupe (binary)')
        return
    # the closure that records the error: it builds an Err and writes it through a captured variable (whatever its name)
    rec = None
    rec_name = None
    for cp in bn.closures_of('run_dedupe'):
        cb = bn.body(cp)
        if cb.upvars and aggregates(cb, 'result::Result', 'Err'):
            for bi_, s_ in aggregates(cb, 'result::Result', 'Err'):
                holders = forward_locals(cb, s_['p'][0]) | {s_['p'][0]}
                for blk_ in cb.blocks:
                    for st_ in blk_['stmts']:
                        # `*captured = Err(e)`: the destination is reached through the closure environment (_1)
                        if st_['rv']['k'] == 'use' and op_local(st_['rv']['op']) in holders and st_['p'][1]:
                            base = st_['p'][0]
                            places_ = [st_['p']] if base == 1 else [op_place(d_[3]['rv']['op']) for d_ in cb.defs().get(base, []) if d_[2] == 'assign' and d_[3]['rv']['k'] == 'use' and op_place(d_[3]['rv']['op'])]
                            for pl_ in places_:
                                if pl_[0] == 1:
                                    idx = [e[1] for e in pl_[1] if isinstance(e, list) and e[0] == 'F']
                                    if idx and idx[0] in cb.upvars:
                                        rec, rec_name = cb, cb.upvars[idx[0]]
    # the stream ends at the first recorded error: take_while(is_some) after the recording map, or the recording closure is a map_while itself
    tw = rd.calls(r'::take_while$|::map_while$')
    ok = bool(tw) and rec is not None
    ctx.check(ok, rule, 'bin::run_dedupe|stop-on-error', (tw[0].where() if tw else rd.where()), 'the first Err is recorded (in `%s`) and %s ends the stream' % (rec_name, tw[0].path.rsplit('::', 1)[-1] if tw else '?'),
              'errors from the report reader do not stop processing')
    # the recorded result is what the function returns
    rs = backslice(rd, [0])
    named = {rd.local_name(l) for l in rs.locals}
    ctx.check(rec_name is not None and rec_name in named, rule, 'bin::run_dedupe|error-returned', rd.where(), 'run_dedupe returns the recorded read error', 'the recorded read error is not returned')


def r5(ctx, lib):
    from . import c17
    before = len(ctx.obligations)
    c17.r1(ctx, lib)
    c17.r2(ctx, lib)
    c17.r3(ctx, lib)
    c17.r4(ctx, lib)
    c17.r5(ctx, lib)
    for o in ctx.obligations[before:]:
        o['key'] = o['key'].replace(o['rule'] + '|', 'C10.R5|', 1)
        o['detail'] = '[%s] %s' % (o['rule'], o['detail'])
        o['rule'] = 'C10.R5'
    ctx.rules_run.add('C10.R5')

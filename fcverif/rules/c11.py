"""C11 - the dry-run script is exactly what a real run does."""
import re
from . import register
from .c20 import affected_fields
from ..analysis import (backslice, aggregates, agg_field, closure_creation, forward_locals, direct_def, variant_arms, dominated_region,
                        switch_on_result_of, comparisons, branch_of, direct_field, switch_targets_bool, base_named_local)
from ..facts import place_fields, op_local, const_int, const_val

DOC = {
    'explanation': 'Decided: the same script value feeds the printer or the executor (R1); per FsCommand variant the shell lines printed by to_shell_str correspond, operation by operation '
                   'and operand role by operand role, to the primitives execute() performs, and both report the same reclaimed size (R2); every operand interpolated into a shell line '
                   'went through Path::quote (R3); group indices are attached before the parallel bridge, one item per input group, and the printer restores the order by emitting '
                   'only index == next, pushing every received item and incrementing next once per pop (R4); both summaries count one per command (R5).',
    'rules': {
        'C11.M': __import__('fcverif.rules.common', fromlist=['MANDATORY_TEXT']).MANDATORY_TEXT,
        'C11.R1': 'run_dedupe: log_script and run_script receive the same dedupe(..) value',
        'C11.R2': 'execute vs to_shell_str per variant: Remove rm(file); SoftLink/HardLink mv(link,tmp) ln[-s](target,link) rm(tmp); RefLink mv cp--reflink rm; Move mv | cp+rm; execute and space_to_reclaim return the same field\'s length',
        'C11.R3': 'every path interpolated into a shell line derives from Path::quote',
        'C11.R4': 'dedupe: enumerate before par_bridge, one (index, commands) item per group; log_script: every received item is pushed, emitted iff index == next, next += 1 per pop, priority Reverse(index)',
        'C11.R13': 'the precondition evaluated at generation is the whole precondition: a move whose target cannot be created because a parent of it is not a directory is refused there as well (re-evaluates C18.R1 / C18.R5, parents-checked)',
        'C11.R12': 'the printed script fails the way the real run fails: for the three link commands the step after `mv link tmp` is conditional - the temporary is removed only if the link was made, otherwise it is moved back (execute: safe_remove / reflink restore the original on error)',
        'C11.R11': 'a command that execute() refuses on a pure precondition test (FsCommand::check_*: the target of a move exists) is not in the script: the same test is reachable from dedupe(), the generator that both the dry run and the real run use, so the printed script and its summary do not announce operations that the real run refuses',
        'C11.R10': 'the script contains no command that is bound to fail where the real run restores and the printed script does not: hard links are planned only between paths whose directory entries are on one device (re-evaluates C02.R6, key-of-the-entry)',
        'C11.R9': 'the commands of one group may depend on each other (a symbolic link and the file it points to): run_script executes the commands of a group one after another in script order (FsCommand::execute is applied by a sequential iterator over the group\'s vector, parallelism is across groups), and dedupe_script puts the commands for symbolic links first (stable sort of to_drop by link-ness)',
        'C11.R8': 'the real run does not fail on files the printed script handles: the lock needs no write permission on the file (re-evaluates C20.R6)',
        'C11.R7': 'the real run has no failure mode that the printed script lacks for a link member: the lock is not taken through a symbolic link (re-evaluates C20.R5)',
        'C11.R6': 'the quoting applied to every operand is the lossless one (re-evaluates C17.R2, C17.R3, C17.R4)',
        'C11.R5': 'log_script counts 1 and space_to_reclaim() per command; run_script counts 1 and the executed length per successful command',
    },
    'not_decided': 'bash itself; equality of the summaries when commands fail in the real run; the quoting function (C17)',
    'assumptions': ['safe_remove = mv to temp, action, rm temp (C05.R1)'],
}

FS = 'dedupe::FsCommand::'
SHELL_OP = [(r'^mkdir ', 'mkdir'), (r'^rm ', 'rm'), (r'^mv ', 'mv'), (r'^ln -s ', 'ln -s'), (r'^ln ', 'ln'), (r'^cp --reflink', 'cp-reflink'), (r'^cp -c ', 'cp-reflink'), (r'^cp ', 'cp')]


def parse_snip(snip):
    """format!("tmpl", args..) -> (template, [arg expressions])"""
    m = re.match(r'^format!\(\s*"((?:[^"\\]|\\.)*)"\s*(?:,(.*))?\)$', snip, re.S)
    if not m:
        return None, []
    tmpl = m.group(1)
    rest = m.group(2) or ''
    args, depth, cur = [], 0, ''
    for ch in rest:
        if ch in '([{':
            depth += 1
        elif ch in ')]}':
            depth -= 1
        if ch == ',' and depth == 0:
            args.append(cur.strip())
            cur = ''
        else:
            cur += ch
    if cur.strip():
        args.append(cur.strip())
    # inline named arguments
    names = re.findall(r'\{([a-z_][a-z0-9_]*)\}', tmpl)
    out = []
    ai = 0
    for ph in re.findall(r'\{([a-z_][a-z0-9_]*)?\}', tmpl):
        if ph:
            out.append(ph)
        else:
            out.append(args[ai] if ai < len(args) else '?')
            ai += 1
    return tmpl, out


def role_of_expr(body, region, expr):
    """role of a shell operand given by its source expression: variant field name or 'tmp'"""
    ident = re.match(r'^&?\s*([a-z_][a-z0-9_]*)', expr)
    if not ident:
        return '?', False
    name = ident.group(1)
    # candidates: named locals with that name assigned inside the arm region
    cands = [i for i, l in enumerate(body.locals) if l['name'] == name]
    best = None
    for l in cands:
        for d in body.defs().get(l, []):
            if d[0] in region:
                best = l
    if best is None:
        return '?', False
    sl = backslice(body, [best])
    quoted = sl.has_call(r'path::Path::quote$') or '.quote()' in expr
    if sl.has_call(r'FsCommand::temp_file$'):
        return 'tmp', quoted
    fs = sl.field_names() & {'file', 'link', 'target', 'source'}
    return (sorted(fs)[0] if len(fs) == 1 else '/'.join(sorted(fs)) or '?'), quoted


@register('C11', DOC)
def run(ctx):
    r1(ctx)
    r23(ctx)
    r4(ctx)
    r5(ctx)
    r6(ctx)
    from .common import reevaluate
    from . import c20
    reevaluate(ctx, 'C11.R7', c20.r5, ctx.lib)
    reevaluate(ctx, 'C11.R8', c20.r6, ctx.lib)
    from . import c02
    reevaluate(ctx, 'C11.R10', c02.r6)
    r11(ctx)
    r11b(ctx)
    from . import c18
    reevaluate(ctx, 'C11.R13', c18.r15, ctx.lib)
    r9(ctx)
    from .common import run_mandatory
    run_mandatory(ctx, 'C11')


def r1(ctx):
    rule = 'C11.R1'
    bn = ctx.bin
    b = bn.body('run_dedupe') if bn else None
    if b is None:
        ctx.missing(rule, 'fn run_dedupe (binary)')
        return
    ctx.fn(b)
    d = b.calls(r'(^|::)dedupe::dedupe$|^fclones::dedupe$')
    ls = b.calls(r'(^|::)log_script$')
    rs = b.calls(r'(^|::)run_script$')
    if not (d and ls and rs):
        ctx.missing(rule, 'dedupe / log_script / run_script calls in run_dedupe', b.where())
        return
    a = base_named_local(b, ls[0].args[0])
    c = base_named_local(b, rs[0].args[0])
    dl = d[0].dest[0]
    ok = a is not None and a == c and (a == dl or dl in backslice(b, [a], follow_call=lambda x: []).locals)
    ctx.check(ok, rule, 'bin::run_dedupe|same-script', ls[0].where(), 'log_script and run_script consume the same dedupe(..) result', 'the dry run prints a different script than the real run executes')
    ctx.check(len(d) == 1, rule, 'bin::run_dedupe|single-dedupe', d[0].where(), 'one dedupe(..) call', '%d dedupe calls' % len(d))


def exec_ops(lib, ex, region):
    """ordered shell-level operations performed by execute() in an arm region: list of (op, [roles])"""
    def role(op_):
        sl = backslice(ex, [op_])
        fs = sl.field_names() & {'file', 'link', 'target', 'source'}
        return sorted(fs)[0] if len(fs) == 1 else '/'.join(sorted(fs)) or '?'
    ops = []
    calls = sorted([c for c in ex.calls() if c.bb in region], key=lambda c: len(ex.dominators()[c.bb]))
    for c in calls:
        last = c.path.rsplit('::', 1)[-1]
        if c.matches(r'FsCommand::remove$'):
            ops.append(('rm', [role(c.args[0])]))
        elif c.matches(r'FsCommand::safe_remove$'):
            r0 = role(c.args[0])
            inner = None
            cp = lib.closure_of_type(ex.local_ty(op_local(c.args[1]))) if op_local(c.args[1]) is not None else None
            cb = lib.body(cp) if cp else None
            if cb is not None:
                for ic in cb.calls(r'FsCommand::(symlink|hardlink)$'):
                    up = backslice(cb, [ic.args[0]])
                    tgt_role = '?'
                    for idx, nm in up.upvars:
                        tgt_role = nm or '?'
                    inner = ('ln -s' if ic.path.endswith('symlink') else 'ln', [tgt_role, r0])
            ops.append(('mv', [r0, 'tmp']))
            if inner:
                ops.append(inner)
            ops.append(('rm', ['tmp']))
        elif c.matches(r'reflink::reflink$'):
            t, l = role(c.args[0]), role(c.args[1])
            ops += [('mv', [l, 'tmp']), ('cp-reflink', [t, l]), ('rm', ['tmp'])]
        elif c.matches(r'FsCommand::move_rename$'):
            ops.append(('mv', [role(c.args[0]), role(c.args[1])]))
        elif c.matches(r'FsCommand::move_copy$'):
            s_, t_ = role(c.args[0]), role(c.args[1])
            ops += [('cp', [s_, t_]), ('rm', [s_])]
    return ops


def r23(ctx):
    rule = 'C11.R2'
    lib = ctx.lib
    ex = ctx.need_body(rule, FS + 'execute')
    sh = ctx.need_body(rule, FS + 'to_shell_str')
    if ex is None or sh is None:
        return
    ea = variant_arms(ex, lib, 1)
    sa = variant_arms(sh, lib, 1)
    if not ea or not sa:
        ctx.missing(rule, 'match on *self in execute / to_shell_str')
        return
    earms, sarms = ea[0][1], sa[0][1]
    adt = lib.adts.get('dedupe::FsCommand')
    ctx.floor(rule, 'to_shell_str arms', len(sarms), len(adt['variants']) if adt else 5, sh.where())
    n_quote = 0
    for var in sorted(earms):
        if var not in sarms:
            ctx.violation(rule, '%s|%s' % (sh.path, var), sh.where(), 'variant %s is not rendered by to_shell_str' % var)
            continue
        eregion = dominated_region(ex, earms[var])
        sregion = dominated_region(sh, sarms[var])
        eops = exec_ops(lib, ex, eregion)
        lines = []
        for c in sorted([c for c in sh.calls() if c.bb in sregion and c.t.get('snip', '').startswith('format!')], key=lambda c: (c.line, c.bb)):
            sn = c.t['snip']
            if any(sn == x[0] for x in lines):
                continue
            lines.append((sn, c))
        sops = []
        rollbacks = []
        for sn, c in lines:
            tmpl, args = parse_snip(sn)
            if tmpl is None:
                continue
            # `if A; then B; else C; fi`: A and B are the steps of the success path, C is what happens when A fails
            mm = re.match(r'^if (.*?); then (.*?); else (.*?); fi$', tmpl)
            parts = [(mm.group(1), 'step'), (mm.group(2), 'step'), (mm.group(3), 'rollback')] if mm else [(tmpl, 'step')]
            # `A && B`: B is the next step of the success path; `A || B`: B is what happens when A fails
            parts2 = []
            for sub, kind in parts:
                for chunk in sub.split(' && '):
                    alts = chunk.split(' || ')
                    parts2.append((alts[0], kind))
                    for alt_ in alts[1:]:
                        parts2.append((alt_, 'rollback'))
            parts = parts2
            conditional = bool(mm) or ' && ' in tmpl
            ai = 0
            for sub, kind in parts:
                nph = len(re.findall(r'\{([a-z_][a-z0-9_]*)?\}', sub))
                sargs = args[ai:ai + nph]
                ai += nph
                op = None
                for rx, name in SHELL_OP:
                    if re.search(rx, sub):
                        op = name
                        break
                roles = []
                for a in sargs:
                    r, q = role_of_expr(sh, sregion, a)
                    roles.append(r)
                    n_quote += 1
                    ctx.check(q, 'C11.R3', '%s|%s|%s' % (sh.path, var, a), c.where(), 'operand `%s` is shell-quoted' % a, 'operand `%s` of `%s` is interpolated without Path::quote' % (a, sub))
                (sops if kind == 'step' else rollbacks).append((op, roles, c))
        # compare sequences; Move has two alternatives selected by use_rename in both functions
        key = '%s|%s' % (sh.path, var)
        e_seq = [(o, r) for o, r in eops]
        s_seq = [(o, r) for o, r, _ in sops]
        # macOS alternative `cp -c` is a sibling of `cp --reflink`: collapse duplicates of the same op/roles
        s_seq2 = []
        kept = []
        for (o, r, c_) in sops:
            x = (o, r)
            # the same step on an exclusive branch (cfg!(target_os) alternatives) is one step
            excl = any(k[:2] == x and c_.bb != k[2].bb and c_.bb not in sh.reachable(k[2].bb) and k[2].bb not in sh.reachable(c_.bb) for k in kept)
            if excl or (s_seq2 and s_seq2[-1] == x):
                continue
            s_seq2.append(x)
            kept.append((o, r, c_))
        if var == 'Move':
            # execute: [mv] when rename succeeded else [cp, rm]; shell: mv under use_rename else cp, rm (the directories are created first on both sides)
            s_nomk = [x for x in s_seq2 if x[0] != 'mkdir']
            good = e_seq == [('mv', ['source', 'target']), ('cp', ['source', 'target']), ('rm', ['source'])] and s_nomk == e_seq
            # the target lies in a directory that does not exist yet (DIR/<full path of the source>): without `mkdir -p` cp and mv always fail, and bash goes on
            # after a failing command: the removal of the source has to hang on the success of the copy, and a copy that cannot replace the source goes away
            mk = [x for x in s_seq2 if x[0] == 'mkdir']
            rb = [(o, r) for o, r, _ in rollbacks]
            cp_lines = [c_ for (o, r, c_) in sops if o == 'cp']
            cond_rm = bool(cp_lines) and any(re.match(r'^format!\(\s*"if .*cp .*; then rm ', c_.t.get('snip', ''), re.S) or re.search(r'cp [^;]*&& rm ', c_.t.get('snip', '')) for c_ in cp_lines)
            ctx.check(len(mk) >= 1 and cond_rm and ('rm', ['target']) in rb, 'C11.R12', key + '|rolls-back', where,
                      'Move: the script creates the directories, removes the source only after a successful copy, and removes a copy that cannot replace the source',
                      'Move: the script is `cp SRC TGT` and `rm SRC` on two unconditional lines, without the `mkdir -p` that the real run does first: TGT is DIR/<full path of the source>, so cp always fails '
                      'when the script is run as printed, bash goes on, and rm deletes every file that was to be moved - the script of `move --dry-run` to another disk moves nothing and removes all')
        else:
            good = e_seq == s_seq2
        where = sops[0][2].where() if sops else sh.where()
        if var in ('SoftLink', 'HardLink', 'RefLink'):
            # execute() moves the original back when the link cannot be made (safe_remove / reflink); bash goes on after a failing command,
            # so the printed script has to say so itself - otherwise its `rm tmp` destroys the original
            lk = [r for o, r in s_seq2 if o in ('ln', 'ln -s', 'cp-reflink')]
            want = ('mv', ['tmp', lk[0][1]]) if lk and len(lk[0]) > 1 else None
            rb = [(o, r) for o, r, _ in rollbacks]
            ctx.check(want is not None and bool(rb) and all(x == want for x in rb), 'C11.R12', key + '|rolls-back', where, '%s: when the link step fails the script moves the original back (mv tmp link), as the real run does' % var,
                      '%s: the script is three unconditional lines (mv link tmp; ln ..; rm tmp): when ln fails - EXDEV between two bind mounts of one file system, EMLINK on a file with 65000 links, EPERM under '
                      'fs.protected_hardlinks, ENOSPC - bash continues and `rm tmp` deletes the original, while the real run renames it back' % var)
        ctx.check(good, rule, key, where, '%s: script %s == real run' % (var, ' ; '.join('%s(%s)' % (o, ','.join(r)) for o, r in s_seq2)),
                  '%s: the script prints %s but execute() performs %s' % (var, ' ; '.join('%s(%s)' % (o, ','.join(r)) for o, r in s_seq2), ' ; '.join('%s(%s)' % (o, ','.join(r)) for o, r in e_seq)))
    ctx.floor('C11.R3', 'operands interpolated into shell lines', n_quote, 14, sh.where())
    # Move: both select by use_rename
    if 'Move' in sarms:
        reg = dominated_region(sh, sarms['Move'])
        sel = [d for d in reg if sh.blocks[d]['term']['k'] == 'switch' and (direct_field(sh, sh.blocks[d]['term']['op']) or ('',))[0] == 'use_rename']
        ctx.check(bool(sel), rule, sh.path + '|Move|selector', sh.where(), 'mv vs cp+rm selected by use_rename, as in execute', 'the script does not select mv / cp+rm by use_rename')
    # reclaimed size: same field
    fields, src = affected_fields(ctx, lib)
    sp = ctx.need_body(rule, FS + 'space_to_reclaim')
    for fn_b, nm in ((ex, 'execute'), (sp, 'space_to_reclaim')):
        if fn_b is None:
            continue
        from ..desugar import desugared
        fn_b = desugared(lib, fn_b)         # `remove(path).map(|()| len)` is `match remove(path) { Ok(()) => Ok(len), Err(e) => Err(e) }`
        arms = variant_arms(fn_b, lib, 1)
        if not arms:
            # or-pattern with a single body: take the places read
            got = {}
            for blk in fn_b.blocks:
                for s in blk['stmts']:
                    from ..facts import rvalue_places
                    for p in rvalue_places(s['rv']):
                        v = None
                        for e in p[1]:
                            if isinstance(e, list) and e[0] == 'D':
                                v = e[2]
                            elif isinstance(e, list) and e[0] == 'F' and v:
                                got.setdefault(v, e[2])
                                v = None
            ok = all(got.get(v) == f for v, f in fields.items())
            ctx.check(ok, rule, '%s|reclaimed-field' % fn_b.path, fn_b.where(), '%s reports the length of the affected file of each variant' % nm, '%s reads %s, expected %s' % (nm, got, fields))
            continue
        # execute() may simply return what the sibling computes: `Ok(self.space_to_reclaim())` - that function is checked by this very loop
        if nm == 'execute' and sp is not None and not fn_b.calls(r'FileMetadata::len$'):
            dele = [c for c in fn_b.calls(r'FsCommand::space_to_reclaim$') if 1 in backslice(fn_b, [c.args[0]]).params]
            oks = aggregates(fn_b, 'result::Result', 'Ok')
            good_d = bool(dele) and bool(oks) and all(dele[0] in backslice(fn_b, st_['rv']['ops']).calls for _, st_ in oks)
            for var in arms[0][1]:
                ctx.check(good_d, rule, '%s|reclaimed-field|%s' % (fn_b.path, var), (dele[0].where() if dele else fn_b.where()), 'execute(%s) returns self.space_to_reclaim() (checked per variant below)' % var,
                          'execute(%s) does not return the affected file\'s length' % var)
            continue
        for var, tgt in arms[0][1].items():
            region = dominated_region(fn_b, tgt)
            lens = [c for c in fn_b.calls(r'FileMetadata::len$') if c.bb in region]
            if not lens:
                # shared arm body (or-pattern)
                lens = fn_b.calls(r'FileMetadata::len$')
            ok = bool(lens) and any(fields.get(var) in backslice(fn_b, [c.args[0]]).field_names() for c in lens)
            ctx.check(ok, rule, '%s|reclaimed-field|%s' % (fn_b.path, var), (lens[0].where() if lens else fn_b.where()), '%s(%s) returns %s.metadata.len()' % (nm, var, fields.get(var)), '%s(%s) does not return the affected file\'s length' % (nm, var))


def r4(ctx):
    rule = 'C11.R4'
    lib = ctx.lib
    d = ctx.need_body(rule, 'dedupe::dedupe')
    if d is not None:
        en = d.calls(r'Iterator::enumerate$')
        pb = d.calls(r'ParallelBridge::par_bridge$|::par_bridge$')
        mp = d.calls(r'ParallelIterator::map$')
        ok = bool(en and pb and mp) and en[0] in backslice(d, [pb[0].args[0]]).calls and pb[0] in backslice(d, [mp[0].args[0]]).calls
        lim = [c.path.rsplit('::', 1)[-1] for c in d.calls(r'::(filter|filter_map|skip|take|step_by|flat_map|flatten)(_by)?$')]
        ctx.check(ok and not lim, rule, d.path + '|index-before-bridge', (en[0].where() if en else d.where()), 'groups are numbered (enumerate) before par_bridge and mapped one-to-one', 'indices are not attached before the parallel bridge, or items are filtered (%s)' % lim)
        # the map closure returns (i, commands) on every path
        for cp in lib.closures_of(d.path, recursive=False):
            cb = lib.body(cp)
            if cb.calls(r'dedupe::partition$|dedupe::fetch_files_metadata$'):
                rets = [s for blk in cb.blocks for s in blk['stmts'] if s['p'][0] == 0 and s['rv']['k'] == 'agg' and s['rv'].get('ak') == 'tuple']
                ok = len(rets) >= 1 and all(2 in backslice(cb, [s['rv']['ops'][0]]).params for s in rets)
                n_ret = len(cb.return_blocks())
                ctx.check(ok, rule, cp + '|one-item-per-group', cb.where(), 'every group yields exactly one (index, commands) item, also when nothing is to be dropped', 'a group can yield no item or an item with a different index')
    ls = ctx.need_body(rule, 'dedupe::log_script')
    if ls is None:
        return
    body = None
    for cp in lib.closures_of(ls.path):
        cb = lib.body(cp)
        if cb.calls(r'Receiver<.*>::recv$|Receiver::<T>::recv$') and cb.calls(r'PriorityQueue.*::push$'):
            body = cb
    if body is None:
        ctx.missing(rule, 'drain loop with the priority queue in log_script', ls.where())
        return
    ctx.fn(body)
    P = body.path
    R = body.calls(r'Receiver<.*>::recv$|Receiver::<T>::recv$')[0]
    push = body.calls(r'PriorityQueue.*::push$')[0]
    pop = body.calls(r'PriorityQueue.*::pop$')
    peek = body.calls(r'PriorityQueue.*::peek$')
    sw = switch_on_result_of(body, R)
    ok = sw is not None and all(R.bb not in body.reachable(o, avoid=[push.bb]) and not set(body.return_blocks()) & body.reachable(o, avoid=[push.bb]) - set() for o in sw['ok'])
    # returning with Err (write failure) is allowed only after the push
    ctx.check(bool(ok), rule, P + '|every-item-pushed', push.where(), 'every received item is pushed to the queue before the next recv()',
              'a received item can be skipped without being queued: the sequence of indices gets a hole, the expected index is never reached and all later groups are silently dropped from the script')
    # priority = Reverse(index of the item)
    psl = backslice(body, [push.args[2]])
    rev = any(s['rv'].get('adt', '').endswith('cmp::Reverse') for blk in body.blocks for s in blk['stmts'] if s['rv']['k'] == 'agg' and s['p'][0] in psl.locals)
    item_idx = R.dest[0] in psl.locals or bool(psl.locals & backslice(body, [push.args[1]]).locals)
    ctx.check(rev and item_idx, rule, P + '|priority', push.where(), 'priority = Reverse(group index)', 'the queue priority is not Reverse(index)')
    fg = aggregates(body, 'dedupe::FsCommandGroup') or [x for cp in [] for x in []]
    # the comparison index != next
    cands = []
    for cmp in comparisons(body):
        if cmp.op not in ('==', '!='):
            continue
        sa, sb = backslice(body, [cmp.a]), backslice(body, [cmp.b])
        a_idx = 'index' in sa.field_names()
        b_idx = 'index' in sb.field_names()
        if a_idx != b_idx:
            other = cmp.b if a_idx else cmp.a
            nl = base_named_local(body, other)
            cands.append((cmp, nl))
    if not cands or not pop:
        ctx.missing(rule, 'index == next comparison / pop in log_script', body.where())
        return
    cmp, nxt = cands[0]
    br = branch_of(body, cmp)
    sw_, tt, ft = br
    eq_side = tt if cmp.op == '==' else ft
    ok = body.dominates(eq_side, pop[0].bb)
    ctx.check(ok, rule, P + '|emit-iff-next', body.where(cmp.line), 'a group is popped and printed only when its index equals the expected one', 'groups can be printed out of order')
    # next += 1 exactly once between the comparison and the pop / per pop
    incs = []
    for bi, blk in enumerate(body.blocks):
        for s in blk['stmts']:
            if s['rv']['k'] == 'bin' and s['rv']['op'].startswith('Add') and base_named_local(body, s['rv']['a']) == nxt and const_int(s['rv']['b']) is not None:
                incs.append((bi, const_int(s['rv']['b'])))
    ok = len(incs) == 1 and incs[0][1] == 1 and body.dominates(eq_side, incs[0][0])
    if ok:
        ib = incs[0][0]
        # every path from the equal side to the next peek passes the increment and the pop
        ok = all(x not in body.reachable(eq_side, avoid=[ib]) for x in [peek[0].bb] if peek) and (pop[0].bb in body.reachable(ib) or body.dominates(pop[0].bb, ib))
    ctx.check(ok, rule, P + '|next-incremented', body.where(cmp.line), 'the expected index advances by 1 exactly when a group is emitted', 'the expected index does not advance by exactly 1 per emitted group')
    # start value 0 = first index produced by enumerate()
    init = [const_int(s['rv']['op']) for blk in body.blocks for s in blk['stmts'] if s['p'][0] == nxt and not s['p'][1] and s['rv']['k'] == 'use' and const_int(s['rv']['op']) is not None]
    ctx.check(init == [0], rule, P + '|starts-at-zero', body.where(), 'the expected index starts at 0', 'the expected index starts at %s' % init)
    # the popped group's commands are the ones printed
    sh = body.calls(r'FsCommand::to_shell_str$')
    ctx.check(bool(sh) and pop[0] in backslice(body, [sh[0].args[0]]).calls, rule, P + '|prints-popped', (sh[0].where() if sh else body.where()), 'the printed commands are the popped group\'s', 'the printed commands are not those of the popped group')


def r5(ctx):
    rule = 'C11.R5'
    lib = ctx.lib
    ls = lib.body('dedupe::log_script')
    if ls is None:
        return
    body = None
    for cp in lib.closures_of(ls.path):
        cb = lib.body(cp)
        if cb.calls(r'FsCommand::to_shell_str$'):
            body = cb
    if body is None:
        ctx.missing(rule, 'printing loop in log_script')
        return
    sh = body.calls(r'FsCommand::to_shell_str$')[0]
    sp = body.calls(r'FsCommand::space_to_reclaim$')
    res = aggregates(body, 'dedupe::DedupeResult')
    ok = bool(sp and res)
    if ok:
        s = res[0][1]
        pc = base_named_local(body, agg_field(s, 'processed_count'))
        rs = backslice(body, [agg_field(s, 'reclaimed_space')])
        incs = [(bi, st) for bi, blk in enumerate(body.blocks) for st in blk['stmts'] if st['rv']['k'] == 'bin' and st['rv']['op'].startswith('Add') and base_named_local(body, st['rv']['a']) == pc]
        ok = len(incs) == 1 and const_int(incs[0][1]['rv']['b']) == 1 and sp[0] in rs.calls
        # same loop iteration as the printing: the increment block and to_shell_str are in the same cycle, one per command
        if ok:
            ib = incs[0][0]
            ok = sh.bb in body.reachable(ib) and backslice(body, [sp[0].args[0]]).locals & backslice(body, [sh.args[0]]).locals != set()
    # the printing loop leaves with `?` on an output error and drops the receiver: the producer of the commands must survive that (its send() then
    # fails), so that the error - not a panic of the producer, re-raised by the scope - is what the run ends with
    prod = [lib.body(cp) for cp in lib.closures_of(ls.path) if lib.body(cp).calls(r'Sender<.*>::send$|Sender::<T>::send$')]
    bad = []
    for x in prod:
        for c in x.calls(r'Sender<.*>::send$|Sender::<T>::send$'):
            uw = [k for k in x.calls(r'Result(::)?<.*>::(unwrap|expect)$') if op_local(k.args[0]) in (forward_locals(x, c.dest[0]) | {c.dest[0]})]
            if uw:
                bad.append(uw[0])
    if prod:
        ctx.check(not bad, rule, ls.path + '|producer-survives-output-error', (bad[0].where() if bad else prod[0].where()), 'the thread that generates the commands does not panic when the printing side has stopped on an output error',
                  'the producer of the commands unwraps send(): when writing the script fails (`fclones remove --dry-run <rep | head -1`, -o on a full disk) the printing loop returns the error and drops the '
                  'receiver, every pending send() fails, the producer panics and the scope re-raises it - the run ends with a dozen panic messages and exit code 101 (an abort with a core dump in '
                  'release builds) instead of "Output error: Broken pipe"')
    ctx.check(bool(ok), rule, body.path + '|dry-run-summary', sh.where(), 'dry run: +1 and +space_to_reclaim() for every printed command', 'the dry-run summary does not count one and space_to_reclaim() per printed command')
    from . import c05
    before = len(ctx.obligations)
    c05.r6(ctx, lib)
    for o in ctx.obligations[before:]:
        o['key'] = o['key'].replace(o['rule'] + '|', 'C11.R5|', 1)
        o['detail'] = '[%s] %s' % (o['rule'], o['detail'])
        o['rule'] = 'C11.R5'


def r6(ctx):
    from . import c17
    before = len(ctx.obligations)
    c17.r2(ctx, ctx.lib)
    c17.r3(ctx, ctx.lib)
    c17.r4(ctx, ctx.lib)
    for o in ctx.obligations[before:]:
        o['key'] = o['key'].replace(o['rule'] + '|', 'C11.R6|', 1)
        o['detail'] = '[%s] %s' % (o['rule'], o['detail'])
        o['rule'] = 'C11.R6'
    ctx.rules_run.add('C11.R6')


def r11(ctx):
    """A refusal that execute() decides before it changes anything is decided at script generation too."""
    rule = 'C11.R11'
    lib = ctx.lib
    from ..callgraph import CallGraph
    cg = CallGraph([lib])
    # precondition tests: functions of FsCommand that only inspect (no mutating primitive reachable) and return io::Result<()>,
    # called from the movers / linkers before their first mutating step
    ex_reach = cg.reachable(['dedupe::FsCommand::execute'])
    pre = [k for k in sorted(ex_reach) if re.search(r'^dedupe::FsCommand::check_\w+$', k) and k != 'dedupe::FsCommand::check_preconditions']
    if not ctx.floor(rule, 'precondition tests reachable from FsCommand::execute', len(pre), 1):
        return
    gen = cg.reachable(['dedupe::dedupe'], stop=lambda k: k == 'dedupe::FsCommand::execute')
    for k in pre:
        b = lib.body(k)
        if cg.may_mutate(k):
            ctx.ok(rule, k + '|not-a-pure-test', b.where(), 'not a pure test (it can change the file system): it belongs to the execution only')
            continue
        gen = cg.reachable(['dedupe::dedupe'], stop=lambda k_: k_ == 'dedupe::FsCommand::execute')
        ctx.check(k in gen, rule, k + '|evaluated-at-generation', b.where(), 'the refusal is decided when the script is generated as well (reached from dedupe() through %s)' % ' -> '.join(x.rsplit('::', 1)[-1] for x in (cg.path_to(k)[-4:] if k in gen else [])),
                  '%s makes execute() refuse a command before anything is changed, but nothing evaluates it when the script is generated: `move --dry-run` prints `mv` and counts the file for a target that '
                  'already exists, while the real run warns "Target already exists" and processes nothing (and the printed mv would overwrite the file the real run protects)' % k.rsplit('::', 1)[-1])


def r11b(ctx):
    """link(2) refuses for reasons that are visible before anything is changed (the link count of the retained file is at the limit of
    the file system, the two paths are on different mounts of one device, fs.protected_hardlinks and a foreign owner): the generator
    would have to test them to keep the dry-run summary equal to that of the real run."""
    rule = 'C11.R11'
    lib = ctx.lib
    cp = lib.body('dedupe::FsCommand::check_preconditions')
    if cp is None:
        return
    arms = variant_arms(cp, lib, 1)
    covered = set()
    from ..callgraph import CallGraph
    cg = CallGraph([lib])
    def arm_reaches(tgt, rx):
        """a call matching rx in the arm, or in a check_ helper of FsCommand that the arm calls (transitively)"""
        for c in cp.calls():
            if not (c.bb == tgt or c.bb in cp.reachable(tgt)):
                continue
            if c.matches(rx):
                return True
            if c.matches(r'^dedupe::FsCommand::check_\w+$') and c.path in cg.bodies:
                if any(cg.bodies[k].calls(rx) for k in cg.reachable([c.path])):
                    return True
        return False
    unlink_tested, all_arms = set(), set()
    if arms:
        sbb, am, other = arms[0]
        for v, tgt in am.items():
            all_arms.add(v)
            # what makes link(2) itself refuse: first of all the link count of the retained file (EMLINK); the mount and the owner (protected_hardlinks) besides
            if tgt != other and arm_reaches(tgt, r'MetadataExt.*::nlink$|pathconf|Metadata::nlink$'):
                covered.add(v)
            if tgt != other and arm_reaches(tgt, r'nix::unistd::(access|faccessat|eaccess)$|^libc::(access|faccessat|euidaccess)$'):
                unlink_tested.add(v)
    # dedupe on Linux clones INTO the existing file: it opens it for writing first (read-only files of archives, a program being executed: ETXTBSY)
    reflink_probe = False
    owner_tested = set()
    if arms:
        sbb, am, other = arms[0]
        for v, tgt in am.items():
            if v == 'RefLink' and tgt != other:
                # a test of the FILE (not only of its directory): a helper of the arm that asks access(.., W_OK) about the path itself (no parent() on the
                # way).  Really opening it for writing is not allowed on the dry-run path (C07.R2)
                for c in cp.calls(r'^dedupe::FsCommand::check_\w+$'):
                    if not (c.bb == tgt or c.bb in cp.reachable(tgt)):
                        continue
                    hb = lib.body(c.path)
                    for k in (hb.calls(r'nix::unistd::(access|faccessat|eaccess)$') if hb is not None else []):
                        if not backslice(hb, [k.args[0]]).has_call(r'path::Path::parent$'):
                            reflink_probe = True
            if tgt != other and arm_reaches(tgt, r'nix::unistd::geteuid$|^libc::geteuid$|MetadataExt.*::uid$'):
                owner_tested.add(v)
    ctx.check(reflink_probe, rule, cp.path + '|RefLink|overwrite-predicted', cp.where(), 'a RefLink command is announced only if the duplicate is writable (access W_OK on the file itself)',
              'the lock step falls back to a read-only descriptor for files that cannot be opened for writing (D41, D52) - enough for remove / link / move, which need the directory only - but the Linux '
              '`dedupe` opens the duplicate for writing as its first step: for a 0444 file of the user, or a program being executed, `dedupe --dry-run` prints and counts the file and the real run '
              'fails with "Permission denied" / "Text file busy"')
    adt_ = lib.adts.get('dedupe::FsCommand')
    variants_ = {v['name'] for v in adt_['variants']} if adt_ else set()
    ctx.check(bool(variants_) and owner_tested >= variants_, rule, cp.path + '|sticky-directory-predicted', cp.where(), 'the owner of the file and of its directory are looked at (sticky directories) for every command',
              'write permission to the directory is not the whole rule for unlink / rename: in a sticky directory (/tmp, shared drwxrwxrwt folders) the caller must own the file or the directory (missing for: '
              '%s) - for every duplicate in /tmp that belongs to someone else --dry-run prints the command and counts the file, the real run fails with "Operation not permitted", and `move` copies the '
              'whole file first' % ', '.join(sorted(variants_ - owner_tested)))
    # the lock step opens the file (for writing, else for reading): a file that allows neither (mode 000, a foreign 0600 file) is refused by the real run only,
    # although remove / link / move need the directory alone - the generator knows whether locking is on
    dd = lib.body('dedupe::dedupe')
    lock_pred = False
    if dd is not None:
        for x in [dd] + [lib.body(c_) for c_ in lib.closures_of(dd.path)]:
            probes = [c for c in x.calls(r'^dedupe::FsCommand::check_\w*lock\w*$')]
            reads_flag = any('no_lock' in place_fields(pl) for blk in x.blocks for st in blk['stmts'] for pl in ([st['rv'].get('p')] if st['rv'].get('p') else [])) or \
                any('no_lock' in backslice(x, [blk['term']['op']]).field_names() for blk in x.blocks if blk['term']['k'] == 'switch')
            if probes and reads_flag:
                pb = lib.body(probes[0].path)
                lock_pred = pb is not None and bool(pb.calls(r'nix::unistd::(access|faccessat|eaccess)$'))
    ctx.check(lock_pred, rule, 'dedupe::dedupe|lock-refusal-predicted', (dd.where() if dd else cp.where()), 'unless --no-lock is given, a file that can be opened neither for writing nor for reading is refused when the script is generated',
              'FileLock::new needs to open the file (for writing; for a read-only file it falls back to reading): for a duplicate with mode 000 - or any file of another user without read permission - '
              'both fail and the real run refuses remove / link / move ("Failed to open file ... for write"), which need only the directory; --dry-run lists and counts the file, and the printed '
              'script removes it')
    # ... nor at what else makes unlink(2) / link(2) refuse and is visible beforehand: an append-only DIRECTORY, an immutable retained file
    cu = lib.body('dedupe::FsCommand::check_can_unlink')
    dir_flag = cu is not None and any(backslice(cu, [a]).has_call(r'path::Path::parent$') for k in cu.calls(r'FsCommand::is_immutable$') for a in k.args)
    tgt_flag = False
    if arms:
        sbb, am, other = arms[0]
        tgt = am.get('HardLink')
        if tgt is not None:
            for c in cp.calls(r'^dedupe::FsCommand::check_\w+$'):
                if (c.bb == tgt or c.bb in cp.reachable(tgt)) and 'target' in backslice(cp, c.args).field_names() and c.path in cg.bodies and \
                        any(cg.bodies[k].calls(r'^libc::ioctl$') for k in cg.reachable([c.path])):
                    tgt_flag = True
    ctx.check(dir_flag and tgt_flag, rule, cp.path + '|attributes-of-directory-and-target', cp.where(), 'the append-only / immutable attribute is read from the directory of the dropped file and from the retained file of a hard link as well',
              'the immutable / append-only test looks at the dropped file only: entries of a directory marked `chattr +a` can be created but not removed or renamed (access() says yes), and link(2) '
              'refuses an immutable retained file - every operation says "Would process 1 files" in the dry run and "Processed 0 files" with EPERM in the real run')
    # every operation unlinks or renames away the file it drops: that takes write permission to ITS directory, which can be seen beforehand
    adt = lib.adts.get('dedupe::FsCommand')
    variants = {v['name'] for v in adt['variants']} if adt else all_arms
    ctx.check(bool(variants) and unlink_tested >= variants, rule, cp.path + '|directory-of-the-dropped-file-writable', cp.where(),
              'check_preconditions asks for every command whether the directory of the file it removes / replaces / moves can be modified (%s)' % ', '.join(sorted(unlink_tested)),
              'check_preconditions does not look at the directory that holds the duplicate (missing for: %s): for a file in a directory without write permission (mode 555, a foreign directory, a '
              'read-only mount) --dry-run prints the command and counts the file for every operation, the real run fails with "Permission denied" - and `move` first COPIES the whole file to DIR, '
              'fails to remove the source, deletes the copy again and leaves the directories it created under DIR behind' % ', '.join(sorted(variants - unlink_tested)))
    ctx.check('HardLink' in covered, rule, cp.path + '|HardLink|link-refusals-predicted', cp.where(), 'check_preconditions tests what makes link(2) refuse a hard link',
              'check_preconditions has no test for HardLink commands: when link(2) refuses - the retained file has reached the link limit of the file system (EMLINK; ext4: 65000), the paths are on two '
              'bind mounts of one device (EXDEV although st_dev is equal), or fs.protected_hardlinks forbids linking a foreign file (EPERM) - the dry run announces and counts the file, the real run '
              'warns and counts nothing (the trees agree since the script rolls back, the summaries do not)')
    return covered


def r9(ctx):
    rule = 'C11.R9'
    lib = ctx.lib
    rs = ctx.need_body(rule, 'dedupe::run_script')
    ds = ctx.need_body(rule, 'dedupe::PartitionedFileGroup::dedupe_script')
    if rs is None or ds is None:
        return
    from ..analysis import closure_creation
    # where is execute() applied?
    site = None
    for cp in lib.closures_of(rs.path):
        cb = lib.body(cp)
        if cb.calls(r'dedupe::FsCommand::execute$'):
            cr = closure_creation(lib, cp)
            if cr:
                pb, bi, st = cr
                for c in pb.calls():
                    if any(op_local(a) == st['p'][0] or st['p'][0] in backslice(pb, [a]).locals for a in c.args[1:]):
                        site = (pb, c)
    if site is None:
        ctx.missing(rule, 'the adaptor that applies FsCommand::execute in run_script', rs.where())
    else:
        pb, c = site
        seq = c.matches(r'^std::iter::Iterator::(map|for_each|filter_map)$|^core::iter')
        if not seq:
            # execute() may be called in a `for` loop over the commands of ONE group inside the closure that the parallel map applies to the
            # groups: sequential all the same, if the loop iterates over (a part of) the closure's own item
            for cp_ in lib.closures_of(rs.path):
                cb_ = lib.body(cp_)
                for ex_ in cb_.calls(r'dedupe::FsCommand::execute$'):
                    nxt_ = [k_ for k_ in cb_.calls(r'Iterator>::next$|Iterator::next$') if ex_.bb in cb_.reachable(k_.bb) and k_.bb in cb_.reachable(ex_.bb)]
                    item_ = backslice(cb_, [ex_.args[0]])
                    if nxt_ and any(k_ in item_.calls for k_ in nxt_) and 2 in backslice(cb_, [nxt_[0].args[0]]).params and 'Vec<dedupe::FsCommand>' in cb_.local_ty(2):
                        seq = True
        ctx.check(seq, rule, rs.path + '|group-commands-in-order', c.where(), 'execute() is applied by a sequential iterator over the commands of one group',
                  'execute() is the item function of %s: the commands of one group run in parallel / in arbitrary order although they depend on each other - with a -S report `move` renames the file M '
                  'before the link Z -> M is copied through, the copy fails, Z is left behind dangling and one file less is processed than --dry-run announces' % c.path)
    srt = [c for c in ds.calls(r'::(sort_by_key|sort_by|sort_by_cached_key)$') if 'to_drop' in backslice(ds, [c.args[0]]).field_names()]
    ok = False
    for c in srt:
        l = op_local(c.args[1]) if len(c.args) > 1 else None
        cp = lib.closure_of_type(ds.local_ty(l)) if l is not None else None
        cb = lib.body(cp) if cp else None
        if cb is not None and any('link_metadata' in place_fields(pl) for blk in cb.blocks for st in blk['stmts'] for pl in [st['rv'].get('p')] + [((o.get('c') or o.get('m')) if isinstance(o, dict) else None) for o in [st['rv'].get('op')] + list(st['rv'].get('ops') or [])] if pl):
            ok = True
        if cb is not None:
            for blk in cb.blocks:
                t = blk['term']
                if t['k'] == 'switch':
                    pl = t['op'].get('c') or t['op'].get('m')
                    if pl and 'link_metadata' in place_fields(pl):
                        ok = True
    # ... and a link that points to another link precedes it: the key counts the links to follow (read_link in a loop)
    deep = False
    for c in srt:
        l = op_local(c.args[1]) if len(c.args) > 1 else None
        cp = lib.closure_of_type(ds.local_ty(l)) if l is not None else None
        cb = lib.body(cp) if cp else None
        if cb is None:
            continue
        for k in cb.calls():
            tb = lib.body(k.path) if k.f.get('local') else None
            if tb is not None:
                rl = tb.calls(r'^std::fs::read_link$')
                if rl and any(rl[0].bb in tb.reachable(x) for x in tb.succs(rl[0].bb)):
                    deep = True
    ctx.check(deep, rule, ds.path + '|link-chains-outermost-first', (srt[0].where() if srt else ds.where()), 'links are ordered by the number of links to follow, the longest chain first',
              'links are processed in report (path) order among themselves: for L2 -> L1 -> A `move` copies and removes L1 first, then the copy through L2 fails (ENOENT), L2 is left dangling and one file less '
              'is processed than --dry-run announced')
    ctx.check(ok, rule, ds.path + '|links-first', (srt[0].where() if srt else ds.where()), 'to_drop is stably sorted so that symbolic links come before real files',
              'the dropped files are processed in report (path) order: a link whose target sorts before it is handled after the target has been removed / moved')

"""C15 - an unreadable or vanishing file affects only itself."""
import re
from . import register
from .common import err_handling, io_result
from ..analysis import (backslice, classify_result, switch_on_result_of, return_variants_from, arm_reaches_call, LOG_CALL,
                        closure_creation, forward_locals, is_result_ty, result_err_ty, aggregates)
from ..callgraph import CallGraph
from ..facts import op_local

DOC = {
    'explanation': 'Error discipline over the grouping path (walk.rs, file.rs, hasher.rs, group.rs, transform.rs, cache.rs, device.rs), decided per call site from the resolved MIR: every '
                   'I/O result is propagated, returned, logged, or matched with an Err arm that logs; a silent drop is accepted only at the named sites of the exception table (R1); '
                   'a hash or metadata failure turns into None and removes only that file (R2); no unwrap/expect on an I/O result is reachable from group_files (R3); extent '
                   'lookup failures are only logged (R4).',
    'rules': {
        'C15.M': __import__('fcverif.rules.common', fromlist=['MANDATORY_TEXT']).MANDATORY_TEXT,
        'C15.R1': 'every io::Result produced on the group path is PROPAGATED / RETURNED / LOGGED / ERR-RETURNED; closures receiving an io::Result do not discard it silently; named exceptions only',
        'C15.R2': 'hash_file_or_log_err / hash_transformed_or_log_err / file_info_or_log_err: Err -> log (except NotFound) -> None; Ok -> Some',
        'C15.R3': 'no unwrap()/expect() on an io::Result in any body reachable from group_files (named exceptions)',
        'C15.R11': 'a failure that belongs to the file is reported once: when the hash of one path of a file cannot be computed, the next path (hard link) is tried only if the failed path no longer leads to that file (it vanished, was replaced, its directory became inaccessible) - otherwise every hard link repeats the same complete read and the same warning',
        'C15.R10': 'a file that cannot be read is never reported as a duplicate, also when no stage would read it: the groups that pass unhashed are opened and their length compared before they are reported (re-evaluates C01.R15)',
        'C15.R9': 'readable files are not lost to descriptors leaked by OTHER files: helper threads that can block are joined (re-evaluates C19.R8)',
        'C15.R8': 'an entry of the stdin list that cannot be a path at all (it contains a NUL byte) is left out alone, with a warning, instead of aborting the run in Path::from (re-evaluates C09.R12 no-nul-line)',
        'C15.R7': 'a file that cannot be read completely (it shrank after the scan) is never reported: the hasher compares the scanned length with the length of the open file (re-evaluates C01.R10)',
        'C15.R6': 'an unreadable or vanished path of an inode group (hard links) is left out alone: the hashing task goes on with the next path of the file (re-evaluates C03.R5)',
        'C15.R5': 'the only NotFound that is passed over silently is a vanished input: the start-up probe of the transform launches exactly the program that Transform::run launches (the first word of the command as given, not its base name looked up on $PATH), so a program that cannot be started is reported once at start-up and not mistaken for files that disappeared',
        'C15.R4': 'update_file_locations: a failed extent lookup is logged (except ENOENT) and the loop continues',
    },
    'not_decided': 'short reads of a file that shrinks under the scan; errors injected at arbitrary syscalls (a fault-injection harness would be needed)',
    'assumptions': ['log.warn / log_warn / eprintln are the warning channels'],
}

FILES = ('walk.rs', 'file.rs', 'hasher.rs', 'group.rs', 'transform.rs', 'cache.rs', 'device.rs')
SKIP = r'Result(::)?<.*>::|as std::ops::Try>::|FromResidual|std::convert::|Iterator|::map_err$|::and_then$|Option(::)?<.*>::|std::io::Error::|Write>::write|fmt::|^std::io::Write::|Write::(write|flush)'

# (body path regex, callee regex): reason.  One named site each.
EXC = [
    (r'^hasher::fadvise$', r'posix_fadvise$', 'advice to the kernel only; failure changes nothing'),
    # in the function itself, in one of its closures, or in a helper that was inlined into it
    (r"^hasher::FileHasher::<'_>::hash_(file|transformed)(::\{closure#\d+\})*$", r'FileMetadata::new$', 'cache lookup metadata: on failure the file is hashed uncached, and the hashing itself reports the error'),
    (r"^hasher::FileHasher::<'_>::hash_(file|transformed)(::\{closure#\d+\})*$", r'HashCache::key$', 'cache key: on failure the file is hashed uncached'),
    (r'^<transform::Input as std::ops::Drop>::drop$', r'remove_file$', 'clean-up of a temporary in Drop'),
    (r'^<transform::Output as std::ops::Drop>::drop$', r'remove_file$', 'clean-up of a temporary in Drop'),
    (r'^<transform::Transform as std::ops::Drop>::drop$', r'remove_dir_all$', 'clean-up of the temporary directory in Drop'),
    (r'^<transform::Execution as std::ops::Drop>::drop$', r'Child::wait$', 'reaping the child in Drop'),
    (r'^transform::Transform::new$', r'Child::kill$|Child::wait$', 'killing and reaping the probe process that only checks that the program is runnable'),
    (r'^transform::execute::\{closure#0\}$', r'read_to_string$|Child::wait$|OpenOptions::open$', 'stderr reaper thread: best-effort capture of diagnostics and unblocking of the named pipe'),
    (r"^group::GroupCtx::<'a>::new$", r'current_dir$', 'base directory for relative patterns: defaults to empty when the cwd is unreadable'),
    (r"^walk::Walk::<'a>::new$", r'current_dir$', 'default base dir of a fresh Walk; overwritten by the caller'),
    (r'^file::FileHash::u128_prefix$', r'read_u128$', 'reads from an in-memory buffer of known size'),
    (r'^<file::FileHash as std::convert::From<u128>>::from$', r'write_u128$', 'writes into an in-memory buffer'),
    (r'^cache::HashCacheFlusher::start::\{closure#0\}$', r'flush$', 'periodic cache flusher: the final close() reports errors'),
    (r'^hasher::evict_page_cache', r'posix_fadvise$', 'advice to the kernel only'),
    (r'^group::is_still_one_file::\{closure#\d+\}$', r'^std::fs::File::open$', 'a probe of a group that no stage reads: a failure sends the group through the hashing path, which reports the file (C01.R15 checks that the probe exists)'),
    (r'^cache::incarnation_time$', r'Metadata::created$', 'no birth time on this file system / platform: the status-change time is used instead (C12.R2 checks the fallback)'),
    (r'^group::stdout_file_id$', r'fstat$', 'probe of where the standard output goes: if it cannot be examined, no file is excluded from the scan on its account'),
]


def logs_transitively(cg, key, memo={}):
    if key in memo:
        return memo[key]
    memo[key] = False
    b = cg.bodies.get(key)
    if b is None:
        return False
    res = any(c.matches(LOG_CALL) for c in b.calls())
    if not res:
        for k2 in cg.edges.get(key, ()):
            if logs_transitively(cg, k2, memo):
                res = True
                break
    memo[key] = res
    return res


@register('C15', DOC)
def run(ctx):
    lib = ctx.lib
    cg = CallGraph([lib])
    r1(ctx, lib, cg)
    r2(ctx, lib)
    r2_stages(ctx, lib)
    r3(ctx, lib, cg)
    r4(ctx, lib, cg)
    r5(ctx, lib)
    from .common import reevaluate
    from . import c03
    reevaluate(ctx, 'C15.R6', c03.r5)
    from . import c01
    reevaluate(ctx, 'C15.R7', c01.r10)
    from . import c09
    reevaluate(ctx, 'C15.R8', c09.r12d)
    from . import c19
    reevaluate(ctx, 'C15.R9', c19.r8)
    from . import c01 as c01_
    reevaluate(ctx, 'C15.R10', c01_.r15)
    r11(ctx)
    from .common import run_mandatory
    run_mandatory(ctx, 'C15')
    if ctx.tier == 'thorough' and not getattr(ctx, 'sibling', None):
        from .. import sweep
        sweep.error_discipline(ctx, 'C15.R1', skip_files=FILES)
        sweep.panics(ctx, 'C15.R1')
        sweep.buffered(ctx, 'C15.R1', skip_files=('group.rs', 'report.rs', 'dedupe.rs', 'reflink.rs', 'lock.rs', 'main.rs'))


def _no_closure_numbers(x):
    return re.sub(r'closure#\d+', 'closure#N', x)


def exception_for(bpath, cpath):
    # exceptions name "a closure of f", not its number: numbers shift when another closure is added to the function
    for brx, crx, why in EXC:
        if re.search(_no_closure_numbers(brx).replace('closure#N', r'closure#\d+'), bpath) and re.search(crx, cpath):
            return why
    return None


def r1(ctx, lib, cg):
    rule = 'C15.R1'
    n = 0
    used_exc = set()
    for b in lib.bodies.values():
        if not b.file.endswith(FILES) or '::test' in b.path or b.kind in ('const', 'static', 'promoted') or b.derived:
            continue
        for c in b.calls():
            if c.exp and not c.f.get('local'):
                continue
            if not io_result(c) or c.matches(SKIP):
                continue
            n += 1
            ctx.fn(b)
            cat, det = err_handling(b, c)
            key = '%s|%s' % (b.path, c.path or c.decl)
            if cat == 'HANDLED-ARM':
                # the Err arm may log through a local helper
                fate = classify_result(b, c)
                for e in fate.err_arm_blocks:
                    for x in b.reachable(e):
                        cc = b.call_at(x)
                        if cc is not None and cc.f.get('local') and logs_transitively(cg, cc.path):
                            cat = 'LOGGED'
            if cat in ('DISCARDED', 'PANICS', 'HANDLED-ARM'):
                why = exception_for(b.path, c.path)
                if why:
                    used_exc.add((b.path, c.path))
                    ctx.ok(rule, key, c.where(), '%s - named exception: %s' % (cat, why))
                else:
                    ctx.violation(rule, key, c.where(), 'the error of %s is %s (%s): the entry disappears without a warning' % (c.path.rsplit('::', 1)[-1], cat, det))
            else:
                ctx.ok(rule, key, c.where(), cat)
        # closures that *receive* an io::Result (iterator items) and drop the error
        if b.kind == 'closure':
            for i in range(2, b.argc + 1):
                ty = b.local_ty(i)
                if is_result_ty(ty) and re.search(r'io::Error$', result_err_ty(ty) or ''):
                    n += 1
                    fate = classify_result(b, None, _local=i)
                    cat_, _ = err_handling(b, None, _fate=fate)
                    logged = cat_ == 'LOGGED' or arm_reaches_call(b, 0, LOG_CALL) or any(cc.f.get('local') and logs_transitively(cg, cc.path) for cc in b.calls())
                    key = '%s|param:%s' % (b.path, ty)
                    if ('DISCARDED' in fate.kinds or 'PANICS' in fate.kinds) and not logged:
                        why = exception_for(b.path, 'param')
                        if why:
                            ctx.ok(rule, key, b.where(), 'named exception: ' + why)
                        else:
                            ctx.violation(rule, key, b.where(), 'a closure receives %s items and drops the errors silently (%s): unreadable directory entries vanish without a warning' % (ty, '; '.join(fate.notes)))
                    else:
                        ctx.ok(rule, key, b.where(), 'io::Result item handled (%s%s)' % (','.join(sorted(fate.kinds)), ', logs' if logged else ''))
    ctx.floor(rule, 'io::Result sites on the group path', n, 80)
    ctx.stats[rule + ':exceptions-used'] = len(used_exc)


def r2(ctx, lib):
    rule = 'C15.R2'
    for fn, inner in (("hasher::FileHasher::<'_>::hash_file_or_log_err", r'hash_file$'), ("hasher::FileHasher::<'_>::hash_transformed_or_log_err", r'hash_transformed$'), ('file::file_info_or_log_err', r'FileInfo::new$')):
        b = ctx.need_body(rule, fn)
        if b is None:
            continue
        cs = b.calls(inner)
        if not cs:
            ctx.missing(rule, '%s call in %s' % (inner, fn), b.where())
            continue
        sw = switch_on_result_of(b, cs[0])
        if sw is None:
            ctx.violation(rule, fn, cs[0].where(), 'the result is not matched')
            continue
        ok_some = all('Some' in return_variants_from(b, o) for o in sw['ok'])
        err_none = all(return_variants_from(b, e) <= {'None'} for e in sw['err'])
        # the Err side logs unless the kind is NotFound
        logs = any(arm_reaches_call(b, e, LOG_CALL) for e in sw['err'])
        from ..analysis import slice_const_values, comparisons
        nf = False
        for cmp in comparisons(b):
            vals = slice_const_values(lib, backslice(b, [cmp.a])) + slice_const_values(lib, backslice(b, [cmp.b]))
            if any('ErrorKind::NotFound' in (v or '') for v in vals):
                nf = True
            other = [v for v in vals if v and 'ErrorKind::' in v and 'NotFound' not in v]
            if other:
                ctx.violation(rule, fn + '|silent-kinds', b.where(cmp.line), 'errors of kind %s are dropped silently too' % other)
        ctx.check(ok_some and err_none and logs, rule, fn, cs[0].where(), 'Ok -> Some, Err -> warning%s -> None' % (' (silent only for NotFound)' if nf else ''),
                  'Ok->Some=%s, Err->None=%s, Err logs=%s' % (ok_some, err_none, logs))


def r2_stages(ctx, lib):
    """in every stage the hash closure yields None whenever the hash could not be computed"""
    rule = 'C15.R2'
    from .c01 import hash_closure_of
    n = 0
    for st in ('group_transformed', 'group_by_prefix', 'group_by_suffix', 'group_by_contents'):
        b, rh, hc = hash_closure_of(lib, st)
        if hc is None:
            ctx.missing(rule, 'hash closure of ' + st)
            continue
        hf = hc.calls(r'hash_file_or_log_err$|hash_transformed_or_log_err$')
        if not hf:
            ctx.missing(rule, 'hash call in the closure of ' + st, hc.where())
            continue
        n += 1
        ctx.fn(hc)
        H = hf[0]
        rs = backslice(hc, [0])
        # the returned Option is the call result itself or its Option::map; no Some(..) is built on the None side
        via_map = [c for c in hc.calls(r'Option(::)?<.*>::(map|and_then)$') if H in backslice(hc, [c.args[0]]).calls]
        direct = H.dest[0] == 0 or (H in rs.calls and not [c for c in rs.calls if c.matches(r'unwrap_or|or_else|Option(::)?<.*>::or$|get_or_insert|map_or')])
        somes = aggregates(hc, 'option::Option', 'Some')
        # a Some built in this closure must be dominated by the Some-arm of a match on the hash result
        bad_some = []
        if somes:
            for bi, s_ in somes:
                ok_arm = False
                for (bbx, idx, what) in hc.operand_uses(H.dest[0]):
                    if what[0] == 'stmt' and what[1]['rv']['k'] == 'disc' and not what[1]['rv']['p'][1]:
                        for (b2, i2, w2) in hc.operand_uses(what[1]['p'][0]):
                            if w2[0] == 'switch':
                                m = dict(zip(w2[1]['vals'], w2[1]['tgts']))
                                some_t = m.get(1, w2[1]['tgts'][-1])
                                if hc.dominates(some_t, bi):
                                    ok_arm = True
                if not ok_arm:
                    bad_some.append(bi)
        good = direct and not bad_some and (H.dest[0] == 0 or via_map or H in rs.calls)
        ctx.check(good, rule, '%s|none-stays-none' % hc.path, H.where(), '%s: a failed hash stays None (the file leaves the stage)' % st,
                  '%s: when the hash cannot be computed the closure still yields Some(..): a file that was not read completely stays in the group under its old key and can be reported' % st)
    ctx.floor(rule, 'stage hash closures', n, 4)


EXC_R3 = [
    (r'^file::FileHash::u128_prefix$', r'expect$', 'in-memory buffer'),
    (r'^<file::FileHash as std::convert::From<u128>>::from$', r'unwrap$', 'in-memory buffer'),
]


def r3(ctx, lib, cg):
    rule = 'C15.R3'
    reach = cg.reachable(['group::group_files'])
    n = 0
    for k in sorted(reach):
        b = cg.bodies[k]
        if '::test' in b.path or b.derived:
            continue
        for c in b.calls(r'Result(::)?<.*>::(unwrap|expect)$'):
            ty = (c.t.get('argtys') or [''])[0]
            et = result_err_ty(ty) or ''
            if not re.search(r'io::Error$|nix::errno::Errno$|error::Error$', et):
                continue
            n += 1
            exc = [w for brx, crx, w in EXC_R3 if re.search(_no_closure_numbers(brx).replace('closure#N', r'closure#\d+'), b.path) and re.search(crx, c.path)]
            key = '%s|%s' % (b.path, c.path.rsplit('::', 1)[-1])
            if exc:
                ctx.ok(rule, key, c.where(), 'named exception: ' + exc[0])
            else:
                ctx.violation(rule, key, c.where(), '%s on %s aborts the whole run when one file or directory fails' % (c.path.rsplit('::', 1)[-1], ty))
    ctx.stats[rule + ':reachable-bodies'] = len(reach)
    ctx.check(True, rule, 'scan', '-', '%d unwrap/expect sites on I/O results among %d reachable bodies' % (n, len(reach)))


def r4(ctx, lib, cg):
    rule = 'C15.R4'
    found = False
    for cp in lib.closures_of('group::update_file_locations'):
        cb = lib.body(cp)
        cs = cb.calls(r'FileInfo::fetch_physical_location$')
        if not cs:
            continue
        found = True
        ctx.fn(cb)
        sw = switch_on_result_of(cb, cs[0])
        if sw is None or not sw['err']:
            ctx.violation(rule, cp, cs[0].where(), 'the extent lookup result is not matched')
            continue
        logs = False
        aborts = False
        for e in sw['err']:
            for x in cb.reachable(e):
                cc = cb.call_at(x)
                if cc is not None and (cc.matches(LOG_CALL) or (cc.f.get('local') and logs_transitively(cg, cc.path))):
                    logs = True
                if cc is not None and cc.matches(r'panic|process::exit|unwrap$|expect$'):
                    aborts = True
                if cb.blocks[x]['term']['k'] == 'call' and cb.blocks[x]['term']['ret'] is None:
                    aborts = True
        ctx.check(logs and not aborts, rule, cp, cs[0].where(), 'a failed extent lookup is reported and processing continues', 'extent lookup failure: logs=%s aborts=%s' % (logs, aborts))
    if not found:
        ctx.missing(rule, 'fetch_physical_location call in update_file_locations')


def r5(ctx, lib):
    rule = 'C15.R5'
    from ..analysis import backslice
    tn = ctx.need_body(rule, 'transform::Transform::new')
    bc = ctx.need_body(rule, 'transform::build_command')
    if tn is None or bc is None:
        return
    probe = tn.calls(r'^std::process::Command::new$')
    run = bc.calls(r'^std::process::Command::new$')
    if not ctx.floor(rule, 'Command::new in Transform::new (probe) and build_command (run)', min(len(probe), len(run)), 1, tn.where()):
        return
    sl = backslice(tn, [probe[0].args[0]])
    base = [c for c in sl.calls if c.matches(r'(Path|PathBuf)::file_name$|::file_stem$')]
    for c in sl.calls:          # ... or inside a closure handed to an adaptor on the way (and_then(|p| PathBuf::from(p).file_name()))
        for a in c.args:
            l = op_local(a)
            cp = lib.closure_of_type(tn.local_ty(l)) if l is not None else None
            cb = lib.body(cp) if cp else None
            if cb is not None:
                base += cb.calls(r'(Path|PathBuf)::file_name$|::file_stem$')
    from_cmd = sl.has_call(r'transform::parse_command$')
    ctx.check(from_cmd and not base, rule, 'transform::Transform::new|probe-same-program', probe[0].where(),
              'the probe spawns the first word of the parsed command, as build_command does',
              'the start-up probe spawns %s: `--transform /nonexistent/dir/cat` passes the probe (a `cat` exists on $PATH), every later launch fails with NotFound, which '
              'hash_transformed_or_log_err takes for a vanished file: all files are dropped without a warning and the run ends successfully with an empty report; a program given by a path '
              'that is not on $PATH is rejected instead' % ('the base name of the program (file_name), looked up on $PATH' if base else 'something not derived from the command'))
    # the silent arm exists and is keyed by NotFound only
    h = lib.body("hasher::FileHasher::<'_>::hash_transformed_or_log_err")
    if h is None:
        ctx.missing(rule, 'hash_transformed_or_log_err')
    else:
        # NotFound can come from anywhere in the transform pipeline (the program removed or renamed its input: gzip $IN; the temporary copy;
        # the output file), so the silent exit additionally needs a test that the scanned file itself is gone
        from ..analysis import slice_const_values
        warn = [c for c in h.calls() if c.matches(LOG_CALL)]
        nf = [kc for kc in h.calls(r'ErrorKind as std::cmp::PartialEq>::eq$') if any(str(v).endswith('ErrorKind::NotFound') for a in kc.args for v in slice_const_values(lib, backslice(h, [a])))]
        probe = [c for c in h.calls(r'^std::path::Path::(exists|try_exists|metadata|symlink_metadata|is_file)$|^std::fs::(metadata|symlink_metadata)$') if 'path' in backslice(h, [c.args[0]]).field_names()]
        guarded = False
        for c in probe:
            # the probe result decides between the silent exit and the warning
            for (bbx, idx, what) in h.operand_uses(c.dest[0]):
                pass
            guarded = guarded or any(w.bb in h.reachable(c.bb) for w in warn)
        ctx.check(bool(nf) and bool(probe) and guarded, rule, h.path + '|silent-only-if-the-file-is-gone', (nf[0].where() if nf else h.where()),
                  'a NotFound error is passed over silently only when the scanned file itself no longer exists',
                  'every NotFound error of the transform pipeline is taken for a vanished input: a program that removes or renames the file it is given (`--in-place --transform "gzip $IN"`, mv, rm) '
                  'makes the re-open of the temporary fail with ENOENT, and every file - all perfectly readable - is dropped from the report without a single warning (exit 0, "Found 0 redundant files")')


def r11(ctx):
    rule = 'C15.R11'
    lib = ctx.lib
    from .common import rehash_core_path
    task = None
    for cp in lib.closures_of(rehash_core_path(lib)):
        cb = lib.body(cp)
        if cb.calls(r'Sender<.*>::send$|Sender::<T>::send$'):
            task = cb
    if task is None:
        ctx.missing(rule, 'hashing task of rehash')
        return
    rm = [c for c in task.calls(r'Vec<.*>::remove$|Vec::<T, A>::remove$|Vec<.*>::swap_remove$|VecDeque.*::pop_front$')]
    if not rm:
        ctx.ok(rule, task.path + '|file-level-failure-not-retried', task.where(), 'no path is tried after another (one attempt per file)')
        return
    ok = False
    for c in rm:
        for d in task.dominators()[c.bb]:
            t = task.blocks[d]['term']
            if t['k'] != 'switch':
                continue
            sl = backslice(task, [t['op']])
            if sl.has_call(r'^file::FileId::new$|FileMetadata::new$|^std::fs::(metadata|symlink_metadata)$|Path::exists$|try_exists$'):
                ok = True
    ctx.advise(ok, rule, task.path + '|file-level-failure-not-retried', rm[0].where(), 'the next path of a file is tried only when the failed path no longer leads to that file',
              'when the hash of fg[0] cannot be computed, fg[0] is removed and the next hard link is tried, whatever the failure was: "file length changed since the file was scanned", a read error, '
              'a file mode that forbids reading are properties of the inode, so every one of the N paths reads the whole file again and fails the same way - a 64 MiB file with 8 hard links that '
              'was appended to costs 640 MiB of reads and 9 identical warnings')

"""C08 - dedupe obeys keep/drop patterns, priorities, link sets and -n."""
import re
from . import register
from .c20 import follow_to_params
from ..analysis import (backslice, aggregates, agg_field, switch_targets_bool, count_nots, closure_creation, forward_locals,
                        direct_field, direct_def, base_named_local, truth_table, table_equals, field_writes, comparisons)
from ..facts import const_int, op_local, op_place, op_const, const_val, const_bool, rvalue_operands, rvalue_places, place_fields

DOC = {
    'explanation': 'Decided clauses of the keep/drop selection: the retain predicate of partition() folds to should_keep OR NOT may_drop (R1); the sub-group quantifiers are any/all and the '
                   'path-level predicates combine name and path patterns as documented (R2); priorities are applied last-to-first with stable sorts only (R3); sub-grouping uses the '
                   'isolate roots and !match_links (R4); run_dedupe inherits the header settings monotonically (R5); every explicitly typed clap value parser produces the type its '
                   'accessor reads (R6); the n inherited from the group command is the user\'s --rf-over even with --transform (R7); the top-up to n counts sub-groups (R8 = C02.R1).',
    'rules': {
        'C08.R1': 'partition: retain(g) = g.should_keep(config) || !g.may_drop(config) (truth table of the closure given to Iterator::partition)',
        'C08.R2': 'FileSubGroup::should_keep = any(should_keep(path)); may_drop = all(may_drop(path)); should_keep(path) = any keep-name || any keep-path; may_drop(path) = (no name patterns || any name) && (no path patterns || any path) - both options are restrictions, as in group',
        'C08.R3': 'priorities applied in reverse order (iter().rev()) with stable sorts only; priorities that are not sorts by a key (top/bottom: reverse / keep the current order) are applied to the report order only - the list is cut after the first of them',
        'C08.R4': 'FileSubGroup::group(files, &config.isolated_roots, !config.match_links)',
        'C08.R5': 'run_dedupe: no_check_size |= transform.is_some(); match_links |= header; rf_over defaulted only when None; isolated_roots defaulted only when empty and the header had --isolate; get_command_config re-bases on header.base_dir',
        'C08.R6': 'for every explicitly typed value_parser: <P as TypedValueParser>::Value == the T of remove_one::<T>/remove_many::<T> for the same argument id',
        'C08.R7': 'GroupConfig::rf_over() does not depend on `transform`',
        'C08.R11': 'the order that decides which replicas are kept by default, and that --priority top / bottom refer to, is the order of the report: FileSubGroup::group puts the root groups first, so partition restores the input order with a stable sort keyed by the original position (recorded before grouping) before the priorities are applied and the keep/drop split is made',
        'C08.R12': 'a --keep-path / --path pattern protects / selects the files it names also when the directory in it is spelled through a symbolic link: the patterns of the dedupe commands pass abs_pattern, which resolves the literal directory of the pattern (re-evaluates C09.R17)',
        'C08.R10': 'the path patterns of the dedupe commands (--path, --keep-path) are matched against the absolute reported paths, so - like the path patterns of group (PathSelector::include_paths / exclude_paths) - they pass abs_pattern (anchoring of relative patterns at the working directory) on every path to dedupe(); sibling agreement between the two commands',
        'C08.R9': 'the isolate roots that reach partition - inherited from the header or given on the dedupe command line - are in the canonical form of the reported paths (re-evaluates C06.R6)',
        'C08.R8': 'the top-up to n counts retained sub-groups (re-evaluates C02.R1)',
    },
    'not_decided': 'glob semantics (C16); real timestamps and ties between them',
    'assumptions': ['slice::sort_by_key and slice::reverse are stable/deterministic'],
}


@register('C08', DOC)
def run(ctx):
    r1(ctx)
    r2(ctx)
    r3(ctx)
    r3b(ctx)
    from .common import reevaluate
    from . import c06
    reevaluate(ctx, 'C08.R9', c06.r6)
    r10(ctx)
    from . import c09
    reevaluate(ctx, 'C08.R12', c09.r17)
    r12b(ctx)
    r11(ctx)
    r4(ctx)
    r5(ctx)
    r6(ctx)
    r7(ctx)
    r8(ctx)


def r1(ctx):
    rule = 'C08.R1'
    lib = ctx.lib
    b = ctx.need_body(rule, 'dedupe::partition')
    if b is None:
        return
    part = b.calls(r'Iterator::partition$')
    if not ctx.floor(rule, 'Iterator::partition in partition()', len(part), 1, b.where()):
        return
    pc = part[0]
    l = op_local(pc.args[1])
    clos = None
    for cp in lib.closures_of(b.path, recursive=False):
        cr = closure_creation(lib, cp)
        if cr and l in forward_locals(b, cr[2]['p'][0]):
            clos = lib.body(cp)
    if clos is None:
        ctx.missing(rule, 'predicate closure of Iterator::partition', pc.where())
        return
    ctx.fn(clos)
    atoms = {}
    for c in clos.calls():
        if c.matches(r'FileSubGroup<.*>>::should_keep$|::should_keep$'):
            atoms['should_keep'] = c.bb
        elif c.matches(r'::may_drop$'):
            atoms['may_drop'] = c.bb
    if set(atoms) != {'should_keep', 'may_drop'}:
        ctx.violation(rule, clos.path + '|predicate', clos.where(), 'the retain predicate does not consult both should_keep and may_drop (atoms: %s)' % sorted(atoms))
        return
    tt = truth_table(clos, atoms)
    ok, why = table_equals(tt, lambda a: a['should_keep'] or not a['may_drop'])
    ctx.check(ok, rule, clos.path + '|predicate', clos.where(), 'retain = should_keep || !may_drop  [%s]' % why, 'the retain predicate differs: %s' % why)
    # both are asked of the sub-group itself with the dedupe config
    for c in clos.calls(r'::should_keep$|::may_drop$'):
        ok = 2 in backslice(clos, [c.args[0]]).params and any(n == 'config' for _, n in backslice(clos, [c.args[1]]).upvars)
        ctx.check(ok, rule, clos.path + '|' + c.path.rsplit('::', 1)[-1] + '-args', c.where(), 'asked of the sub-group, with config', 'wrong receiver/config')
    # which half is which: (to_retain, to_drop) = partition(..): field 0 = predicate true
    res = aggregates(b, 'dedupe::PartitionedFileGroup')
    if res:
        s = res[0][1]
        kl = base_named_local(b, agg_field(s, 'to_keep')) if False else None
        ksl, dsl = backslice(b, [agg_field(s, 'to_keep')]), backslice(b, [agg_field(s, 'to_drop')])
        # the local that holds tuple field 0 of the partition result feeds to_keep
        f0 = f1 = None
        for blk in b.blocks:
            for st in blk['stmts']:
                if st['rv']['k'] == 'use':
                    p = op_place(st['rv']['op'])
                    if p and p[0] == pc.dest[0] and p[1] and isinstance(p[1][0], list) and p[1][0][0] == 'F':
                        if p[1][0][1] == 0:
                            f0 = st['p'][0]
                        elif p[1][0][1] == 1:
                            f1 = st['p'][0]
        ok = f0 in ksl.locals and f1 in dsl.locals and f1 not in ksl.locals - {f1} or (f0 in ksl.locals and f1 in dsl.locals)
        ctx.check(bool(ok), rule, b.path + '|halves', b.where(s['line']), 'predicate-true half -> to_keep, the other -> to_drop', 'the halves of the partition are swapped or mixed')


def any_all_atoms(body, names):
    """atoms for is_empty()/any()/all() calls by the field they are applied to"""
    atoms = {}
    for c in body.calls():
        last = c.f.get('method') or c.path.rsplit('::', 1)[-1]
        if last in ('is_empty', 'any', 'all'):
            f = backslice(body, [c.args[0]]).field_names() & set(names)
            if f:
                atoms['%s.%s' % (sorted(f)[0], last)] = c.bb
    return atoms


def r2(ctx):
    rule = 'C08.R2'
    lib = ctx.lib
    for name, quant in (('should_keep', 'any'), ('may_drop', 'all')):
        bs = [b for b in lib.bodies.values() if re.search(r'FileSubGroup<P>>::%s$' % name, b.path) and '::test' not in b.path]
        if not bs:
            ctx.missing(rule, 'fn FileSubGroup::' + name)
            continue
        b = bs[0]
        ctx.fn(b)
        q = [c for c in b.calls(r'Iterator::(any|all)$|::any$|::all$')]
        good = len(q) == 1 and (q[0].f.get('method') or q[0].path.rsplit('::', 1)[-1]) == quant and 'files' in backslice(b, [q[0].args[0]]).field_names()
        inner = [lib.body(p) for p in lib.closures_of(b.path)]
        good = good and any(ib.calls(r'^dedupe::%s$' % name) for ib in inner) and q[0].dest[0] == 0
        nots = sum(count_nots(ib, backslice(ib, [0])) for ib in inner) + count_nots(b, backslice(b, [0]))
        ctx.check(good and nots == 0, rule, b.path + '|quantifier', b.where(), '%s = files.%s(%s(path))' % (name, quant, name), 'sub-group %s is not files.%s(%s)' % (name, quant, name))
    sk = ctx.need_body(rule, 'dedupe::should_keep')
    if sk is not None:
        # atoms: any over keep_name_patterns (in the fn) and the result of the path closure
        atoms = {}
        for c in sk.calls():
            last = c.f.get('method') or c.path.rsplit('::', 1)[-1]
            if last == 'any' and 'keep_name_patterns' in backslice(sk, [c.args[0]]).field_names():
                atoms['name'] = c.bb
            if c.f.get('self_closure'):
                cb = lib.body(c.f['self_closure'])
                if cb and 'keep_path_patterns' in ''.join(sorted(set().union(*[backslice(cb, [x.args[0]]).field_names() for x in cb.calls(r'::any$')] or [set()]))):
                    atoms['path'] = c.bb
        if set(atoms) == {'name', 'path'}:
            tt = truth_table(sk, atoms)
            ok, why = table_equals(tt, lambda a: a['name'] or a['path'])
            ctx.check(ok, rule, sk.path + '|formula', sk.where(), 'should_keep(path) = any keep-name || any keep-path  [%s]' % why, 'should_keep differs: %s' % why)
        else:
            ctx.violation(rule, sk.path + '|formula', sk.where(), 'should_keep does not consult both keep_name_patterns and keep_path_patterns (atoms %s)' % sorted(atoms))
    md = ctx.need_body(rule, 'dedupe::may_drop')
    if md is not None:
        atoms = {}
        for c in md.calls():
            last = c.f.get('method') or c.path.rsplit('::', 1)[-1]
            if last == 'is_empty':
                f = backslice(md, [c.args[0]]).field_names() & {'name_patterns', 'path_patterns'}
                if f:
                    atoms[sorted(f)[0] + '.is_empty'] = c.bb
            if c.f.get('self_closure'):
                cb = lib.body(c.f['self_closure'])
                fields = set()
                for x in (cb.calls(r'::any$') if cb else []):
                    fields |= backslice(cb, [x.args[0]]).field_names()
                f = fields & {'name_patterns', 'path_patterns'}
                if f:
                    atoms[sorted(f)[0] + '.any'] = c.bb
        need = {'name_patterns.is_empty', 'path_patterns.is_empty', 'name_patterns.any', 'path_patterns.any'}
        if set(atoms) == need:
            tt = truth_table(md, atoms)
            # both options are documented as *restrictions* ("Restrict the set of files that can be removed ... to files with the name / path matching"),
            # and group combines the same pair with AND (PathSelector::matches_full_path): a file may be dropped iff it passes both
            ok, why = table_equals(tt, lambda a: (a['name_patterns.is_empty'] or a['name_patterns.any']) and (a['path_patterns.is_empty'] or a['path_patterns.any']))
            ctx.check(ok, rule, md.path + '|formula', md.where(), 'may_drop(path) = (no name patterns || any name) && (no path patterns || any path)  [%s]' % why,
                      'may_drop is not the conjunction of the two restrictions (%s): with `--name "*.jpg" --path "trash/**"` a file is droppable when it matches EITHER, so adding the second restriction '
                      'enlarges the set of removed files (keep/a.jpg and trash/d.txt are removed); `group --name .. --path ..` selects with AND' % why)
        else:
            ctx.violation(rule, md.path + '|formula', md.where(), 'may_drop atoms are %s' % sorted(atoms))
    # the leaf closures use Pattern::matches on the file name / matches_path on the path, un-negated
    n = 0
    for fn in ('dedupe::should_keep', 'dedupe::may_drop'):
        for cp in lib.closures_of(fn):
            cb = lib.body(cp)
            pm = cb.calls(r'pattern::Pattern::(matches|matches_path|matches_partially|matches_prefix)$')
            if pm:
                n += 1
                m = pm[0].path.rsplit('::', 1)[-1]
                rs = backslice(cb, [0])
                byname = rs.has_call(r'file_name_cstr$')
                # (both are the full, anchored match: matches_path takes a path, matches the same path as text - one of the names of the file)
                want = ('matches',) if byname else ('matches_path', 'matches')
                ctx.check(m in want and count_nots(cb, rs) == 0, rule, cp + '|leaf', pm[0].where(), 'Pattern::%s on the %s' % (m, 'file name' if byname else 'path'), 'leaf predicate uses %s (negations %d)' % (m, count_nots(cb, rs)))
    ctx.floor(rule, 'pattern leaf closures', n, 4)


def r3(ctx):
    rule = 'C08.R3'
    lib = ctx.lib
    b = ctx.need_body(rule, 'dedupe::partition')
    if b is not None:
        sp = b.calls(r'dedupe::sort_by_priority$')
        rev = b.calls(r'Iterator::rev$|::rev$')
        good = bool(sp and rev)
        if good:
            it = [c for c in b.calls(r'Iterator>::next$|Iterator::next$') if rev[0] in backslice(b, [c.args[0]]).calls]
            psl = backslice(b, [sp[0].args[1]])
            good = bool(it) and any(i in psl.calls for i in it) and 'priority' in backslice(b, [rev[0].args[0]]).field_names()
        ctx.check(good, rule, b.path + '|reverse-order', sp[0].where() if sp else b.where(), 'for priority in config.priority.iter().rev(): sort_by_priority(..)', 'priorities are not applied last-to-first')
        if sp:
            # the sorted slice is the sub-group vector later partitioned
            ctx.check('file_sub_groups' in {b.local_name(l) for l in backslice(b, [sp[0].args[0]]).locals}, rule, b.path + '|sorts-subgroups', sp[0].where(), 'sorts the sub-group vector', 'sort_by_priority is applied to something else')
    n = 0
    for fn in ('dedupe::sort_by_priority', 'util::try_sort_by_key'):
        fb = ctx.need_body(rule, fn)
        if fb is None:
            continue
        for c in fb.calls():
            last = c.f.get('method') or c.path.rsplit('::', 1)[-1]
            if ('sort' in last or last == 'reverse') and not c.f.get('local'):
                n += 1
                ctx.check('unstable' not in last and last in ('sort_by_key', 'sort_by', 'sort', 'reverse', 'sort_by_cached_key'), rule, '%s|%s' % (fn, last), c.where(), 'stable %s' % last, 'unstable or unknown sort %s: ties lose the order established by lower priorities' % last)
    ctx.floor(rule, 'sort/reverse calls in sort_by_priority + try_sort_by_key', n, 4)
    # a reversal combined with a sort of the same application is not a stable descending sort: ties come out
    # in reverse input order.  `reverse()` is only legitimate on its own (Priority::Top).
    from ..callgraph import CallGraph
    cg = CallGraph([lib])
    helpers = [k for k in cg.reachable(['dedupe::sort_by_priority']) if cg.bodies[k].file.endswith(('dedupe.rs', 'util.rs'))]

    def sorts(c):
        last = c.f.get('method') or c.path.rsplit('::', 1)[-1]
        if not c.f.get('local') and 'sort' in last:
            return True
        t = cg.target_of(c)
        if t and t in helpers and t != c.body.path:
            return any(sorts(x) for x in cg.bodies[t].calls())
        if t and t == 'dedupe::sort_by_priority':
            return True
        return False
    for k in helpers:
        hb = cg.bodies[k]
        revs = [c for c in hb.calls(r'slice::<impl \[T\]>::reverse$|::reverse$') if not c.f.get('local')]
        srt = [c for c in hb.calls() if sorts(c)]
        for r in revs:
            clash = [x for x in srt if x.bb in hb.reachable(r.bb) or r.bb in hb.reachable(x.bb)]
            ctx.check(not clash, rule, '%s|reverse-with-sort' % k, r.where(), 'reverse() stands alone (no sort of the same slice on its path)',
                      'reverse() is combined with %s on the same path: among replicas with equal keys the order established by the other priorities (and the report order) is inverted, so a different replica is kept' % (clash[0].path.rsplit('::', 1)[-1] if clash else ''))


def r3b(ctx):
    """priorities that are not stable sorts by a key (reverse / keep-as-is: they refer to the report order and leave no ties) are applied to the original order only"""
    rule = 'C08.R3'
    lib = ctx.lib
    sp = ctx.need_body(rule, 'dedupe::sort_by_priority')
    pt = ctx.need_body(rule, 'dedupe::partition')
    if sp is None or pt is None:
        return
    from ..analysis import variant_arms
    arms = variant_arms(sp, lib, of_local=2)
    if not arms:
        ctx.missing(rule, 'match on Priority in sort_by_priority', sp.where())
        return
    sw, amap, other = arms[0]
    nonsort = set()
    for v, tgt in amap.items():
        region = sp.reachable(tgt, avoid=[t for vv, t in amap.items() if t != tgt])
        srt = [c for x in region for c in [sp.call_at(x)] if c is not None and re.search(r'sort', c.path.rsplit('::', 1)[-1])]
        if not srt:
            nonsort.add(v)
    ctx.note(rule, sp.where(), 'priorities that are not sorts by a key: %s' % sorted(nonsort))
    if not nonsort:
        ctx.ok(rule, pt.path + '|order-total-first', pt.where(), 'every priority is a stable sort by a key')
        return
    # the closure in partition that recognises exactly these variants, used to cut the list
    adt = lib.adts.get('config::Priority') or {}
    names = [v['name'] if isinstance(v, dict) else v for v in adt.get('variants', [])]
    found = None
    for cp in lib.closures_of(pt.path):
        cb = lib.body(cp)
        for bi, blk in enumerate(cb.blocks):
            t = blk['term']
            if t['k'] != 'switch' or blk['cleanup']:
                continue
            dd = direct_def(cb, t['op'])
            if dd[0] == 'stmt' and dd[1]['rv']['k'] == 'disc' and 'Priority' in cb.local_ty(dd[1]['rv']['p'][0]):
                true_vals = set()
                for v, tgt in zip(t['vals'], t['tgts']):
                    for st in cb.blocks[tgt]['stmts']:
                        if st['p'][0] == 0 and const_bool(st['rv'].get('op') or {}) is True:
                            true_vals.add(names[v] if v < len(names) else str(v))
                found = (cp, true_vals)
    cut = [c for c in pt.calls(r'Iterator>::position$|Iterator::position$|Iterator>::take_while$|Iterator::take_while$')]
    sp_calls = pt.calls(r'dedupe::sort_by_priority$')
    ok = bool(found) and found[1] == nonsort and bool(cut) and bool(sp_calls) and any(c in backslice(pt, [sp_calls[0].args[1]]).calls for c in cut)
    ctx.check(ok, rule, pt.path + '|order-total-first', (sp_calls[0].where() if sp_calls else pt.where()),
              'the priority list is cut after the first of %s, so these are applied to the files in report order' % sorted(nonsort),
              'the priorities %s are implemented as reverse()/keep-as-is of the current order, which is the report order only when nothing was applied before: in a chain such as `--priority top '
              '--priority most-recently-modified` the later priority is applied first and `top` then reverses *its* result (keeps exactly the file that `top` alone drops first); %s' % (
                  sorted(nonsort), 'the list is not cut at the first of them' if not cut else 'the cut does not test exactly these variants (%s)' % (sorted(found[1]) if found else 'no test')))


def r4(ctx):
    rule = 'C08.R4'
    lib = ctx.lib
    b = ctx.need_body(rule, 'dedupe::partition')
    if b is None:
        return
    grp = b.calls(r'FileSubGroup.*::group$')
    if not ctx.floor(rule, 'FileSubGroup::group in partition', len(grp), 1, b.where()):
        return
    G = grp[0]
    roots = backslice(b, [G.args[1]])
    df = direct_field(b, G.args[2])
    ctx.check('isolated_roots' in roots.field_names(), rule, b.path + '|roots', G.where(), 'roots = config.isolated_roots', 'roots do not come from config.isolated_roots')
    ctx.check(df is not None and df[0] == 'match_links' and df[2], rule, b.path + '|group_by_id', G.where(), 'group_by_id = !config.match_links', 'group_by_id is not !config.match_links (%s)' % (df,))
    # keep/drop are decided per sub-group: the partition predicate runs over the result of group()
    part = b.calls(r'Iterator::partition$')
    if part:
        ctx.check(G in backslice(b, [part[0].args[0]]).calls, rule, b.path + '|whole-subgroups', part[0].where(), 'keep/drop sets are whole sub-groups', 'the keep/drop split does not run over the sub-groups')


def r5(ctx):
    rule = 'C08.R5'
    bn = ctx.bin
    b = bn.body('run_dedupe') if bn else None
    if b is None:
        ctx.missing(rule, 'fn run_dedupe (binary)')
        return
    ctx.fn(b)
    P = 'bin::run_dedupe'
    from ..analysis import bool_set_events, option_default_events
    for f, src in (('no_check_size', 'transform'), ('match_links', 'match_links')):
        evs = bool_set_events(b, f, 'DedupeConfig')
        if not ctx.floor(rule, 'write of dedupe_config.' + f, len(evs), 1, b.where()):
            continue
        bi, s, cond = evs[0]
        # `f |= header.src` or `if header.src { f = true }`: the option given on the command line is never switched off by the header
        good = cond is not None and src in cond.field_names() and all(c is not None for _, _, c in evs)
        ctx.check(good, rule, '%s|%s' % (P, f), b.where(s['line']), '%s is only switched on, by header.%s%s' % (f, src, '.is_some()' if src == 'transform' else ''), '%s is not OR-ed with the header setting' % f)
    evs = option_default_events(bn, b, 'rf_over', 'DedupeConfig')
    if ctx.floor(rule, 'write of dedupe_config.rf_over', len(evs), 1, b.where()):
        bi, vs, how = evs[0]
        src_ok = vs.has_call(r'GroupConfig::rf_over$')
        ctx.check(how in ('guarded-some', 'get_or_insert') and all(h != 'other' for _, _, h in evs) and src_ok, rule, P + '|rf_over', b.where(b.blocks[bi]['term']['line']), 'rf_over = Some(header.rf_over()) only when not given (%s)' % how,
                  'rf_over is overwritten although -n was given, or not taken from the header')
    ws = field_writes(b, 'isolated_roots', 'DedupeConfig')
    if ctx.floor(rule, 'write of dedupe_config.isolated_roots', len(ws), 1, b.where()):
        bi, s = ws[0]
        ge = gi = False
        for d in b.dominators()[bi]:
            t = b.blocks[d]['term']
            if t['k'] == 'switch':
                dd = direct_def(b, t['op'])
                if dd[0] == 'call' and dd[1].matches(r'::is_empty$'):
                    pl = direct_def(b, dd[1].args[0])
                    if pl[0] == 'place' and 'isolated_roots' in [e[2] for e in pl[1][1] if isinstance(e, list) and e[0] == 'F']:
                        tt, ft = switch_targets_bool(t)
                        ge = b.dominates(tt, bi)
                df = direct_field(b, t['op'])
                if df and df[0] == 'isolate' and not df[2]:
                    tt, ft = switch_targets_bool(t)
                    gi = b.dominates(tt, bi)
        vs = backslice(b, rvalue_operands(s['rv']))
        ctx.check(ge and gi and vs.has_call(r'GroupConfig::(input_paths\w*|root_paths)$'), rule, P + '|isolated_roots', b.where(s['line']), 'isolated_roots defaulted from the header paths only when empty and the header had --isolate', 'isolated_roots inheritance is not guarded by is_empty() && header.isolate')
    gc = bn.body('get_command_config')
    if gc is None:
        ctx.missing(rule, 'fn get_command_config (binary)')
    else:
        ws = field_writes(gc, 'base_dir', 'GroupConfig')
        good = bool(ws) and 'base_dir' in backslice(gc, rvalue_operands(ws[0][1]['rv'])).field_names() and 1 in backslice(gc, rvalue_operands(ws[0][1]['rv'])).params
        ctx.check(good, rule, 'bin::get_command_config|base_dir', gc.where(), 'group_config.base_dir = header.base_dir', 'the header base dir is not applied to the re-parsed command')
        tp = gc.calls(r'try_parse_from$')
        good = bool(tp) and 'command' in backslice(gc, [tp[0].args[0]]).field_names()
        ctx.check(good, rule, 'bin::get_command_config|reparse', gc.where(), 'Config::try_parse_from(&header.command)', 'the header command is not re-parsed')


def r6(ctx):
    rule = 'C08.R6'
    lib = ctx.lib
    n_typed = 0
    pairs = 0
    for b in lib.bodies.values():
        m = re.match(r'^<(.*) as clap::Args>::augment_args$', b.path)
        if not m:
            continue
        ty = m.group(1)
        acc = lib.body('<%s as clap::FromArgMatches>::from_arg_matches_mut' % ty)
        if acc is None:
            ctx.missing(rule, 'from_arg_matches_mut of ' + ty)
            continue
        ctx.fn(b, acc)
        acc_ty = {}
        for c in acc.calls(r'ArgMatches::(remove_one|remove_many|get_one|get_many|try_remove_one|try_remove_many)$'):
            ids = [k.get('v') for k in backslice(acc, [c.args[1]]).consts if k.get('ty', '').endswith('str')]
            if ids and c.f.get('gargs'):
                acc_ty[ids[0].strip('"').replace('const ', '').strip('"')] = (c.f['gargs'][0], c)
        for c in b.calls(r'Arg::value_parser$'):
            val = c.f.get('clap_value')
            if not val:
                continue          # type-erased parser inserted by the derive itself: consistent by construction
            sl = backslice(b, [c.args[0]])
            news = [x for x in sl.calls if x.matches(r'clap::Arg::new$')]
            ids = []
            for nw in news:
                ids += [k.get('v') for k in backslice(b, [nw.args[0]]).consts if k.get('ty', '').endswith('str')]
            if not ids:
                continue
            aid = ids[0].replace('const ', '').strip('"')
            n_typed += 1
            if aid not in acc_ty:
                ctx.violation(rule, '%s|%s' % (ty, aid), c.where(), 'no accessor found for argument %s' % aid)
                continue
            aty, ac = acc_ty[aid]
            pairs += 1
            norm = lambda t: re.sub(r'^std::|^core::', '', t)
            ctx.check(norm(val) == norm(aty), rule, '%s|%s' % (ty, aid), c.where(), '--%s: parser yields %s, accessor reads %s' % (aid, val, aty),
                      '--%s: the value parser (%s) yields %s but the field is read as %s: clap panics ("Mismatch between definition and access") as soon as the option is given'
                      % (aid, c.f.get('clap_parser'), val, aty))
    ctx.floor(rule, 'explicitly typed value parsers', n_typed, 9)


def r7(ctx):
    rule = 'C08.R7'
    lib = ctx.lib
    b = ctx.need_body(rule, 'config::GroupConfig::rf_over')
    if b is None:
        return
    reads = set()
    for blk in b.blocks:
        for s in blk['stmts']:
            from ..facts import rvalue_places
            for p in rvalue_places(s['rv']):
                for e in p[1]:
                    if isinstance(e, list) and e[0] == 'F' and len(e) > 3 and e[3].endswith('GroupConfig'):
                        reads.add(e[2])
    ctx.check('transform' not in reads and 'rf_over' in reads, rule, b.path, b.where(), 'rf_over() reads %s' % sorted(reads),
              'rf_over() depends on `transform` (reads %s): with --transform the threshold silently becomes 0, so `group -n N --transform ..` followed by a dedupe command keeps max(1,0)=1 replica instead of N, and the replication filter is ineffective' % sorted(reads))


def r8(ctx):
    from . import c02
    before = len(ctx.obligations)
    c02.r1(ctx)
    for o in ctx.obligations[before:]:
        o['key'] = o['key'].replace(o['rule'] + '|', 'C08.R8|', 1)
        o['detail'] = '[%s] %s' % (o['rule'], o['detail'])
        o['rule'] = 'C08.R8'
    ctx.rules_run.add('C08.R8')


def r10(ctx):
    rule = 'C08.R10'
    lib, bn = ctx.lib, ctx.bin
    rd = bn.body('run_dedupe') if bn else None
    if rd is None:
        ctx.missing(rule, 'fn run_dedupe (binary)')
        return
    # the sibling: group anchors its path patterns
    sib = [lib.body(p) for p in ('selector::PathSelector::include_paths', 'selector::PathSelector::exclude_paths')]
    sib_ok = all(b is not None and any(cb.calls(r'PathSelector::abs_pattern$') for cb in [b] + [lib.body(c) for c in lib.closures_of(b.path)]) for b in sib)
    if not sib_ok:
        ctx.note(rule, '', 'group no longer anchors its path patterns with abs_pattern; nothing to agree with')
        return
    consumers = [c for c in rd.calls(r'(^|::)dedupe$|dedupe::dedupe$') if c.args]
    if not consumers:
        ctx.missing(rule, 'call of dedupe() in run_dedupe', rd.where())
        return
    # a call on the config that anchors both lists, dominating dedupe()
    anchored = set()
    site = consumers[0].where()
    for c in rd.calls():
        if not rd.dominates(c.bb, consumers[0].bb):
            continue
        canon = c.f.get('canon')
        cb = None
        if canon:
            for lb in lib.bodies.values():
                if lb.raw.get('canon') == canon:
                    cb = lb
        if cb is None:
            continue
        bodies = [cb] + [lib.body(x) for x in lib.closures_of(cb.path)]
        if not any(x.calls(r'PathSelector::abs_pattern$') for x in bodies):
            continue
        for x in bodies:
            for blk in x.blocks:
                for st in blk['stmts']:
                    for pl in [st['rv'].get('p')] + [o.get('m') or o.get('c') for o in (st['rv'].get('ops') or []) if isinstance(o, dict)]:
                        if pl:
                            for f in ('path_patterns', 'keep_path_patterns'):
                                if f in [e[2] for e in pl[1] if isinstance(e, list) and e[0] == 'F']:
                                    anchored.add(f)
                                    site = c.where()
    want = {'path_patterns', 'keep_path_patterns'}
    ctx.check(anchored >= want, rule, 'bin::run_dedupe|path-patterns-anchored', site, 'path_patterns and keep_path_patterns are anchored with abs_pattern before dedupe()',
              'the dedupe commands match %s verbatim against the absolute reported paths, while group anchors relative path patterns at the working directory: `remove --keep-path "d2/**"` '
              'protects nothing (d2/c is removed), `--path "d1/**"` removes nothing' % sorted(want - anchored))


def r11(ctx):
    rule = 'C08.R11'
    lib = ctx.lib
    b = ctx.need_body(rule, 'dedupe::partition')
    if b is None:
        return
    grp = b.calls(r'FileSubGroup.*::group$')
    part = b.calls(r'Iterator::partition$')
    if not grp or not part:
        ctx.missing(rule, 'FileSubGroup::group / Iterator::partition in partition', b.where())
        return
    G = grp[0]
    roots_used = 'isolated_roots' in backslice(b, [G.args[1]]).field_names()
    sorts = [c for c in b.calls(r'slice::<impl \[T\]>::(sort_by_key|sort_by|sort_by_cached_key)$|::(sort_by_key|sort_by|sort_by_cached_key)$') if b.dominates(G.bb, c.bb) and b.dominates(c.bb, part[0].bb)]
    ok = False
    site = G.where()
    for c in sorts:
        l = op_local(c.args[1]) if len(c.args) > 1 else None
        cp = lib.closure_of_type(b.local_ty(l)) if l is not None else None
        cr = closure_creation(lib, cp) if cp else None
        if not cr:
            continue
        pb, bi, st = cr
        # what the key closure captures: a table built from an enumeration made before the grouping
        for o in st['rv'].get('ops', []):
            sl = backslice(b, [o])
            enums = [k for k in sl.calls if k.matches(r'Iterator::enumerate$') and b.dominates(k.bb, G.bb)]
            if enums:
                ok = True
                site = c.where()
    ctx.check(ok or not roots_used, rule, b.path + '|report-order-restored', site, 'after sub-grouping the sub-groups are sorted back into the order of the input file (positions recorded before grouping)',
              'FileSubGroup::group returns the sub-groups of the isolated roots first, whatever their position in the report, and partition takes that for the order of the input file: with '
              '`remove --isolate r1` the first listed file a/f is removed and r1/f kept, and `--priority bottom` removes the top file')


def r12b(ctx):
    """The dedupe commands match --path / --keep-path against the files as `group` has seen them: below an input path that is a symbolic link a file
    has two names (the resolved one in the report, and the one below the input path as given); the header of the report says which."""
    rule = 'C08.R12'
    lib, bn = ctx.lib, ctx.bin
    rd = bn.body('run_dedupe') if bn else None
    if rd is None:
        ctx.missing(rule, 'bin::run_dedupe')
        return
    # (1) run_dedupe takes the aliases from the recorded group command
    stores = []
    for blk in rd.blocks:
        for st in blk['stmts']:
            if 'root_aliases' in place_fields(st['p']) or any(f.endswith('aliases') for f in place_fields(st['p'])):
                stores.append(st)
    from_group = [c for c in rd.calls(r'GroupConfig::\w+$') if any(st['rv']['k'] == 'use' and op_local(st['rv'].get('op') or {}) in (forward_locals(rd, c.dest[0]) | {c.dest[0]}) for st in stores)]
    # (2) both matchers look at every name of the path
    users = {}
    for fn in ('dedupe::should_keep', 'dedupe::may_drop'):
        b = lib.body(fn)
        if b is None:
            continue
        fields = set()
        for x in [b] + [lib.body(cp) for cp in lib.closures_of(b.path)]:
            for blk in x.blocks:
                for st in blk['stmts']:
                    for pl in rvalue_places(st['rv']):
                        fields |= set(place_fields(pl))
        users[fn] = any(f.endswith('aliases') for f in fields)
    ok = bool(stores) and bool(from_group) and len(users) == 2 and all(users.values())
    # ... which covers the input paths that were ARGUMENTS of `group`: the header records the command line, not the list that `group --stdin` read. For
    # those the walk found the aliases (Walk::run registers every input path), but the report does not carry them to the dedupe commands
    hdr = lib.adts.get('report::ReportHeader') or {}
    hfields = [f for v in hdr.get('variants', []) for f, _ in v.get('fields', [])]
    ctx.check(any('alias' in f for f in hfields), rule, 'report::ReportHeader|aliases-of-stdin-paths-recorded', rd.where(),
              'the report header carries the aliases of the input paths that the walk found',
              'the dedupe commands learn the aliases of the input paths from the `group` command line recorded in the header; with `group --stdin` the header says just `fclones group --stdin`, so '
              '`find photos/ -type f | fclones group --stdin > rep; fclones remove --keep-path "ph*/originals/**" < rep` (photos -> disk) removes disk/originals/a.jpg, the file the user calls '
              'photos/originals/a.jpg and that `group --stdin --path "ph*/originals/**"` selects')
    ctx.check(ok, rule, 'bin::run_dedupe|dedupe-side-aliases', (from_group[0].where() if from_group else rd.where()),
              'run_dedupe takes the aliases of the input paths from the recorded group command (%s) and should_keep / may_drop match every name of a path' % (from_group[0].path.rsplit('::', 1)[-1] if from_group else '-'),
              'only `group` knows that a file below an input path that is a symbolic link has two names: the dedupe commands match --keep-path / --path against the reported (resolved) path only - with '
              '`photos -> ../disk/photos`, `group --path "*/originals/**"` selects photos/originals/a.jpg, but `remove --keep-path "*/originals/**"` does not keep it: the file the pattern names is removed')

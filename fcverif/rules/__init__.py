"""Rule registry: property id -> function(ctx)."""
import importlib

PROPS = ['C%02d' % i for i in range(1, 21)]
RULE_DOC = {}
REGISTRY = {}


def register(prop, doc):
    def deco(fn):
        REGISTRY[prop] = fn
        RULE_DOC[prop] = doc
        return fn
    return deco


def load_all():
    for p in PROPS:
        try:
            importlib.import_module('fcverif.rules.' + p.lower())
        except ModuleNotFoundError as e:
            if ('fcverif.rules.' + p.lower()) not in str(e):
                raise

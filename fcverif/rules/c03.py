"""C03 - every duplicate among the scanned files is reported, exactly once."""
import re
from . import register
from .common import rehash_core, rehash_core_path, rehash_rx
from ..analysis import (backslice, aggregates, agg_field, switch_targets_bool, count_nots, closure_creation, forward_locals,
                        direct_field, direct_def, base_named_local, switch_on_result_of, dominated_region)
from ..facts import op_local, op_place, op_const

DOC = {
    'explanation': 'Decided plumbing of the partition property: the stages of group_files consume each other\'s results in order (R1); intermediate stages filter permissively and '
                   'the last stage on every branch filters strictly (R2/R3); groups rejected by a stage\'s pre-filter are chained back into the stage output before the post-filter '
                   '(R4); a failed hash drops only the files of that inode and the loop over inode groups continues (R5); repeated path entries are collapsed by a global '
                   'uniqueness test keyed by the path, not by an adjacent-only dedup (R6); a length changed by the hash function reaches every path of the inode (R7 = C01.R6); '
                   'offset arithmetic in the stages is guarded (R8 = C13.R4).',
    'rules': {
        'C03.M': __import__('fcverif.rules.common', fromlist=['MANDATORY_TEXT']).MANDATORY_TEXT,
        'C03.R1': 'group_files: size -> same-path removal -> prefix -> suffix -> contents, each stage consuming the previous result',
        'C03.R2': 'intermediate stages filter with the permissive matches (re-evaluates C06.R3 intermediate clauses)',
        'C03.R3': 'the last stage on every branch filters with matches_strictly (re-evaluates C06.R3)',
        'C03.R4': 'rehash: groups rejected by the pre-filter are chained to the regrouped ones before the post-filter; every file of an accepted group is handed to the hashing threads',
        'C03.R5': 'hashing task: send only on Some(hash), for every remaining file of the inode group; a path that cannot be hashed is dropped alone and the next path of the inode is tried; when none can be hashed only that inode group is dropped',
        'C03.R6': 'deduplicate: repeated entries collapsed with unique_by(path hash) (global), never an adjacent-only dedup; entries bucketed by location are all re-emitted',
        'C03.R7': 'a FileInfo field changed by the hash function and used in the group key is propagated to every path of the inode (re-evaluates C01.R6)',
        'C03.R14': 'what the late examination of a passed group finds out is joined with what is known about the files of the same length and hash: the groups that the recursive regrouping returns are merged into the hashed groups by (file_len, file_hash), not appended as groups of their own',
        'C03.R13': 'duplicates are not missed because a hard link lent them the transform output of another path (re-evaluates C01.R14)',
        'C03.R12': 'a duplicate pair is not dropped by the replication filter because its two files are mistaken for one: file identity is the whole FileId wherever it is used (re-evaluates C01.R11)',
        'C03.R11': 'a readable file is never dropped silently by the transform stage: the only error passed over without a warning is NotFound for a file that is really gone (re-evaluates C15.R5)',
        'C03.R10': 'a stage never joins groups that an earlier stage has separated: the key the suffix stage regroups by identifies the pair (prefix hash, suffix hash) (re-evaluates C01.R3); with --skip-content-hash the merged group would be final, and under --unique / --rf-under both classes would vanish from the report',
        'C03.R9': 'the path identity key (Path::hash128, used by deduplicate, the visited set of the walk and the temp-file names) delimits the components it hashes: it delegates to a derived/std Hash impl or writes a length prefix / terminator next to every raw write',
        'C03.R8': 'offset subtraction in the stages is guarded (re-evaluates C13.R4)',
    },
    'not_decided': 'completeness of the directory walk (C09); hash determinism across threads; the external hash implementations',
    'assumptions': ['itertools::unique_by keeps the first of all equal keys; GroupMap keeps every added item'],
}


@register('C03', DOC)
def run(ctx):
    r1(ctx)
    r23(ctx)
    r4(ctx)
    r5(ctx)
    r6(ctx)
    r78(ctx)
    from .common import reevaluate
    from . import c01
    reevaluate(ctx, 'C03.R10', c01.r3)
    from . import c15
    reevaluate(ctx, 'C03.R11', c15.r5, ctx.lib)
    reevaluate(ctx, 'C03.R12', c01.r11)
    reevaluate(ctx, 'C03.R13', c01.r14)
    r14(ctx)
    from .common import run_mandatory
    run_mandatory(ctx, 'C03')


def r1(ctx):
    rule = 'C03.R1'
    lib = ctx.lib
    b = ctx.need_body(rule, 'group::group_files')
    if b is None:
        return
    chain = ['scan_files', 'group_by_size', 'remove_same_files', 'group_by_prefix', 'group_by_suffix', 'group_by_contents']
    calls = {}
    for st in chain:
        cs = b.calls(r'^group::%s$' % st)
        if not cs:
            ctx.missing(rule, 'call of %s in group_files' % st, b.where())
            return
        calls[st] = cs[0]
    for prev, nxt in zip(chain, chain[1:]):
        c = calls[nxt]
        # the data argument (the last Vec argument) derives from the previous stage's result, by moves only (plus &mut passes for in-place updates)
        dl = backslice(b, [c.args[-1]], follow_call=lambda cc: [] )
        ok = calls[prev].dest[0] in dl.locals
        ctx.check(ok and b.dominates(calls[prev].bb, c.bb), rule, '%s|%s->%s' % (b.path, prev, nxt), c.where(), '%s consumes the result of %s' % (nxt, prev), '%s does not consume the result of %s' % (nxt, prev))
    # transform branch
    gt = b.calls(r'^group::group_transformed$')
    dd = b.calls(r'^group::deduplicate$')
    if gt:
        sl = backslice(b, [gt[0].args[-1]], follow_call=lambda cc: [] if not cc.matches(r'collect|flatten|into_iter') else None)
        ok = calls['scan_files'].dest[0] in backslice(b, [gt[0].args[-1]]).locals
        ctx.check(ok and bool(dd) and b.dominates(dd[0].bb, gt[0].bb), rule, b.path + '|transform-branch', gt[0].where(), 'scan -> deduplicate -> group_transformed', 'the transform branch does not deduplicate the scanned files or does not consume them')


def r23(ctx):
    from . import c06
    before = len(ctx.obligations)
    c06.r3(ctx, 'C03.R3')
    for o in ctx.obligations[before:]:
        if o['key'].endswith('|intermediate'):
            o['key'] = o['key'].replace('C03.R3|', 'C03.R2|', 1)
            o['rule'] = 'C03.R2'
    ctx.rules_run.update({'C03.R2', 'C03.R3'})


def r4(ctx):
    rule = 'C03.R4'
    lib = ctx.lib
    b = ctx.need_body(rule, rehash_core_path(lib))
    if b is None:
        return
    part = b.calls(r'Iterator::partition$')
    ch = b.calls(r'Iterator::chain$|::chain$')
    fl = b.calls(r'Iterator::filter$|::filter$')
    if not (part and ch and fl):
        ctx.missing(rule, 'partition / chain / filter in rehash (%d/%d/%d)' % (len(part), len(ch), len(fl)), b.where())
        return
    P, C, F = part[0], ch[0], fl[0]
    # partition predicate = the pre-filter parameter; its two halves
    pre = backslice(b, [P.args[1]])
    ctx.check(any(b.local_name(p) == 'group_pre_filter' for p in pre.params), rule, b.path + '|split-by-prefilter', P.where(), 'groups are split by the stage pre-filter', 'the split is not made by the pre-filter')
    halves = {}
    for blk in b.blocks:
        for s in blk['stmts']:
            if s['rv']['k'] == 'use':
                p = op_place(s['rv']['op'])
                if p and p[0] == P.dest[0] and p[1] and isinstance(p[1][0], list) and p[1][0][0] == 'F':
                    halves[p[1][0][1]] = s['p'][0]
    # rejected half (field 1) is chained
    csl = backslice(b, [C.args[1]])
    ok = halves.get(1) in csl.locals
    ctx.check(ok, rule, b.path + '|rejected-chained', C.where(), 'groups rejected by the pre-filter are chained back unchanged', 'the groups rejected by the pre-filter are not passed through: their files disappear from the result')
    # the post filter runs after the chain (receiver of filter derives from chain result)
    fsl = backslice(b, [F.args[0]])
    ctx.check(C in fsl.calls, rule, b.path + '|filter-after-chain', F.where(), 'the post-filter sees regrouped and passed-through groups alike', 'the post-filter is applied before the rejected groups are chained back')
    psl = backslice(b, [F.args[1]])
    ctx.check(any(b.local_name(p) == 'group_post_filter' for p in psl.params), rule, b.path + '|post-filter', F.where(), 'filtered by the stage post-filter', 'not filtered by the stage post-filter')
    # the accepted half feeds partition_by_devices -> hashing
    pd = b.calls(r'group::partition_by_devices$')
    ok = bool(pd) and halves.get(0) in backslice(b, [pd[0].args[0]]).locals
    ctx.check(ok, rule, b.path + '|accepted-hashed', (pd[0].where() if pd else b.where()), 'every accepted group goes to the per-device hashing', 'the accepted groups are not all handed to the hashing threads')
    # regrouped result comes from the map that received every item
    rs = backslice(b, [0])
    gm = b.calls(r'GroupMap.*::new$')
    ctx.check(bool(gm) and gm[0].dest[0] in rs.locals, rule, b.path + '|result-from-groupmap', b.where(), 'the stage result is built from the GroupMap', 'the stage result is not built from the GroupMap')
    # per-device thread: no file is skipped except empty device buckets
    pdb = lib.body('group::partition_by_devices')
    if pdb is not None:
        ctx.fn(pdb)
        pushes = pdb.calls(r'Vec<.*>::push$|Vec::<T, A>::push$')
        ctx.check(bool(pushes), rule, pdb.path, pdb.where(), 'every file is pushed into its device bucket', 'partition_by_devices does not push every file')


def r5(ctx):
    rule = 'C03.R5'
    lib = ctx.lib
    task = None
    for cp in lib.closures_of(rehash_core_path(lib)):
        cb = lib.body(cp)
        if cb.calls(r'Sender<.*>::send$|Sender::<T>::send$'):
            task = cb
    if task is None:
        ctx.missing(rule, 'hashing task')
        return
    ctx.fn(task)
    send = task.calls(r'Sender<.*>::send$|Sender::<T>::send$')[0]
    hf = [c for c in task.calls() if not c.f.get('res') and c.f.get('method') in ('call', 'call_once', 'call_mut') and any(n == 'hash_fn' for _, n in backslice(task, [c.args[0]]).upvars)]
    nested = False
    if not hf:
        # iterator form: the hash function is called by a closure handed to a searching adaptor over the paths of the inode group
        inner = [cp for cp in lib.closures_of(task.path) for c in lib.body(cp).calls() if not c.f.get('res') and c.f.get('method') in ('call', 'call_once', 'call_mut')
                 and any(n == 'hash_fn' for _, n in backslice(lib.body(cp), [c.args[0]]).upvars)]
        ad = task.calls(r'Iterator::(find_map|find|position|any|map_while|try_for_each|try_fold)$')
        if inner and ad:
            hf, nested = [ad[0]], True
    if not hf:
        ctx.missing(rule, 'hash_fn invocation in the task', task.where())
        return
    H = hf[0]
    # match on the Option result
    some_t = none_t = None
    holders = forward_locals(task, H.dest[0]) | {H.dest[0]}
    for hl in holders:
        for (bbx, idx, what) in task.operand_uses(hl):
            if what[0] == 'stmt' and what[1]['rv']['k'] == 'disc' and what[1]['rv']['p'][0] == hl and not what[1]['rv']['p'][1]:
                dl = what[1]['p'][0]
                for (b2, i2, w2) in task.operand_uses(dl):
                    if w2[0] == 'switch':
                        t = w2[1]
                        m = dict(zip(t['vals'], t['tgts']))
                        st_ = m.get(1, t['tgts'][-1] if 1 not in m else None)
                        nt_ = m.get(0, t['tgts'][-1] if 0 not in m else None)
                        if st_ is not None and task.dominates(st_, send.bb):
                            some_t, none_t = st_, nt_
    ok = some_t is not None and task.dominates(some_t, send.bb) and (none_t is None or send.bb not in task.reachable(none_t))
    # a path of the inode that cannot be hashed does not take its siblings with it: the hash function is retried with the next path
    retried = nested or any(H.bb in task.reachable(x) for x in task.succs(H.bb))
    if nested:
        # the adaptor cannot take the failed paths out while it iterates: they have to be removed afterwards, before the files are sent
        rm = [c for c in task.calls(r'Vec<.*>::(remove|swap_remove|drain|split_off|retain)$|Vec::<T, A>::(remove|swap_remove|drain|split_off|retain)$') if c.bb in task.reachable(H.bb) and send.bb in task.reachable(c.bb)]
    else:
        rm = [c for c in task.calls(r'Vec<.*>::(remove|swap_remove|pop)$|Vec::<T, A>::(remove|swap_remove|pop)$|VecDeque.*::pop_front$') if H.bb in task.reachable(c.bb) and c.bb in task.reachable(H.bb)]
    ctx.check(retried and bool(rm), rule, task.path + '|next-path-on-failure', H.where(), 'when the hashed path fails it is removed from the inode group and the next path is hashed',
              ('the paths of an inode group are tried in turn, but the ones that failed stay in the group: they are sent on with the hash obtained through a sibling path, so a path that could not be '
               'opened is reported as a duplicate (and its warning contradicts the report)') if (retried and nested) else
              'only the first path of an inode group (hard links; with -S a link and its target) is ever opened: if that path vanished or became unreadable after the scan, all the other paths of the file '
              'are dropped with it - silently for a vanished path - although they exist and are readable (`snap1..3/data` removed during the run: `snap4/data` and `copy/b` are not reported)')
    ctx.check(ok, rule, task.path + '|send-only-on-some', send.where(), 'files are sent only when the hash is Some', 'files can be sent without a hash / or are not sent on Some')
    # every file of the inode group is sent: the loop iterates the whole `fg` vector; the send is in the loop body on every iteration
    it = [c for c in task.calls(r'IntoIterator>::into_iter$') if any(n == 'fg' for _, n in backslice(task, [c.args[0]]).upvars)]
    nx = task.calls(r'Iterator>::next$')
    ok = bool(it and nx)
    if ok:
        sw = None
        for (bbx, idx, what) in task.operand_uses(nx[0].dest[0]):
            if what[0] == 'stmt' and what[1]['rv']['k'] == 'disc':
                for (b2, i2, w2) in task.operand_uses(what[1]['p'][0]):
                    if w2[0] == 'switch':
                        sw = w2[1]
        if sw is None:
            ok = False
        else:
            m = dict(zip(sw['vals'], sw['tgts']))
            body_t = m.get(1)
            # from the loop body entry every path back to next() passes the send
            ok = body_t is not None and nx[0].bb not in task.reachable(body_t, avoid=[send.bb])
            lim = task.calls(r'Iterator::(skip|take|step_by|filter|skip_while|take_while)$')
            ok = ok and not lim
    ctx.check(ok, rule, task.path + '|all-files-of-inode', send.where(), 'every path of the inode group is sent on each iteration', 'some paths of an inode group can be skipped')
    # the sent item is the loop element with the new hash
    hs = [s for bi, s in __import__('fcverif.analysis', fromlist=['field_writes']).field_writes(task, 'file_hash', 'HashedFileInfo')]
    ctx.check(bool(hs), rule, task.path + '|hash-assigned', send.where(), 'the new hash is stored in every sent item', 'the sent items keep the old hash')
    # the feeding loop over inode groups continues regardless of the task outcome: the task is spawned, its result is not inspected
    feeder = lib.body(task.raw.get('parent'))
    if feeder is not None:
        sp = feeder.calls(r'ThreadPool::spawn(_fifo)?$')
        gb = feeder.calls(r'::group_by$|::chunk_by$')
        ctx.check(bool(sp) and bool(gb), rule, feeder.path + '|per-inode-task', (sp[0].where() if sp else feeder.where()), 'one task per inode group', 'tasks are not spawned per inode group')


def r6(ctx):
    rule = 'C03.R6'
    lib = ctx.lib
    b = ctx.need_body(rule, 'group::deduplicate')
    if b is None:
        return
    ub = b.calls(r'Itertools::unique_by$|::unique_by$|Itertools::unique$')
    adj = b.calls(r'::dedup(_by|_by_key|_with_count|_by_with_count)?$')
    ctx.check(bool(ub) and not adj, rule, b.path + '|global-uniqueness', (ub[0].where() if ub else (adj[0].where() if adj else b.where())),
              'repeats are removed by unique_by (all equal keys, wherever they are)',
              'repeats are removed by %s, which only collapses *adjacent* equal entries: with several hard links reached through repeated/overlapping roots the bucket is [a, b, a, b] and every path is listed twice' % (adj[0].path.rsplit('::', 1)[-1] if adj else 'nothing'))
    if ub:
        l = op_local(ub[0].args[1]) if len(ub[0].args) > 1 else None
        keyed = False
        for cp in lib.closures_of(b.path):
            cr = closure_creation(lib, cp)
            if cr and l is not None and l in forward_locals(lib.body(cr[0].path), cr[2]['p'][0]):
                kb = lib.body(cp)
                rs = backslice(kb, [0])
                keyed = 'path' in rs.field_names() and not (rs.field_names() & {'id', 'len', 'location', 'file_hash'})
        ctx.check(keyed, rule, b.path + '|keyed-by-path', ub[0].where(), 'uniqueness key = the path (or its hash)', 'the uniqueness key is not the path (distinct paths could be merged or repeats kept)')
    # all buckets are re-emitted: both arms extend `files`
    ext = b.calls(r'Extend.*>::extend$|Vec<.*>::extend$|::extend$')
    ctx.check(len(ext) >= 2 or (len(ext) == 1), rule, b.path + '|re-emitted', b.where(), 'every bucket is written back (%d extend sites)' % len(ext), 'buckets are not written back')
    gm = b.calls(r'GroupMap.*::add$')
    dr = b.calls(r'Vec<.*>::drain$|Vec::<T, A>::drain$')
    ctx.check(bool(gm and dr), rule, b.path + '|all-bucketed', b.where(), 'every entry is drained into a bucket', 'not every entry is bucketed')
    # callers: both branches of group_files deduplicate
    rsf = ctx.need_body(rule, 'group::remove_same_files')
    if rsf is not None:
        holders = [lib.body(p) for p in [rsf.path] + lib.closures_of(rsf.path) if lib.body(p).calls(r'^group::deduplicate$')]
        ok = bool(holders)
        why = 'remove_same_files does not call deduplicate'
        if ok:
            hb = holders[0]
            dc = hb.calls(r'^group::deduplicate$')[0]
            okp, off = hb.must_pass(0, lambda x: x == dc.bb)
            if not okp:
                ok = False
                why = ('deduplicate() is skipped on some path through %s (return at bb%s): repeated entries of one path survive whenever that condition misjudges the inputs '
                       '(e.g. a nested root given before its ancestor) and a file is counted as several replicas of itself' % (hb.path, off))
            elif hb.kind == 'closure':
                # the closure must be applied to every group: handed to update()/for_each()/map() on the whole group vector, unconditionally
                cr = closure_creation(lib, hb.path)
                par = lib.body(cr[0].path) if cr else None
                ad = [c for c in (par.calls(r'::(update|for_each|map|inspect)$') if par else []) if op_local(c.args[-1]) in forward_locals(par, cr[2]['p'][0])]
                okp2 = bool(ad) and all(par.must_pass(0, lambda x, a=a: x == a.bb)[0] for a in ad)
                if not okp2:
                    ok = False
                    why = 'the de-duplicating closure is not applied to the groups on every path'
                else:
                    gsl = backslice(par, [ad[0].args[0]])
                    if not any(par.local_name(p_) == 'groups' for p_ in gsl.params):
                        ok = False
                        why = 'the de-duplication does not run over the `groups` argument'
        ctx.check(ok, rule, rsf.path, rsf.where(), 'remove_same_files deduplicates every size group unconditionally', why)


def r78(ctx):
    from . import c01, c13
    before = len(ctx.obligations)
    c01.r6(ctx, 'C03.R7')
    ctx.rules_run.add('C03.R7')
    mid = len(ctx.obligations)
    c13.r4(ctx)
    for o in ctx.obligations[mid:]:
        o['key'] = o['key'].replace(o['rule'] + '|', 'C03.R8|', 1)
        o['detail'] = '[%s] %s' % (o['rule'], o['detail'])
        o['rule'] = 'C03.R8'
    ctx.rules_run.add('C03.R8')
    from .common import delimited_identity_hash
    uq = [c for b in [ctx.lib.body('group::deduplicate')] + [ctx.lib.body(x) for x in ctx.lib.closures_of('group::deduplicate')] if b is not None for c in b.calls(r'Path::hash128$')]
    if not uq:
        ctx.note('C03.R9', ctx.lib.body('group::deduplicate').where() if ctx.lib.body('group::deduplicate') else '', 'deduplicate does not key by Path::hash128 any more; R6 decides the key')
    delimited_identity_hash(ctx, 'C03.R9', 'path::Path::hash128')


def r14(ctx):
    rule = 'C03.R14'
    lib = ctx.lib
    core = rehash_core(lib)
    if core is None:
        ctx.missing(rule, 'group::rehash')
        return
    rec = [c for c in core.calls(rehash_rx(lib)) if c.path == core.path]
    if not rec:
        ctx.ok(rule, core.path + '|examined-groups-rejoin', core.where(), 'no group is regrouped apart from the others (no recursive regrouping)')
        return
    fl = forward_locals(core, rec[0].dest[0]) | {rec[0].dest[0]}
    chained = [c for c in core.calls(r'Iterator::chain$|::chain$') if any(op_local(a) in fl for a in c.args)]
    # the merge: a comparison of file_len and file_hash of two groups, in the core or in a closure of it
    cmp_ok = False
    by_map = False
    for x in [core] + [lib.body(cp) for cp in lib.closures_of(core.path, recursive=False)]:
        names = set()
        for c in x.calls(r'PartialEq.*>::(eq|ne)$|PartialEq::(eq|ne)$'):
            for a in c.args:
                names |= set(backslice(x, [a]).field_names())
        for blk in x.blocks:
            for st in blk['stmts']:
                if st['rv']['k'] == 'bin' and st['rv']['op'] in ('Eq', 'Ne'):
                    for o in (st['rv']['a'], st['rv']['b']):
                        names |= set(backslice(x, [o]).field_names())
        if {'file_len', 'file_hash'} <= names:
            cmp_ok = True
        # ... or a look-up in a map keyed by (file_len, file_hash)
        for c in x.calls(r'HashMap(::)?<.*>::(get|get_mut|entry|contains_key)$|BTreeMap(::)?<.*>::(get|get_mut|entry|contains_key)$'):
            kf = set()
            for a in c.args[1:]:
                kf |= set(backslice(x, [a]).field_names())
            if {'file_len', 'file_hash'} <= kf:
                cmp_ok = True
                by_map = True
    # merging E examined groups by a linear search over the groups of the stage costs E^2/2 comparisons: every file of a hard-linked snapshot tree is
    # such a group when a snapshot directory is rotated away during the run (--unique, --rf-under, -H)
    if cmp_ok and not chained:
        ctx.advise(by_map, rule, core.path + '|examined-groups-rejoin-by-key', rec[0].where(), 'the group of the same (file_len, file_hash) is found through a map',
                  'every examined group is merged with a linear search over all groups of the stage, and every group that finds no partner (practically always) is appended, so the searched vector '
                  'grows with each of them: 64000 hard-linked files whose snapshot directory is removed during `group --unique` take 28 s instead of 4 s (x15.6 for x4 files), a million about 15 minutes')
    ctx.check(cmp_ok and not chained, rule, core.path + '|examined-groups-rejoin', (chained[0].where() if chained else rec[0].where()),
              'the groups returned by the late examination are merged into the hashed groups of the same (file_len, file_hash)',
              'the groups that the late examination of a passed (single-inode) group returns are appended to the result as groups of their own: a path that was replaced during the run by a copy of a '
              'file of ANOTHER group gets the right hash but stays alone, and the singleton is dropped by the post-filter - t/b, identical to t/x and t/y when the report is written, is missing '
              '(with --unique it would be reported as unique)')

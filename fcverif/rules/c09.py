"""C09 - the scan selects exactly the files the options describe."""
import re
from . import register
from ..analysis import (return_variants_from, slice_const_values, backslice, comparisons, branch_of, dominated_region, closure_creation, forward_locals,
                        truth_table, table_equals, switch_targets_bool, count_nots, FLIP, NEG, upvar_operand)
from ..facts import const_int, op_local, op_const, const_val, place_fields, rvalue_places
from .common import stdin_paths_body

DOC = {
    'explanation': 'Necessary conditions of the selection semantics, decided on the walker and the selector: the depth guard reads a directory at nesting k iff k < --depth '
                   '(comparison operator, initial level and increment are extracted and normalised) (R1); the size filter is inclusive at both ends (R2); files are selected by '
                   'the full match (names, paths, excludes combined as documented) and directories are pruned only by the conservative partial match, never by name patterns (R3); '
                   'the visited set is consulted only under --follow-links and the hidden test looks at the first character of the file name (R4); relative path patterns are '
                   'anchored at the base directory (R5). Conservative pruning itself is C16; unreadable entries are C15.',
    'rules': {
        'C09.M': __import__('fcverif.rules.common', fromlist=['MANDATORY_TEXT']).MANDATORY_TEXT,
        'C09.R1': 'visit_dir: skip iff level - initial_level >= depth; children are visited at level + 1; roots at a constant initial level',
        'C09.R2': 'size filter: len >= min_size && len <= max_size (max defaults to FileLen::MAX)',
        'C09.R3': 'visit_file: consumer called iff matches_full_path; matches_full_path = (names empty or any name matches) and (paths empty or any path matches) and no exclude matches; matches_dir = (paths empty or any partial match) and no exclude prefix-matches; names are not consulted for directories',
        'C09.R4': 'visited set consulted only under follow_links; hidden = file name starts with "."; .gitignore consulted unless no_ignore',
        'C09.R5': 'include/exclude path patterns are made absolute with abs_pattern(base_dir, _); name patterns are not',
        'C09.R6': 'visit_dir reads a directory iff level < depth && matches_dir && (!one_fs || same_fs) (reach table over these atoms)',
        'C09.R15': 'with -L a directory is walked once, so the ignore rules applied below it must not depend on the route: the ignore stack handed to a link target is a function of the target, not of the directory that holds the link (visit_link must not pass its own stack on) - or a visit is recorded per (path, ignore stack), so that every route applies its own rules and none suppresses another, with IgnoreStack::push idempotent so that a cycle of links cannot grow the stack for ever',
        'C09.R14': 'the directory admission test (PathSelector::matches_dir: "could something below match?") is applied to directories only: its callers are visit_dir alone - applied to an input path or a link target that is a file it asks whether `file/...` is excluded and drops files that no pattern excludes',
        'C09.R13': 'ignore files as documented: IgnoreStack::push loads .gitignore and .fdignore of a directory independently of each other (neither is looked at only when the other is absent); IgnoreStack::matches lets the deepest ignore file that says anything decide (reverse iteration, a whitelist `!` match ends the search with "not ignored"), instead of "ignored by any level"',
        'C09.R18': 'the size limits mean what the user wrote: FileLen::from_str does not narrow the parsed number (u128) to u64 with a wrapping cast - a value that does not fit is refused',
        'C09.R17': 'sibling agreement of the three ways a user names a directory: input paths (Walk::absolute), isolate roots (canonical_root) and the literal directory at the beginning of a --path / --exclude / --keep-path pattern are all resolved to the canonical form the scanned paths have; abs_pattern canonicalizes the directory split off the pattern and keeps the spelled form as an alternative',
        'C09.R16': 'every input path is walked on its own at level 0: in the loop of Walk::run the only decisions that skip the spawn of visit_path are the stat failure and the directory-with-depth-0 case, each with a warning; no input path is left out because of another one',
        'C09.R12': 'input paths read from the standard input (--stdin) are taken as bytes, like paths given as arguments (OsString): no UTF-8-only reader (lines / read_line / read_to_string / String::from_utf8 + unwrap) between stdin and Path; an empty line is not a path (it would mean the working directory), an empty argument is rejected, and a line with a NUL byte is filtered out before Path::from (which unwraps CString::new) sees it',
        'C09.R11': 'marking an entry as visited (follow_links) does not cut off routes that would get further: the mark is made after the route-dependent .gitignore test, and either it records the nesting level (a directory reached again at a smaller level is read again) or it is made only after the --depth test passed; directories are marked in visit_dir after the route-specific pruning tests; a smaller level always re-visits (input paths are level 0)',
        'C09.R10': 'a --regex pattern is never joined with anchors (^...$) or with another pattern (base directory + relative pattern) without a grouping step for a top-level alternation: `^a|b$` means (^a)|(b$), which selects files that are not matched fully and makes the fixed prefix used for pruning the prefix of the first alternative only',
        'C09.R9': 'matches_dir prunes a directory because of an --exclude pattern only through a predicate that holds for the whole subtree: the regex match of the directory path is gated by a test that the pattern source ends with `.*` (`**`); a bare prefix or full match of the directory path is not conservative (`--exclude o` would prune `other/`)',
        'C09.R8': 'the visited set (follow_links) is keyed by a path identity hash that delimits the hashed components (re-evaluates C03.R9 on the key function found at the insert)',
        'C09.R7': 'visit_link: the link itself is reported iff it resolves to a file and report_links; the target is visited iff follow_links && (!one_fs || same_fs(target)) and the link was not reported; nothing happens when neither follow_links nor report_links',
    },
    'not_decided': '.gitignore semantics (external crate); symlink resolution on a real file system; completeness of the parallel traversal; glob semantics (C16)',
    'assumptions': ['roots are passed to the walker at nesting 0'],
}

W = "walk::Walk::<'a>::"


@register('C09', DOC)
def run(ctx):
    r1(ctx)
    r2(ctx)
    r3(ctx)
    r4(ctx)
    r5(ctx)
    r67(ctx)
    r8(ctx)
    r9(ctx)
    r10(ctx)
    r11(ctx)
    r11b(ctx)
    r12(ctx)
    r12b(ctx)
    r12c(ctx)
    r12d(ctx)
    r16(ctx)
    r17(ctx)
    r17b(ctx)
    r18(ctx)
    r13(ctx)
    r14(ctx)
    r15(ctx)
    from .common import run_mandatory
    run_mandatory(ctx, 'C09')


def visited_sites(lib, b):
    """[(call in b, body holding the access, access call)]: places where `b` consults/updates the `visited` collection, directly or through a local method"""
    out = []

    def direct(x):
        return [c for c in x.calls(r'::(insert|entry|contains|contains_key|get|get_mut)$') if c.args and 'visited' in backslice(x, [c.args[0]]).field_names()]
    for c in direct(b):
        out.append((c, b, c))
    for c in b.calls():
        if c.f.get('local') and c.path != b.path:
            m = lib.body(c.path)
            if m is not None and m.file.endswith('walk.rs'):
                for k in direct(m):
                    out.append((c, m, k))
    return out


def r8(ctx):
    """the visited set of the walk is keyed by a value computed from the entry path; that key must not merge distinct paths"""
    rule = 'C09.R8'
    from .common import delimited_identity_hash
    b = ctx.need_body(rule, W + 'visit_entry')
    if b is None:
        return
    sites = visited_sites(ctx.lib, b)
    if not sites:
        ctx.missing(rule, 'visited.insert in visit_entry', b.where())
        return
    ins = [k for _, _, k in sites]
    kb = {id(k): m for _, m, k in sites}
    keyfns = sorted({c.path for i in ins for c in backslice(kb[id(i)], [i.args[1]]).calls if c.f.get('local')})
    ctx.check(bool(keyfns), rule, b.path + '|visited-key', ins[0].where(), 'the visited set is keyed by %s' % keyfns, 'the visited set is keyed by something that no local function computes from the entry')
    for k in keyfns:
        if ctx.lib.body(k) is not None and (ctx.lib.body(k).calls(r'Hasher|Hash>::hash') or 'hash' in k):
            delimited_identity_hash(ctx, rule, k)


def r9(ctx, rule='C09.R9'):
    from .common import bypass_decisions
    from ..facts import const_val
    lib = ctx.lib
    md = ctx.need_body(rule, 'selector::PathSelector::matches_dir')
    if md is None:
        return
    bodies = [md] + [lib.body(c) for c in lib.closures_of(md.path)]
    # the sibling used when links are followed prunes by the exclude patterns only: the same predicate discipline applies
    mdl = lib.body('selector::PathSelector::matches_dir_following_links')
    if mdl is not None:
        bodies += [mdl] + [lib.body(c) for c in lib.closures_of(mdl.path)]
    preds = []
    for b in bodies:
        for c in b.calls(r'Iterator>::(all|any)$|Iterator::(all|any)$'):
            if 'excluded_paths' not in backslice(b, [c.args[0]]).field_names():
                continue
            cp = lib.closure_of_type(b.local_ty(op_local(c.args[1]))) if op_local(c.args[1]) is not None else None
            cb = lib.body(cp) if cp else None
            if cb is None:
                continue
            # (the predicate may be applied to each of several names of the directory: one closure further down)
            for xb in [cb] + [lib.body(x) for x in lib.closures_of(cb.path)]:
                for pc in xb.calls(r'^pattern::Pattern::\w+$'):
                    preds.append((xb, pc))
    if not ctx.floor(rule, 'exclude predicates in matches_dir', len(preds), 1, md.where()):
        return
    MATCH = r'regex::Regex::(is_match|is_partial_match)$|^pattern::Pattern::(matches|matches_prefix|matches_partially|matches_path)$'
    for cb, pc in preds:
        m = lib.body(pc.path)
        name = pc.path.rsplit('::', 1)[-1]
        if m is None:
            ctx.missing(rule, 'body of ' + pc.path, pc.where())
            continue
        matches = m.calls(MATCH)
        gated = []
        for mc in matches:
            ok = False
            for d, bypass in bypass_decisions(m, mc.bb):
                sl = backslice(m, [m.blocks[d]['term']['op']])
                for sc in sl.calls:
                    if sc.matches(r'str::<impl str>::(strip_suffix|ends_with)$') and any('.*' in (const_val(a) or '') for a in sc.args[1:]) and 'src' in backslice(m, [sc.args[0]]).field_names():
                        # the bypass side yields false
                        ok = True
            gated.append(ok)
        good = bool(matches) and all(gated)
        ctx.check(good, rule, '%s|exclude-prune|%s' % (md.path, name), pc.where(),
                  'directories are pruned by an exclude pattern through Pattern::%s, whose regex match is gated by `src` ending with `.*`' % name,
                  'directories are pruned by an exclude pattern through Pattern::%s, which %s: a pattern that matches (a prefix of) the directory path but not every path below it '
                  '(`--exclude o` against `other/`, `--exclude /a/b` against `/a/bcd/`) makes the walk skip files that the options select' % (
                      name, 'is a regex match not gated by a test that the pattern ends with `.*`' if matches else 'contains no regex match'))


def _all_consts(body):
    out = []
    for blk in body.blocks:
        for st in blk['stmts']:
            rv = st['rv']
            for o in ([rv.get('op')] if rv.get('op') and isinstance(rv.get('op'), dict) else []) + list(rv.get('ops') or []) + [rv.get(k_) for k_ in ('a', 'b') if isinstance(rv.get(k_), dict)]:
                v = const_val(o) if isinstance(o, dict) else None
                if v:
                    out.append(v)
        t = blk['term']
        if t['k'] == 'call':
            for a in t.get('args', []):
                v = const_val(a)
                if v:
                    out.append(v)
    return out


def _groups(lib, body, operand):
    """the value of `operand` passed a grouping step: a constant with an opening group in its slice, or a local callee that can wrap its argument in a group"""
    sl = backslice(body, [operand])
    from ..analysis import slice_const_values
    if any('(?:' in (v or '') or (v or '').strip('"').endswith('(') for v in slice_const_values(lib, sl)):
        return True
    for c in sl.calls:
        if c.f.get('local'):
            cb = lib.body(c.path)
            if cb is not None and any('(?:' in v for v in _all_consts(cb)):
                return True
    return False


def r15(ctx):
    rule = 'C09.R15'
    lib = ctx.lib
    vl = ctx.need_body(rule, W + 'visit_link')
    if vl is None:
        return
    vp = vl.calls(r"Walk::<'a>::visit_path$")
    if not vp:
        ctx.missing(rule, 'visit_path in visit_link', vl.where())
        return
    # the ignore-stack argument of visit_path: is it the parameter received by visit_link (the stack of the link's directory)?
    stack_args = [a for a in vp[0].args if 'IgnoreStack' in vl.local_ty(op_local(a) if op_local(a) is not None else 0)]
    inherited = any(backslice(vl, [a]).params and not backslice(vl, [a]).has_call(r'IgnoreStack::(new|empty|for_path|push)$') for a in stack_args)
    # the other way to make the result independent of the route: the route's rules are part of what "visited" means
    mv = lib.body(W + 'mark_visited')
    keyed = False
    if mv is not None:
        for x in [mv] + [lib.body(cp) for cp in lib.closures_of(mv.path)]:
            for k in x.calls(r'DashMap<.*>::entry$|DashMap::<K, V, S>::entry$|::entry$|DashSet.*::insert$'):
                ksl = backslice(x, [k.args[-1]])
                if ksl.has_call(r'path::Path::hash128$') and any('IgnoreStack' in x.local_ty(p_) for p_ in ksl.params) and ksl.has_call(r'IgnoreStack::\w+$'):
                    keyed = True
    if keyed:
        ctx.ok(rule, vl.path + '|target-stack-not-inherited', vp[0].where(), 'the link target is visited with the stack of the link, and a visit is recorded per (path, ignore stack): every route applies its own rules, none suppresses another')
        # ... which needs the stack to stop growing on a cycle of links: pushing the ignore files of a directory that is in the stack already changes nothing
        pu = lib.body('walk::IgnoreStack::push')
        idem = False
        if pu is not None:
            for x in [pu] + [lib.body(cp) for cp in lib.closures_of(pu.path)]:
                if x.calls(r'Gitignore::path$'):
                    idem = True
            idem = idem and bool(pu.calls(r'Iterator::any$|Iterator>::any$|::contains$|Iterator::find$|Iterator::position$'))
        # ... and to stop multiplying: a directory is read once per stack it is reached with, so the stack that crosses a link must be cut to a bounded
        # part (the global rules + the rules of the link's own location), not handed on whole from link to link
        CUT = r'Index<I>>::index$|Vec::<.*>::(truncate|split_off|drain|retain)$|Iterator::(skip|filter|take|skip_while)$|Iterator>::(skip|filter|take|skip_while)$|slice::<impl \[T\]>::(split_at|get)$'
        cutters = []
        for a in stack_args:
            for c in backslice(vl, [a]).calls:
                if c.matches(r'^walk::IgnoreStack::\w+$') and not c.matches(r'::(clone|push|id|matches)$'):
                    cb = lib.body(c.path)
                    if cb is not None and cb.calls(CUT):
                        cutters.append(c)
        ctx.check(bool(cutters), rule, vl.path + '|stack-cut-at-links', vp[0].where(), 'the stack handed to a link target is cut by %s: it does not accumulate from link to link' % ', '.join(sorted({c.path.rsplit('::', 1)[-1] for c in cutters})),
                  'a visit is recorded per (path, ignore stack) and visit_link hands its whole stack on to the target: where directories that contain ignore files link to each other, every route '
                  'makes a different stack (the ordered list of the ignore-file directories passed so far), so a directory is read once per ordered subset of the others - 8 directories with 56 links '
                  'do not finish in 9 minutes (0.02 s with --no-ignore), a dependency graph of n packages takes 2^n visits, and every file is handed to the consumer once per visit')
        # ... where "holds already" is asked of the COLLECTED ignore files only: the global rules are rooted at `/` (GitignoreBuilder::new("/")) without being
        # the ignore files of `/`
        if pu is not None and idem:
            mem = pu.calls(r'Iterator::any$|Iterator>::any$|::contains$|Iterator::find$|Iterator::position$')
            scoped = any(('global' in backslice(pu, [c.args[0]]).field_names()) or backslice(pu, [c.args[0]]).has_call(r'Index<.*>>::index$|Iterator::skip$|::split_at$') for c in mem)
            ctx.check(scoped, rule, 'walk::IgnoreStack::push|global-rules-are-not-the-ignore-files-of-root', mem[0].where(), 'the "already on the stack" test looks at the collected ignore files, not at the global rules',
                      'push() takes a directory for "already on the stack" when any rule set of the stack has its path - the global rules (core.excludesFile, ~/.config/git/ignore) are built with '
                      'GitignoreBuilder::new("/"), so with a global ignore file present /.gitignore and /.fdignore are never loaded: `fclones group /` reports what /.gitignore ignores')
        ctx.check(idem, rule, 'walk::IgnoreStack::push|idempotent', (pu.where() if pu else vl.where()), 'push() leaves the stack unchanged when it already holds the ignore files of the directory',
                  'the visited record is keyed by the ignore stack, but push() appends the ignore files of a directory every time it is entered: on a cycle of links (`d/self -> .`) each round makes a new, '
                  'longer stack, no visit is ever recognised as a repetition, and the walk does not end')
        return
    ctx.check(bool(stack_args) and not inherited, rule, vl.path + '|target-stack-not-inherited', vp[0].where(), 'the link target is visited with an ignore stack built for the target',
              'visit_link hands the ignore stack of the directory that holds the link to the target: with -L the first route to reach a directory decides which .gitignore rules apply to its whole subtree '
              '(e/b/link -> ../a/sub reaches e/a/sub without e/a/.gitignore), and which route is first depends on --threads and on the inode order: `group -t 1 -L e` reports 0 files, `-t 4` reports 2')


def r14(ctx):
    rule = 'C09.R14'
    lib = ctx.lib
    callers = [(b, c) for b in lib.bodies.values() if not re.search(r'(^|::)tests?(::|$)', b.path) for c in b.calls(r'PathSelector::matches_dir$')]
    if not ctx.floor(rule, 'callers of PathSelector::matches_dir', len(callers), 1, ''):
        return
    for b, c in callers:
        root = b.raw.get('root') or b.path
        ok = root.endswith('::visit_dir')
        ctx.check(ok, rule, '%s|matches_dir-only-for-dirs' % root, c.where(), 'matches_dir is consulted by visit_dir',
                  'matches_dir is applied in %s to a path whose type is not known to be a directory: for a file F given as an input path (argument, --stdin line) or reached through a followed link, '
                  "`--exclude '**/cache*/**'` asks whether `F/` lies below an excluded directory and drops e.g. `cache.db`, which the pattern does not match" % root)


def r13(ctx):
    rule = 'C09.R13'
    lib = ctx.lib
    pu = ctx.need_body(rule, 'walk::IgnoreStack::push')
    ma = ctx.need_body(rule, 'walk::IgnoreStack::matches')
    if pu is None or ma is None:
        return
    # (a) both names reach a load call; no load of one name is control-dependent on the absence of the other
    consts = _all_consts(pu)
    names = {n for n in ('.gitignore', '.fdignore') if any(n in c for c in consts)}
    loads = pu.calls(r'GitignoreBuilder::add$|gitignore::Gitignore::new$')
    per_name = {}
    for c in loads:
        vals = slice_const_values(lib, backslice(pu, [c.args[-1]]))
        per_name[c.bb] = {n for n in ('.gitignore', '.fdignore') if any(n in (v or '') for v in vals)}
    covered = set().union(*per_name.values()) if per_name else set()
    # both files can be loaded for one directory: two load sites, or one inside a loop over the names
    repeated = len(loads) >= 2 or any(any(c.bb in pu.reachable(x) for x in pu.succs(c.bb)) for c in loads)
    both = bool(loads) and covered == {'.gitignore', '.fdignore'} and names == {'.gitignore', '.fdignore'} and repeated
    ctx.check(both, rule, pu.path + '|both-files', (loads[0].where() if loads else pu.where()), 'both .gitignore and .fdignore of a directory are loaded (one load per name)',
              'at most one ignore file is loaded per directory (%d load site(s), not in a loop over the names): .fdignore is looked at only when there is no .gitignore next to it, '
              'its rules are silently dropped otherwise' % len(loads))
    # (b) precedence: deepest first, whitelist recognised
    rev = ma.calls(r'Iterator::rev$|::rev$')
    wl = ma.calls(r'Match(::)?<.*>::is_whitelist$|Match::<T>::is_whitelist$')
    bodies = [ma] + [lib.body(c) for c in lib.closures_of(ma.path)]
    wl = [c for x in bodies for c in x.calls(r'is_whitelist$')]
    anyc = [c for x in bodies for c in x.calls(r'Iterator>::any$|Iterator::any$')]
    ctx.check(bool(rev) and bool(wl) and not anyc, rule, ma.path + '|deepest-wins', ma.where(), 'the stack is searched from the deepest ignore file, a whitelist match means "not ignored"',
              'IgnoreStack::matches is "ignored by any level": a `!pattern` in the .gitignore of a sub-directory cannot re-include what a parent .gitignore ignores (git and fd semantics), '
              'such files are missing from the scan')


def r12(ctx):
    rule = 'C09.R12'
    lib = ctx.lib
    b = stdin_paths_body(lib)
    if b is None:
        ctx.missing(rule, 'config::GroupConfig::input_paths')
        return
    rd = b.calls(r'^std::io::stdin$')
    if not ctx.floor(rule, 'stdin() in input_paths', len(rd), 1, b.where()):
        return
    bodies = [b] + [lib.body(c) for c in lib.closures_of(b.path)]
    bad = [c for x in bodies for c in x.calls(r'BufRead>::lines$|BufRead::lines$|::read_line$|::read_to_string$|String::from_utf8$|str::from_utf8$|converts::from_utf8$')]
    ctx.check(not bad, rule, b.path + '|stdin-bytes', (bad[0].where() if bad else rd[0].where()), 'paths from stdin are split as bytes',
              'paths from stdin pass %s, which accepts UTF-8 only: one file name that is not valid UTF-8 in `find | fclones group --stdin` makes the run fail (the unwrap of the line panics) '
              'while the same path given as an argument is scanned' % (bad[0].path.rsplit('::', 1)[-1] if bad else ''))


def r12b(ctx):
    rule = 'C09.R12'
    lib = ctx.lib
    b = stdin_paths_body(lib)
    if b is None:
        return
    bodies = [b] + [lib.body(c) for c in lib.closures_of(b.path)]
    flt = [c for c in b.calls(r'Iterator::(filter|filter_map|skip_while|take_while)$') if backslice(b, [c.args[0]]).has_call(r'^std::io::stdin$')]
    emp = [c for x in bodies for c in x.calls(r'::is_empty$')]
    ctx.check(bool(flt) and bool(emp), rule, b.path + '|no-empty-line', (flt[0].where() if flt else b.where()), 'empty lines of the stdin list are filtered out',
              'every line of the stdin list becomes a path, and an empty string becomes `.`: a blank line (or `echo "$files" | fclones group --stdin` with an empty variable) makes fclones scan the whole '
              'working directory, and files that were never selected are reported as duplicates')


def r12d(ctx):
    rule = 'C09.R12'
    lib = ctx.lib
    b = stdin_paths_body(lib)
    if b is None:
        return
    flt = [c for c in b.calls(r'Iterator::(filter|filter_map|skip_while|take_while)$') if backslice(b, [c.args[0]]).has_call(r'^std::io::stdin$')]
    ok = False
    where = flt[0].where() if flt else b.where()
    for cp in lib.closures_of(b.path):
        x = lib.body(cp)
        for c in x.calls(r'::contains$|memchr|Iterator::(any|all|position)$'):
            sub = [x] + [lib.body(y) for y in lib.closures_of(x.path)]
            vals = []
            for a in c.args:
                vals += [str(v) for v in slice_const_values(lib, backslice(x, [a]))]
            for y in sub[1:]:
                for cmp in comparisons(y):
                    vals += [str(v) for v in slice_const_values(lib, backslice(y, [cmp.a])) + slice_const_values(lib, backslice(y, [cmp.b]))]
            if any(re.match(r'^0(_u8)?$', v) for v in vals) and any(k.bb == c.bb for k in backslice(x, [{'c': [0, []]}]).calls):
                ok, where = True, c.where()
    ctx.check(bool(flt) and ok, rule, b.path + '|no-nul-line', where, 'a line of the stdin list that contains a NUL byte is filtered out before it becomes a path',
              'every non-empty line of the stdin list becomes a Path, and Path::from unwraps CString::new: one line containing a NUL byte (`find -print0 | fclones group --stdin`, a corrupt list) '
              'aborts the whole run with a panic (exit 101, no report) instead of leaving out that entry alone')


def r16(ctx):
    """Every input path is walked, at level 0, on its own."""
    rule = 'C09.R16'
    lib = ctx.lib
    from .common import describe_switch
    cands = [lib.body(cp) for cp in lib.closures_of(W + 'run')]
    cands = [x for x in cands if x.calls(r'Iterator::next$|Iterator>::next$') and x.calls(r'Scope::<.*>::spawn$|Scope<.*>::spawn$|::spawn$')]
    if not cands:
        ctx.missing(rule, 'the loop over the input paths in Walk::run')
        return
    b = cands[0]
    ctx.fn(b)
    N = b.calls(r'Iterator::next$|Iterator>::next$')[0]
    S = {c.bb for c in b.calls(r'Scope::<.*>::spawn$|Scope<.*>::spawn$|::spawn$')}
    # the Some arm of next()
    some_t = None
    for (bbx, idx, what) in b.operand_uses(N.dest[0]):
        if what[0] == 'stmt' and what[1]['rv']['k'] == 'disc':
            for (b2, i2, w2) in b.operand_uses(what[1]['p'][0]):
                if w2[0] == 'switch':
                    some_t = dict(zip(w2[1]['vals'], w2[1]['tgts'])).get(1)
    if some_t is None:
        ctx.missing(rule, 'match on roots.next()', N.where())
        return
    body_blocks = b.reachable(some_t, avoid=[N.bb]) | {some_t}
    bad = None
    n = 0
    for d in sorted(body_blocks):
        t = b.blocks[d]['term']
        if t['k'] != 'switch' or b.blocks[d]['cleanup']:
            continue
        succ = [x for x in dict.fromkeys(t['tgts']) if b.blocks[x]['term']['k'] != 'unreach']
        to_spawn = [x for x in succ if x in S or S & b.reachable(x, avoid=[N.bb])]
        skip = [x for x in succ if x not in S and N.bb in b.reachable(x, avoid=list(S))]
        pure_skip = [x for x in skip if not (x in S or S & b.reachable(x, avoid=[N.bb]))]
        if not (to_spawn and pure_skip):
            continue
        n += 1
        kind, name = describe_switch(b, d)
        fields = backslice(b, [t['op']]).field_names()
        warned = all(any(c.matches(r'log_warn$|LogExt>::warn$') and c.bb in (b.reachable(x, avoid=[N.bb]) | {x}) for c in b.calls()) for x in pure_skip)
        okd = (kind in ('disc-call', 'disc', 'call') and re.search(r'fs::metadata$|symlink_metadata$|Metadata::is_dir$|FileId::new$', name)) or (kind == 'cmp' and 'depth' in fields) \
            or (kind in ('field', 'disc-field') and name in ('depth', 'one_fs'))
        if not (okd and warned) and bad is None:
            bad = (d, kind, name, warned)
    ctx.check(bad is None, rule, b.path + '|every-root-walked', (b.where(b.blocks[bad[0]]['term']['line']) if bad else N.where()),
              'every input path is handed to visit_path at level 0 (%d decisions skip one: unreadable path / directory with --depth 0, each with a warning)' % n,
              'an input path can be skipped by a decision on %s `%s`%s: input paths are walked at level 0, where the hidden test, the ignore files of the parents and the depth budget of an enclosing '
              'input path do not apply - leaving one out because another input path "covers" it loses `dir/.git`, `dir/ignored`, or `dir/a/b/c` under `--depth 1 dir dir/a/b`'
              % ((bad[1], bad[2], '' if bad[3] else ' without a warning') if bad else ('', '', '')))
    ctx.floor(rule, 'skip decisions in the loop over the input paths', n, 2, b.where())


def r17(ctx):
    """Path patterns are matched against canonical paths (links to directories resolved): the literal directory a pattern starts with is
    brought into that form as well, the way the input paths and the isolate roots are."""
    rule = 'C09.R17'
    lib = ctx.lib
    from ..callgraph import CallGraph
    ap = ctx.need_body(rule, 'selector::PathSelector::abs_pattern')
    if ap is None:
        return
    cg = CallGraph([lib])
    reach = cg.reachable([ap.path], stop=lambda k: not k.startswith(('selector::PathSelector::', 'pattern::Pattern::')))
    bodies = [lib.body(k) for k in sorted(reach) if k.startswith('selector::PathSelector::') and lib.body(k) is not None]
    canon = [(x, c) for x in bodies for c in x.calls(r'path::Path::canonicalize$|config::canonical_root$|^std::fs::canonicalize$|dunce::canonicalize$')]
    keeps = [(x, c) for x in bodies for c in x.calls(r'pattern::Pattern::or$')]
    ok = False
    where = ap.where()
    for x, c in canon:
        # what is canonicalized derives from the pattern (its literal directory), and the original pattern stays an alternative
        sl = backslice(x, [c.args[0]])
        if sl.has_call(r'Pattern::split_literal_dir$|Pattern::literal_dir$|Pattern::\w*literal\w*$') and any(kx is x for kx, _ in keeps):
            ok, where = True, c.where()
    ctx.check(ok, rule, ap.path + '|pattern-dir-canonical', where, 'the directory a path pattern starts with is resolved like the scanned paths (the unresolved spelling stays an alternative)',
              'a path pattern is matched as it is spelled, but the scanned / reported paths have the symbolic links to directories resolved: with `photos -> disk`, '
              '`group photos --exclude "photos/private/**"` excludes nothing (the files are /…/disk/private/…) and `remove --keep-path "photos/originals/**"` protects nothing - '
              'the file the user meant to keep is removed; the input paths (Walk::absolute) and the isolate roots (canonical_root) are resolved, the patterns are not')


def r17b(ctx):
    """... and where the pattern does not START with a literal directory (`*/private/**`, `phot?s/..`, `{photos,pictures}/..`, -i) there is nothing to
    resolve in the pattern: the selector has to know the other name of the files - the input path as given - and match that as well.  The place that
    knows both forms of EVERY input path (arguments, --stdin lines, --base-dir) is the walk: Walk::run has the path as given and Walk::absolute(path)."""
    rule = 'C09.R17'
    lib = ctx.lib
    run = ctx.need_body(rule, W + 'run')
    if run is None:
        return
    bodies = [run] + [lib.body(cp) for cp in lib.closures_of(run.path)]
    # (1) the selector is told every input path in both forms: a call of a PathSelector method one of whose arguments is the result of Walk::absolute
    told = []
    for x in bodies:
        for c in x.calls(r'^selector::PathSelector::\w+$'):
            if any(backslice(x, [a]).has_call(r"Walk::<'a>::absolute$") for a in c.args[1:]):
                told.append((x, c))
    setter = lib.body(told[0][1].path) if told else None
    # (2) before the first file is matched: the registration is not in the loop that spawns the visits (a later input path could give a second name to
    # files that an earlier one has matched already - the result would depend on timing)
    spawns = [(x, c) for x in bodies for c in x.calls(r'Scope::<.*>::spawn$|Scope<.*>::spawn$|::spawn$')]
    early = bool(told) and all(not (x is sx and c.bb in x.reachable(sc.bb)) for x, c in told for sx, sc in spawns) and \
        all(x is not sx or sc.bb in x.reachable(c.bb) or x.path != run.path for x, c in told for sx, sc in spawns)
    # the registration sits in a closure (map over the roots) that is consumed (collect) before the spawning loop: the closure itself spawns nothing
    early = early and all(not x.calls(r'::spawn$') for x, c in told if x.path != run.path)
    # (3) what it has learnt is used by the three predicates of the walk: a field touched by the setter is read on their side
    def fields_of(x):
        out = set()
        for y in [x] + [lib.body(cp) for cp in lib.closures_of(x.path)]:
            for blk in y.blocks:
                for st in blk['stmts']:
                    for pl in rvalue_places(st['rv']) + [st['p']]:
                        out |= {f for f in place_fields(pl)}
        return out
    learnt = (fields_of(setter) - {'base_dir', 'included_names', 'included_paths', 'excluded_paths'}) if setter is not None else set()
    users = {}
    for fn in ('matches_full_path', 'matches_dir', 'matches_dir_following_links'):
        mb = lib.body('selector::PathSelector::' + fn)
        if mb is None:
            continue
        seen, todo, got = set(), [mb], set()
        while todo:
            x = todo.pop()
            if x.path in seen:
                continue
            seen.add(x.path)
            got |= fields_of(x)
            for y in [x] + [lib.body(cp) for cp in lib.closures_of(x.path)]:
                for k in y.calls(r'^selector::PathSelector::\w+$'):
                    hb = lib.body(k.path)
                    if hb is not None:
                        todo.append(hb)
        users[fn] = bool(got & learnt)
    ok = bool(told) and bool(learnt) and bool(users) and all(users.values())
    ctx.check(ok, rule, run.path + '|input-path-aliases', (told[0][1].where() if told else run.where()),
              'the walk tells the selector every input path as given and as resolved (%s), and %s match the path below the input path as given as well' % (told[0][1].path.rsplit('::', 1)[-1] if told else '-', ', '.join(sorted(users))),
              'only a pattern that STARTS with a literal, exactly-cased directory is brought into the resolved form of the scanned paths: with `photos -> ../disk`, `group photos --exclude "*/private/**"`, '
              '`"phot?s/private/**"`, `"{photos,pictures}/private/**"` and `-i --exclude "photos/PRIVATE/**"` exclude nothing and `--path "*/private/*"` selects nothing, because the files are matched as '
              '<T>/disk/private/.. only; the selector does not know that they are also <cwd>/photos/private/.. - or it knows it only for the input paths that are ARGUMENTS relative to the working '
              'directory (GroupConfig.paths), not for --stdin lines and not under --base-dir, and takes a symbolic link to a FILE for an alias of its target')
    # an alias may be shortened by what the two forms have in common at the end (many files listed below one linked directory = one alias), but never
    # past a component of the given path that is a symbolic link itself: `home/Documents -> ../data/Documents` does not make `home` a name of `data`
    if setter is not None:
        sbodies = [setter] + [lib.body(cp) for cp in lib.closures_of(setter.path)]
        pops = [(x, c) for x in sbodies for c in x.calls(r'PathBuf::pop$|path::Path::parent$')]
        if pops:
            linktest = [(x, c) for x in sbodies for c in x.calls(r'symlink_metadata$|FileType::is_symlink$|^std::fs::read_link$|Path::is_symlink$')]
            guarded = bool(linktest)
            for x, c in pops:
                ok_ = False
                for d in x.dominators()[c.bb]:
                    t_ = x.blocks[d]['term']
                    if t_['k'] == 'switch':
                        sl_ = backslice(x, [t_['op']])
                        if sl_.has_call(r'symlink_metadata$|FileType::is_symlink$|Path::is_symlink$|^std::fs::read_link$') or \
                                any(lib.closure_of_type(x.local_ty(op_local(a))) and lib.body(lib.closure_of_type(x.local_ty(op_local(a)))).calls(r'is_symlink$')
                                    for k in sl_.calls for a in k.args if op_local(a) is not None and 'closure' in x.local_ty(op_local(a))):
                            ok_ = True
                guarded = guarded and ok_
            ctx.check(guarded, rule, setter.path + '|alias-stops-at-the-link', pops[0][1].where(), 'the common tail of the two forms is cut off only while the given path is not a symbolic link itself',
                      'the alias of an input path is shortened by every trailing component that the path as given and the resolved path have in common: a link with the name of its target '
                      '(`home/Documents -> ../data/Documents`, the usual kind) makes the PARENT directories aliases of each other, and every file below `data` is also matched under a path below '
                      '`home` that it does not have: `group Documents ../data --exclude "tmp/**"` (in home) drops data/tmp/*, `remove --path "tmp/*"` removes data/tmp/d')
    if told:
        ctx.check(early, rule, run.path + '|aliases-known-before-the-first-match', told[0][1].where(), 'all input paths are registered before the first visit is spawned',
                  'an input path is registered in the same loop that spawns the visits: the files of an earlier input path may be matched before a later one (a link to the same directory) gives them '
                  'their second name - whether `--exclude "photos/private/**"` applies to the files found through `disk` depends on the timing')


def r12c(ctx):
    rule = 'C09.R12'
    lib = ctx.lib
    pp = [b for p_, b in lib.bodies.items() if re.search(r'^<config::PathParser as .*TypedValueParser>::parse_ref$', p_)]
    if not pp:
        ctx.missing(rule, 'PathParser::parse_ref')
        return
    b = pp[0]
    ok = False
    for c in b.calls(r'::is_empty$'):
        for (bbx, idx, what) in b.operand_uses(c.dest[0]):
            if what[0] == 'switch':
                tt, ft = switch_targets_bool(what[1])
                if tt is not None and 'Err' in return_variants_from(b, tt) and 'Ok' not in return_variants_from(b, tt):
                    ok = True
    ctx.check(ok, rule, b.path + '|no-empty-argument', b.where(), 'an empty path argument is rejected by the value parser',
              'every string given as a path argument becomes a Path, and the empty string becomes `.`: `fclones group selected "$UNSET"` scans the whole working directory and reports files that were never selected')


def r11(ctx):
    rule = 'C09.R11'
    lib = ctx.lib
    b = ctx.need_body(rule, W + 'visit_entry')
    if b is None:
        return
    sites = visited_sites(lib, b)
    if not ctx.floor(rule, 'visited mark in visit_entry', len(sites), 1, b.where()):
        return
    c, kbody, kcall = sites[0]
    # (a) the ignore test comes first
    gi = b.calls(r'IgnoreStack::matches$')
    oka = bool(gi) and not any(g.bb in b.reachable(c.bb) for g in gi)
    ctx.check(oka, rule, b.path + '|ignore-before-mark', c.where(), 'the .gitignore test (which depends on the route: the stack of ignore files of the parents) precedes the visited mark',
              'an entry is marked as visited before the .gitignore test: ignored on one route (ignore file of that parent chain) it is never visited on another route where nothing ignores it')
    # (b) level-aware record, or mark after the depth test
    names = set()
    bodies = [kbody] + [lib.body(x) for x in lib.closures_of(kbody.path)]
    for x in bodies:
        for k in x.calls(r'::(insert|or_insert|or_insert_with|and_modify)$'):
            for a in k.args:
                sl = backslice(x, [a])
                names |= sl.param_names(x) | {n for _, n in sl.upvars}
        for blk in x.blocks:
            for st in blk['stmts']:
                if st['p'][1] and st['p'][1][0] == '*':       # *visited_level = level
                    sl = backslice(x, [st['rv'].get('op')]) if st['rv'].get('op') else None
                    if sl:
                        names |= sl.param_names(x) | {n for _, n in sl.upvars}
    level_aware = 'level' in names
    # ... and the stored level is really compared with the incoming one (a re-visit at a smaller level)
    cmp_level = False
    for x in bodies:
        for cmp in comparisons(x):
            sa_, sb__ = backslice(x, [cmp.a]), backslice(x, [cmp.b])
            pa = {n for n in sa_.param_names(x) if n}        # named parameters: the stored value handed to and_modify
            pb = {n for n in sb__.param_names(x) if n}
            ua = {n for _, n in sa_.upvars} | ({n for n in pa} if x.kind != 'closure' else set())
            ub = {n for _, n in sb__.upvars} | ({n for n in pb} if x.kind != 'closure' else set())
            incoming_a, incoming_b = 'level' in ua and not pa, 'level' in ub and not pb
            if cmp.op in ('<', '>', '<=', '>=') and ((incoming_a and pb) or (incoming_b and pa)):
                cmp_level = True
    level_aware = level_aware and cmp_level
    in_visit_dir = kbody.path.endswith('visit_dir')
    after_depth = False
    if in_visit_dir:
        for cmp in comparisons(kbody):
            if 'depth' in backslice(kbody, [cmp.a]).field_names() | backslice(kbody, [cmp.b]).field_names():
                br = branch_of(kbody, cmp)
                after_depth = bool(br) and (kbody.dominates(br[1], kcall.bb) or kbody.dominates(br[2], kcall.bb))
    ctx.check(level_aware or after_depth, rule, b.path + '|mark-vs-depth', kcall.where(),
              'the visited record carries the nesting level' if level_aware else 'directories are marked only after the depth test',
              'a directory is marked as visited before the --depth test and without its level: first reached at the depth limit (not read) it is skipped when reached again at a smaller '
              'level (overlapping roots `group R/a/b R --depth 2 -L`, or a symlink that is a shortcut into the tree), so files within the depth limit are lost')


def r11b(ctx):
    """the visited mark must not consume a visit that a route-specific test then refuses (--one-fs device of the root, selector, depth),
    and an input path (level 0) is always visited whichever other input path reached it first"""
    rule = 'C09.R11'
    lib = ctx.lib
    vd = lib.body(W + 'visit_dir')
    ve = lib.body(W + 'visit_entry')
    mk = lib.body(W + 'mark_visited')
    if vd is None or ve is None:
        return
    sf = vd.calls(r"Walk::<'a>::same_fs$")
    md = vd.calls(r'PathSelector::matches_dir$')
    marks_d = [c for c, kb, k in visited_sites(lib, vd)]
    ok = bool(marks_d) and bool(sf) and bool(md) and all(sf[0].bb not in vd.reachable(c.bb) and md[0].bb not in vd.reachable(c.bb) for c in marks_d)
    # ... and visit_entry does not mark directories itself
    marks_e = [c for c, kb, k in visited_sites(lib, ve)]
    guarded = True
    for c in marks_e:
        g = False
        for d in ve.dominators()[c.bb]:
            t = ve.blocks[d]['term']
            if t['k'] == 'switch' and 'tpe' in backslice(ve, [t['op']]).field_names():
                g = True
        guarded = guarded and g
    ctx.check(ok and guarded, rule, vd.path + '|dir-marked-when-read', (marks_d[0].where() if marks_d else (marks_e[0].where() if marks_e else vd.where())),
              'a directory is marked as visited in visit_dir, after the --one-fs / selector / depth tests (visit_entry marks only non-directories)',
              'a directory is marked as visited before visit_dir decides whether this route may read it: a route that prunes it (--one-fs: other device than its root; selector; depth) still consumes the visit, '
              'and the route that would read it is dropped - `group -L --one-fs /dev/shm /dev` finds nothing in /dev/shm with one thread and everything with four')
    # the same holds for a symbolic link: whether it is followed (or reported) depends on the input path that led to it - the device of that root, with
    # --one-fs.  It is marked in visit_link, after that decision; visit_entry marks regular files only
    vl = lib.body(W + 'visit_link')
    if vl is not None:
        marks_l = [c for c, kb, k in visited_sites(lib, vl)]
        sfl = vl.calls(r"Walk::<'a>::same_fs$")
        after = bool(marks_l) and bool(sfl) and all(any(c.bb in vl.reachable(x.bb) and x.bb not in vl.reachable(c.bb) for x in sfl) for c in marks_l)
        only_files = True
        for c in marks_e:
            types = None
            for d in ve.dominators()[c.bb]:
                t = ve.blocks[d]['term']
                if t['k'] != 'switch':
                    continue
                for k_ in backslice(ve, [t['op']]).calls:
                    if k_.matches(r'PartialEq.*>::(eq|ne)$|PartialEq::(eq|ne)$'):
                        for a in k_.args:
                            for v in slice_const_values(lib, backslice(ve, [a])):
                                m = re.search(r'EntryType::(\w+)$', v or '')
                                if m:
                                    types = ({m.group(1)} if k_.path.endswith('eq') else {'File', 'Dir', 'SymLink', 'Other'} - {m.group(1)})
            if types is None or 'SymLink' in types:
                only_files = False
        ctx.check(after and only_files, rule, vl.path + '|link-marked-when-followed', (marks_l[0].where() if marks_l else (marks_e[0].where() if marks_e else vl.where())),
                  'a symbolic link is marked as visited in visit_link, after the --one-fs test of the route',
                  'visit_entry marks a symbolic link as visited before visit_link applies the one-fs test with the device of the input path that led here: reached first from a root on another file system '
                  'the link is marked and then rejected, and the root that would accept it finds it "already visited" - `group -L --one-fs A B` reports nothing where `group -L --one-fs A` and '
                  '`group -L --one-fs B A` report other/f1 and other/f2')

    if mk is not None:
        bodies = [mk] + [lib.body(x) for x in lib.closures_of(mk.path)]
        reads_depth = False
        for x in bodies:
            for blk in x.blocks:
                for st in blk['stmts']:
                    for pl in [st['rv'].get('p')] + [((o.get('c') or o.get('m')) if isinstance(o, dict) else None) for o in [st['rv'].get('op'), st['rv'].get('a'), st['rv'].get('b')] + list(st['rv'].get('ops') or [])]:
                        if pl and 'depth' in place_fields(pl):
                            reads_depth = True
        # which entry types are visited again at a smaller level?  everything that can have something below it: directories AND links
        adt = lib.adts.get('walk::EntryType') or {}
        variants = [v['name'] if isinstance(v, dict) else v for v in adt.get('variants', [])]
        revisit = None
        for x in bodies:
            for c in x.calls(r'PartialEq.*>::(eq|ne)$|PartialEq::(eq|ne)$'):
                named = None
                for a in c.args:
                    for v in slice_const_values(lib, backslice(x, [a])):
                        m = re.search(r'EntryType::(\w+)$', v or '')
                        if m:
                            named = m.group(1)
                if named:
                    revisit = ({named} if c.path.endswith('eq') else set(variants) - {named})
        if revisit is not None:
            ctx.check({'Dir', 'SymLink'} <= revisit, rule, mk.path + '|links-revisit-too', mk.where(), 'directories and symbolic links are visited again at a smaller level (%s)' % sorted(revisit),
                      'only %s are visited again when reached at a smaller level: a link to a directory has a subtree as well (its target is visited at the level of the link), so when the deeper route reaches '
                      'the link first, what the shallower route could read within --depth is lost - and which route is first depends on the order of the input paths and on --threads' % sorted(revisit))
        # the depth may be consulted for one thing only: "is there a limit at all" (a comparison with usize::MAX). Without a limit the first visit has
        # covered the whole subtree (what differs between routes - ignore rules, root device, hidden / ignored roots - is in the key or tested before
        # the mark), and re-visiting at every smaller level costs a factor N on N mutually linked directories
        only_unlimited_test = False
        if reads_depth:
            vals = [str(v) for x in bodies for v in _all_consts(x)]
            cmps_ = [c for x in bodies for c in comparisons(x) if 'depth' in (backslice(x, [c.a]).field_names() | backslice(x, [c.b]).field_names())]
            only_unlimited_test = bool(cmps_) and all(c.op in ('==', '!=') for c in cmps_) and any(re.search(r'usize>?::MAX|18446744073709551615', v) for v in vals)
        ctx.check(reads_depth and only_unlimited_test, rule, mk.path + '|revisits-need-a-depth-limit', mk.where(), 'without a depth limit nothing is visited twice for its level',
                  'every directory or link reached again at a smaller nesting level is walked again with its whole subtree, also when no --depth limit is set and the level cannot matter: the walk is depth '
                  'first, so a node is first reached at the end of a long chain of links and then again and again one level closer - with the visits recorded per (path, ignore stack) the number of '
                  'visits of N mutually linked directories with ignore files grows like N^5: 32 directories with 32 files do not finish in 15 minutes with -t 1 (3.4 s with the test of the limit)')
        ctx.check((not reads_depth) or only_unlimited_test, rule, mk.path + '|smaller-level-revisits', mk.where(), 'an entry reached at a smaller level than before is visited again%s' % (' when a depth limit is set' if reads_depth else ', whatever the depth limit'),
                  'a re-visit at a smaller level is allowed only when --depth is given: otherwise an input path (level 0) that another input path reached first is not walked with its own ignore rules and root device '
                  '- `group S/sub S -L` loses the files of S/sub that S/.gitignore ignores, `group S S/sub -L` does not')


def r10(ctx, rule='C09.R10'):
    lib = ctx.lib
    rw = ctx.need_body(rule, 'pattern::Pattern::regex_with')
    if rw is not None:
        news = rw.calls(r'regex::Regex::new$')
        if ctx.floor(rule, 'Regex::new calls in regex_with', len(news), 2, rw.where()):
            for i, c in enumerate(news):
                ctx.check(_groups(lib, rw, c.args[0]), rule, '%s|anchors-bind-whole-pattern|%d' % (rw.path, i), c.where(),
                          'the pattern passes a grouping step before the anchors are added',
                          'the anchors are concatenated to the raw pattern: with a top-level alternation (`--regex --name "a|b"`) `^a|b$` selects every name that starts with a or ends with b, '
                          'and the fixed prefix used to prune directories is that of the first alternative only (`--regex --path "/x/a/.*|/x/b/.*"` never enters /x/b)')
    adds = [b for p_, b in lib.bodies.items() if re.search(r'^<pattern::Pattern as std::ops::Add.*>::add$', p_)]
    if not adds:
        ctx.missing(rule, 'impl Add for Pattern')
        return
    ab = adds[0]
    rc = ab.calls(r'pattern::Pattern::regex(_with)?$')
    if not rc:
        ctx.missing(rule, 'Pattern::regex in Pattern::add', ab.where())
        return
    # both operands of the concatenation
    sl = backslice(ab, [rc[0].args[0]])
    n_group = sum(1 for c in sl.calls if c.f.get('local') and lib.body(c.path) is not None and any('(?:' in v for v in _all_consts(lib.body(c.path))))
    ctx.check(n_group >= 2, rule, '%s|operands-grouped' % ab.path, rc[0].where(), 'both operands of a pattern concatenation pass the grouping step',
              'patterns are concatenated as raw text (%d grouping step(s) for 2 operands): base directory + relative `a|b` becomes `/base/a|b`, whose second alternative is not under the base directory' % n_group)


def r1(ctx):
    rule = 'C09.R1'
    lib = ctx.lib
    b = ctx.need_body(rule, W + 'visit_dir')
    if b is None:
        return
    P = b.path
    rd = b.calls(r'^std::fs::read_dir$')
    if not ctx.floor(rule, 'read_dir in visit_dir', len(rd), 1, b.where()):
        return
    lvl = [i for i in range(1, b.argc + 1) if b.local_name(i) == 'level']
    if not lvl:
        ctx.missing(rule, 'parameter `level` of visit_dir', b.where())
        return
    lvl = lvl[0]
    cands = []
    for cmp in comparisons(b):
        sa, sb = backslice(b, [cmp.a]), backslice(b, [cmp.b])
        if lvl in sa.params and 'depth' in sb.field_names() and 'depth' not in sa.field_names():
            cands.append((cmp, cmp.op, sa, sb))
        elif lvl in sb.params and 'depth' in sa.field_names() and 'depth' not in sb.field_names():
            cands.append((cmp, FLIP[cmp.op], sb, sa))
    if not cands:
        ctx.missing(rule, 'comparison of `level` with self.depth in visit_dir', b.where())
        return
    cmp, rel, sl_level, sl_depth = cands[0]
    # arithmetic on either side (e.g. level + 1 > depth) shifts the offset
    shift = 0
    for op, st in sl_level.binops:
        k = const_int(st['rv']['b'])
        if op.startswith('Add') and k is not None:
            shift += k
        elif op.startswith('Sub') and k is not None:
            shift -= k
    for op, st in sl_depth.binops:
        k = const_int(st['rv']['b'])
        if op.startswith('Add') and k is not None:
            shift -= k
        elif op.startswith('Sub') and k is not None:
            shift += k
    br = branch_of(b, cmp)
    if br is None:
        ctx.violation(rule, P + '|depth-guard', b.where(cmp.line), 'the depth comparison does not control the directory read')
        return
    sw, tt, ft = br
    read_on_true = b.dominates(tt, rd[0].bb)
    read_on_false = b.dominates(ft, rd[0].bb)
    if read_on_true == read_on_false:
        ctx.violation(rule, P + '|depth-guard', b.where(cmp.line), 'read_dir is not controlled by the depth comparison')
        return
    skip_rel = rel if read_on_false else NEG[rel]      # skip iff (level + shift) skip_rel depth
    # initial level at the roots and the increment for children
    inits = set()
    run_bodies = [lib.body(W + 'run')] + [lib.body(p) for p in lib.closures_of(W + 'run')]
    for rb in run_bodies:
        if rb is None:
            continue
        for c in rb.calls(r"Walk::<'a>::(visit_path|visit_entry|visit_dir)$"):
            cb = lib.body(c.path)
            idx = [i for i in range(1, cb.argc + 1) if cb.local_name(i) == 'level']
            if idx:
                k = const_int(c.args[idx[0] - 1])
                inits.add(k)
    if not inits or None in inits or len(inits) != 1:
        ctx.violation(rule, W + 'run|initial-level', b.where(), 'roots are not visited at one constant level (%s)' % sorted(map(str, inits)))
        return
    i0 = inits.pop()
    # children: in visit_dir's spawn closure, visit_entry(level + 1)
    inc = None
    for cp in lib.closures_of(b.path):
        cb = lib.body(cp)
        for c in cb.calls(r"Walk::<'a>::(visit_entry|visit_path)$"):
            tb = lib.body(c.path)
            idx = [i for i in range(1, tb.argc + 1) if tb.local_name(i) == 'level']
            if idx:
                sl = backslice(cb, [c.args[idx[0] - 1]])
                adds = [(op, st) for op, st in sl.binops if op.startswith('Add')]
                inc = sum(const_int(st['rv']['b']) or 0 for op, st in adds) if adds else 0
                upv = any(n == 'level' for _, n in sl.upvars)
                if not upv:
                    inc = None
    ctx.check(inc == 1, rule, P + '|child-level', b.where(), 'children are visited at level + 1', 'children are visited at level + %s' % inc)
    # pass-through of the level between the visit_* functions
    for fn in ('visit_path', 'visit_entry', 'visit_link'):
        fb = lib.body(W + fn)
        if fb is None:
            continue
        ctx.fn(fb)
        for scope_b in [fb] + [lib.body(p) for p in lib.closures_of(fb.path)]:
            for c in scope_b.calls(r"Walk::<'a>::(visit_path|visit_entry|visit_dir|visit_link)$"):
                tb = lib.body(c.path)
                idx = [i for i in range(1, tb.argc + 1) if tb.local_name(i) == 'level']
                if not idx:
                    continue
                from .c20 import follow_to_params
                ob, sl, _ = follow_to_params(lib, scope_b, [c.args[idx[0] - 1]])
                same = {ob.local_name(p) for p in sl.params} == {'level'} and not sl.binops and not sl.consts
                ctx.check(same, rule, '%s|level-pass-through' % scope_b.path, c.where(), 'level handed on unchanged to %s' % c.path.rsplit('::', 1)[-1], 'level is modified on the way to %s' % c.path.rsplit('::', 1)[-1])
    # normalise: directory at nesting k has level i0 + k; skip iff (i0 + k + shift) skip_rel depth
    # required: skip iff k >= depth
    if skip_rel == '>=':
        off = i0 + shift
    elif skip_rel == '>':
        off = i0 + shift - 1
    else:
        ctx.violation(rule, P + '|depth-guard', b.where(cmp.line), 'directories are skipped when level %s depth: not a depth limit' % skip_rel)
        return
    # skip iff k + off >= depth  -> need off == 0
    ctx.check(off == 0, rule, P + '|depth-guard', b.where(cmp.line),
              'a directory at nesting k is read iff k < depth (skip iff level%s %s depth, roots at level %d)' % (('%+d' % shift) if shift else '', skip_rel, i0),
              'a directory at nesting k is skipped iff k%+d >= depth (skip iff level%s %s depth, roots at level %d): --depth N descends %s level(s) too %s'
              % (off, ('%+d' % shift) if shift else '', skip_rel, i0, abs(off), 'deep' if off < 0 else 'shallow'))
    # the depth option reaches the walker unchanged
    sf = lib.body('group::scan_files')
    if sf is None:
        ctx.missing(rule, 'fn group::scan_files')
    else:
        ctx.fn(sf)
        ws = [(bi, s) for bi, blk in enumerate(sf.blocks) for s in blk['stmts'] if place_fields(s['p'])[-1:] == ['depth']]
        good = False
        for bi, s in ws:
            sl = backslice(sf, [s['rv']['op']] if s['rv']['k'] == 'use' else [])
            uo = [c for c in sl.calls if c.matches(r'Option(::)?<.*>::unwrap_or$')]
            if 'depth' in sl.field_names() and uo and not sl.binops:
                dv = const_val(uo[0].args[1]) or ''
                item = (op_const(uo[0].args[1]) or {}).get('item', '')
                good = 'MAX' in dv or 'MAX' in item or '18446744073709551615' in dv
        ctx.check(good, rule, sf.path + '|depth-option', sf.where(), 'walk.depth = config.depth.unwrap_or(usize::MAX)', 'walk.depth is not config.depth (default unlimited)')


def r2(ctx):
    rule = 'C09.R2'
    lib = ctx.lib
    sf = ctx.need_body(rule, 'group::scan_files')
    if sf is None:
        return
    found = None
    for cp in lib.closures_of(sf.path):
        cb = lib.body(cp)
        cms = [c for c in comparisons(cb) if c.op in ('<', '<=', '>', '>=')]
        ups = {n for _, n in cb.upvars.items()}
        if len(cms) >= 2 and {'min_size', 'max_size'} <= ups:
            found = (cb, cms)
    if not found:
        ctx.missing(rule, 'size filter closure in scan_files (min_size/max_size)', sf.where())
        return
    cb, cms = found
    ctx.fn(cb)
    rels = {}
    atoms = {}
    for c in cms:
        sa, sb = backslice(cb, [c.a]), backslice(cb, [c.b])
        for which, (x, y, op) in (('ab', (sa, sb, c.op)), ('ba', (sb, sa, FLIP[c.op]))):
            names = {n for _, n in y.upvars}
            if 'len' in x.field_names() and names & {'min_size', 'max_size'} and not ({n for _, n in x.upvars} & {'min_size', 'max_size'}):
                nm = (names & {'min_size', 'max_size'}).pop()
                rels[nm] = op
                atoms[nm] = c.bb
    # the canonical relations are len >= min_size and len <= max_size; their negations (len < min_size, len > max_size) decide the same thing
    # with the branches swapped - which branch keeps the file is read off the table below
    canon = {'min_size': {'>=': True, '<': False}, 'max_size': {'<=': True, '>': False}}
    good = rels.get('min_size') in canon['min_size'] and rels.get('max_size') in canon['max_size']
    ctx.check(good, rule, cb.path + '|relations', cb.where(), 'len %s min_size, len %s max_size' % (rels.get('min_size'), rels.get('max_size')),
              'size relations are %s (expected len >= min_size and len <= max_size, or their negations: the bounds themselves are inside)' % rels)
    if len(atoms) == 2 and good:
        # what "kept" means: the closure is a predicate (it returns the bool and is handed to filter / retain), or it stores the file itself
        is_pred = cb.local_ty(0) == 'bool'
        target = None
        if is_pred:
            cr = closure_creation(lib, cb.path)
            used = False
            if cr:
                par = cr[0]
                fl = forward_locals(par, cr[2]['p'][0])
                used = any(op_local(a) in fl for k in par.calls(r'::filter$|::retain$|::take_while$') for a in k.args)
            ctx.check(used, rule, cb.path + '|predicate-applied', cb.where(), 'the size predicate is handed to filter()', 'the closure that compares the length with the bounds is not applied as a filter')
        else:
            store = [k for x in [cb] for k in x.calls(r'Vec::<T, A>::push$|Vec<.*>::push$|::push$|::send$|::insert$')]
            if not store:
                ctx.missing(rule, 'the store of an accepted file in the scanning closure', cb.where())
            else:
                target = store[0].bb
        tt = truth_table(cb, atoms, target_bb=target) if (is_pred or target is not None) else None
        want = lambda a: (a['min_size'] == canon['min_size'][rels['min_size']]) and (a['max_size'] == canon['max_size'][rels['max_size']])
        if tt is not None and target is not None:
            # other tests (the metadata could be read, the file is not the report itself) also decide whether the file is stored: with the size
            # tests right the store MAY be reached, with one of them wrong it is NEVER reached
            ok, why = True, '%d rows' % len(tt[1])
            for key_, res_ in tt[1].items():
                a_ = dict(zip(tt[0], key_))
                try:
                    exp_ = want({k_: v_ for k_, v_ in a_.items()}) if None not in a_.values() else (False if any(v_ is not None and v_ != canon[k_][rels[k_]] for k_, v_ in a_.items()) else None)
                except TypeError:
                    exp_ = None
                may_ = (res_ is True) or (isinstance(res_, str) and 'True' in res_)
                if exp_ is False and may_:
                    ok, why = False, 'for %s the file is stored' % {k_: v_ for k_, v_ in a_.items() if v_ is not None}
                if exp_ is True and not may_:
                    ok, why = False, 'for %s the file is never stored' % a_
        else:
            ok, why = table_equals(tt, want) if tt is not None else (False, 'no table')
        ctx.check(ok, rule, cb.path + '|conjunction', cb.where(), 'kept iff len >= min_size and len <= max_size (%s)' % why, 'the two size tests are not combined as min_size <= len <= max_size: %s' % why)
    # the bounds come from the options; the default upper bound is FileLen::MAX
    mx = [(bi, s) for bi, blk in enumerate(sf.blocks) for s in blk['stmts'] if sf.local_name(s['p'][0]) == 'max_size' and not s['p'][1]]
    mxc = [c for c in sf.calls(r'Option(::)?<.*>::unwrap_or$') if sf.local_name(c.dest[0]) == 'max_size']
    good = False
    for c in mxc:
        sl = backslice(sf, [c.args[0]])
        item = (op_const(c.args[1]) or {}).get('item', '')
        good = 'max_size' in sl.field_names() and item.endswith('FileLen::MAX')
    ctx.check(good, rule, sf.path + '|max-default', sf.where(), 'max_size = config.max_size.unwrap_or(FileLen::MAX)', 'the default upper bound is not FileLen::MAX')
    mn = [s for blk in sf.blocks for s in blk['stmts'] if sf.local_name(s['p'][0]) == 'min_size' and not s['p'][1]]
    good = bool(mn) and all('min_size' in backslice(sf, [s['rv']['op']]).field_names() and not backslice(sf, [s['rv']['op']]).binops for s in mn if s['rv']['k'] == 'use')
    ctx.check(good, rule, sf.path + '|min-source', sf.where(), 'min_size = config.min_size', 'the lower bound is not config.min_size')


def guarded_by_call(b, target_bb, rx):
    """is block target_bb dominated by the true edge of a switch on the (un-negated) result of a call matching rx?"""
    for d in b.dominators()[target_bb]:
        t = b.blocks[d]['term']
        if t['k'] != 'switch':
            continue
        sl = backslice(b, [t['op']])
        cs = [c for c in sl.calls if c.matches(rx)]
        if not cs:
            continue
        tt, ft = switch_targets_bool(t)
        n = count_nots(b, sl)
        side = tt if n % 2 == 0 else ft
        if side is not None and b.dominates(side, target_bb):
            return cs[0]
    return None


def guard_side(b, target_bb, rx):
    """True / False: target_bb is dominated by the edge taken when a call matching rx returned true / false; None: not guarded by it"""
    for d in b.dominators()[target_bb]:
        t = b.blocks[d]['term']
        if t['k'] != 'switch':
            continue
        sl = backslice(b, [t['op']])
        if not [c for c in sl.calls if c.matches(rx)]:
            continue
        tt, ft = switch_targets_bool(t)
        if count_nots(b, sl) % 2:
            tt, ft = ft, tt
        for side, val in ((tt, True), (ft, False)):
            if side is not None and b.dominates(side, target_bb) and not (b.dominates(side, d)):
                return val
    return None


def r3(ctx):
    rule = 'C09.R3'
    lib = ctx.lib
    vf = ctx.need_body(rule, W + 'visit_file')
    if vf is not None:
        cons = [c for c in vf.calls() if not c.f.get('res') and c.f.get('method') in ('call', 'call_once', 'call_mut') and 'consumer' in backslice(vf, [c.args[0]]).field_names()]
        if ctx.floor(rule, 'consumer invocation in visit_file', len(cons), 1, vf.where()):
            g = guarded_by_call(vf, cons[0].bb, r'PathSelector::matches_full_path$')
            ctx.check(g is not None, rule, vf.path + '|full-match', cons[0].where(), 'the consumer is called iff matches_full_path(path)', 'the consumer is not guarded by matches_full_path')
            ctx.check(1 in backslice(vf, [cons[0].args[1]]).params or 2 in backslice(vf, [cons[0].args[1]]).params, rule, vf.path + '|same-path', cons[0].where(), 'the matched path is the reported path', 'a different path is reported')
    vd = lib.body(W + 'visit_dir')
    if vd is not None:
        rd = vd.calls(r'^std::fs::read_dir$')
        if rd:
            g = guarded_by_call(vd, rd[0].bb, r'PathSelector::matches_dir$')
            ctx.check(g is not None, rule, vd.path + '|dir-prune', rd[0].where(), 'a directory is read only if matches_dir(path)', 'read_dir is not guarded by matches_dir')
            bad = [c for c in vd.calls(r'PathSelector::matches_full_path$|Pattern::matches$')]
            ctx.check(not bad, rule, vd.path + '|no-full-match-on-dirs', vd.where(), 'directories are not subjected to the full match', 'directories are filtered by the full match: files below a non-matching directory are lost')
    sel = 'selector::PathSelector::'
    mf = ctx.need_body(rule, sel + 'matches_full_path')
    md = ctx.need_body(rule, sel + 'matches_dir')
    if mf is not None:
        inner = [lib.body(p) for p in lib.closures_of(mf.path, recursive=False)]
        inner = [x for x in inner if x.calls(r'Iterator::any$|Iterator::all$|::any$|::all$')]
        if ctx.floor(rule, 'predicate closure of matches_full_path', len(inner), 1, mf.where()):
            cb = inner[0]
            atoms = {}
            for c in cb.calls():
                last = c.f.get('method') or c.path.rsplit('::', 1)[-1]
                if last in ('is_empty', 'any', 'all'):
                    fld = backslice(cb, [c.args[0]]).field_names() & {'included_names', 'included_paths', 'excluded_paths'}
                    if fld:
                        atoms['%s.%s' % (sorted(fld)[0], last)] = c.bb
            # "no exclude pattern matches" is `excluded.all(|p| !m(p))` or, by De Morgan, `!excluded.any(|p| m(p))`
            ex_any = 'excluded_paths.any' in atoms and 'excluded_paths.all' not in atoms
            ex_atom = 'excluded_paths.any' if ex_any else 'excluded_paths.all'
            need = {'included_names.is_empty', 'included_names.any', 'included_paths.is_empty', 'included_paths.any', ex_atom}
            if set(atoms) != need:
                ctx.violation(rule, mf.path + '|formula', cb.where(), 'unexpected atoms %s' % sorted(atoms))
            else:
                tt = truth_table(cb, atoms)
                ok, why = table_equals(tt, lambda a: (a['included_names.is_empty'] or a['included_names.any']) and (a['included_paths.is_empty'] or a['included_paths.any']) and ((not a[ex_atom]) if ex_any else a[ex_atom]))
                ctx.check(ok, rule, mf.path + '|formula', cb.where(), '(names empty | any name) & (paths empty | any path) & all excludes fail  [%s]' % why, 'selection formula differs: %s' % why)
            leaf_checks(ctx, rule, lib, cb, {'included_names': ('matches', 0), 'included_paths': ('matches', 0), 'excluded_paths': ('matches', 0 if ex_any else 1)})
    if md is not None:
        inner = [lib.body(p) for p in lib.closures_of(md.path, recursive=False)]
        inner = [x for x in inner if x.calls(r'::any$|::all$')]
        if ctx.floor(rule, 'predicate closure of matches_dir', len(inner), 1, md.where()):
            cb = inner[0]
            atoms = {}
            for c in cb.calls():
                last = c.f.get('method') or c.path.rsplit('::', 1)[-1]
                if last in ('is_empty', 'any', 'all'):
                    fld = backslice(cb, [c.args[0]]).field_names() & {'included_names', 'included_paths', 'excluded_paths'}
                    if fld:
                        atoms['%s.%s' % (sorted(fld)[0], last)] = c.bb
            names_used = any(k.startswith('included_names') for k in atoms)
            ctx.check(not names_used, rule, md.path + '|names-not-consulted', cb.where(), 'name patterns are not consulted for directories', 'directories are pruned by --name patterns: matching files below are lost')
            ex_any = 'excluded_paths.any' in atoms and 'excluded_paths.all' not in atoms
            ex_atom = 'excluded_paths.any' if ex_any else 'excluded_paths.all'
            need = {'included_paths.is_empty', 'included_paths.any', ex_atom}
            if set(atoms) - {k for k in atoms if k.startswith('included_names')} != need:
                ctx.violation(rule, md.path + '|formula', cb.where(), 'unexpected atoms %s' % sorted(atoms))
            else:
                tt = truth_table(cb, {k: v for k, v in atoms.items() if k in need})
                ok, why = table_equals(tt, lambda a: (a['included_paths.is_empty'] or a['included_paths.any']) and ((not a[ex_atom]) if ex_any else a[ex_atom]))
                ctx.check(ok, rule, md.path + '|formula', cb.where(), '(paths empty | any partial match) & no exclude prefix-matches  [%s]' % why, 'directory admission formula differs: %s' % why)
            leaf_checks(ctx, rule, lib, cb, {'included_paths': ('matches_partially', 0), 'excluded_paths': ('matches_subtree', 0 if ex_any else 1)})


def leaf_checks(ctx, rule, lib, cb, expect):
    """the closures given to any()/all(): which Pattern method, negated or not"""
    for cp in lib.closures_of(cb.path, recursive=False):
        lb = lib.body(cp)
        PM = r'pattern::Pattern::(matches|matches_partially|matches_prefix|matches_fully|matches_subtree)$'
        pm = lb.calls(PM)
        over_names = None
        if not pm:
            # the pattern is tried on each of several names of the path: `|p| names.iter().any(|n| p.matches(n))` / `.all(|n| !p.matches(n))`
            for cp2 in lib.closures_of(cp, recursive=False):
                lb2 = lib.body(cp2)
                pm2 = lb2.calls(PM)
                cr2 = closure_creation(lib, cp2)
                if not pm2 or not cr2:
                    continue
                fl2 = forward_locals(lb, cr2[2]['p'][0])
                comb = [c for c in lb.calls(r'::any$|::all$') if op_local(c.args[1]) in fl2]
                if comb:
                    over_names = (comb[0].path.rsplit('::', 1)[-1], count_nots(lb2, backslice(lb2, [0])) % 2, pm2)
        if not pm and over_names is None:
            continue
        cr = closure_creation(lib, cp)
        which = None
        if cr:
            parent, bi, st = cr
            fl = forward_locals(parent, st['p'][0])
            for c in parent.calls(r'::any$|::all$'):
                if op_local(c.args[1]) in fl:
                    fld = backslice(parent, [c.args[0]]).field_names() & set(expect)
                    if fld:
                        which = sorted(fld)[0]
        if which is None:
            continue
        meth, nots = expect[which]
        n = count_nots(lb, backslice(lb, [0]))
        if over_names is not None:
            comb, inner, pm = over_names
            # "some name matches" = any(match); "no name matches" = all(!match): anything else (all(match), any(!match)) is neither
            if (comb, inner) == ('any', 0):
                pass
            elif (comb, inner) == ('all', 1):
                n += 1
            else:
                ctx.violation(rule, '%s|%s' % (cp, which), pm[0].where(), '%s: the names of the path are combined with %s(%smatch): neither "some name matches" nor "no name matches"' % (which, comb, '!' if inner else ''))
                continue
        got = pm[0].path.rsplit('::', 1)[-1]
        ctx.check(got == meth and n % 2 == nots, rule, '%s|%s' % (cp, which), pm[0].where(), '%s: %sPattern::%s' % (which, '!' if nots else '', meth),
                  '%s uses %sPattern::%s (expected %s%s)' % (which, '!' if n % 2 else '', got, '!' if nots else '', meth))


def r4(ctx):
    rule = 'C09.R4'
    lib = ctx.lib
    b = ctx.need_body(rule, W + 'visit_entry')
    if b is None:
        return
    P = b.path
    sites = visited_sites(lib, b)
    if ctx.floor(rule, 'visited.insert in visit_entry', len(sites), 1, b.where()):
        c, kbody, kcall = sites[0]
        ok = False
        for d in b.dominators()[c.bb]:
            t = b.blocks[d]['term']
            if t['k'] == 'switch' and 'follow_links' in backslice(b, [t['op']]).field_names():
                tt, ft = switch_targets_bool(t)
                n = count_nots(b, backslice(b, [t['op']]))
                ok = b.dominates(tt if n % 2 == 0 else ft, c.bb)
        ctx.check(ok, rule, P + '|visited-only-when-following', c.where(), 'the visited set is consulted only under follow_links', 'the visited set is consulted without follow_links (overlapping roots would lose files)')
        ksl = backslice(kbody, [kcall.args[1]])
        ctx.check(ksl.has_call(r'path::Path::hash128$') and ('path' in ksl.field_names() or 'path' in ksl.param_names(kbody)), rule, P + '|visited-key', kcall.where(), 'visited key = hash of the entry path', 'visited key is not derived from the entry path')
    sw = b.calls(r'str::<impl str>::starts_with$|::starts_with$')
    if ctx.floor(rule, 'hidden test (starts_with) in visit_entry', len(sw), 1, b.where()):
        c = sw[0]
        sl = backslice(b, [c.args[0]])
        pat = const_val(c.args[1]) or ''
        ok = sl.has_call(r'path::Path::file_name_cstr$|path::Path::file_name$') and "'.'" in pat
        ctx.check(ok, rule, P + '|hidden-test', c.where(), 'hidden = file name starts with "."', 'the hidden test is not `file_name starts with "."` (pattern %s)' % pat)
        okg = False
        for d in b.dominators()[c.bb]:
            t = b.blocks[d]['term']
            if t['k'] == 'switch' and 'hidden' in backslice(b, [t['op']]).field_names():
                tt, ft = switch_targets_bool(t)
                n = count_nots(b, backslice(b, [t['op']]))
                okg = b.dominates(ft if n % 2 == 0 else tt, c.bb)
        ctx.check(okg, rule, P + '|hidden-flag', c.where(), 'the test applies unless --hidden', 'the hidden test is not controlled by !self.hidden')
        # ... and not to the roots: a path the user named explicitly (level 0) is scanned even if its own name starts with a dot
        okr = False
        for cmp in comparisons(b):
            names_ = backslice(b, [cmp.a]).param_names(b) | backslice(b, [cmp.b]).param_names(b)
            if 'level' in names_:
                br = branch_of(b, cmp)
                if br and (b.dominates(br[1], c.bb) != b.dominates(br[2], c.bb)):
                    okr = True
        ctx.check(okr, rule, P + '|hidden-not-roots', c.where(), 'the hidden test is applied below the roots only (guarded by the nesting level)',
                  'the hidden test is applied to the roots as well: `fclones group .config`, or `fclones group .` inside a directory whose name starts with a dot, scans nothing and says nothing')
    gi = [c for c in b.calls(r'IgnoreStack::matches$')]
    if ctx.floor(rule, 'ignore-stack test in visit_entry', len(gi), 1, b.where()):
        c = gi[0]
        okg = False
        for d in b.dominators()[c.bb]:
            t = b.blocks[d]['term']
            if t['k'] == 'switch' and 'no_ignore' in backslice(b, [t['op']]).field_names():
                tt, ft = switch_targets_bool(t)
                n = count_nots(b, backslice(b, [t['op']]))
                okg = b.dominates(ft if n % 2 == 0 else tt, c.bb)
        ctx.check(okg, rule, P + '|ignore-flag', c.where(), 'ignore files apply unless --no-ignore', 'the ignore test is not controlled by !self.no_ignore')
        # ... and, like the hidden test, not to the input paths themselves: at level 0 the stack holds only the global excludes of git
        okr = False
        for cmp in comparisons(b):
            names_ = backslice(b, [cmp.a]).param_names(b) | backslice(b, [cmp.b]).param_names(b)
            if 'level' in names_:
                br = branch_of(b, cmp)
                if br and (b.dominates(br[1], c.bb) != b.dominates(br[2], c.bb)):
                    okr = True
        ctx.check(okr, rule, P + '|ignore-not-roots', c.where(), 'the ignore test is applied below the input paths only (guarded by the nesting level)',
                  'the ignore test is applied to the input paths themselves: at level 0 the stack holds the global excludes of git (core.excludesFile, ~/.config/git/ignore), so `fclones group build` '
                  'with `build/` in that file - or `fclones group x.bak y.bak` with `*.bak` - scans nothing and says nothing, although the user named these paths')
    # dispatch: every entry type goes to its visitor
    disp = {c.path.rsplit('::', 1)[-1] for c in b.calls(r"Walk::<'a>::visit_(file|dir|link)$")}
    ctx.check(disp == {'visit_file', 'visit_dir', 'visit_link'}, rule, P + '|dispatch', b.where(), 'files, directories and links are dispatched to their visitors', 'dispatch covers only %s' % sorted(disp))


def r5(ctx):
    rule = 'C09.R5'
    lib = ctx.lib
    sel = 'selector::PathSelector::'
    for fn, must in (('include_paths', True), ('exclude_paths', True), ('include_names', False)):
        b = ctx.need_body(rule, sel + fn)
        if b is None:
            continue
        used = any(lib.body(p).calls(r'PathSelector::abs_pattern$') for p in [b.path] + lib.closures_of(b.path))
        ctx.check(used == must, rule, b.path + '|anchoring', b.where(), ('patterns anchored with abs_pattern(base_dir, _)' if must else 'name patterns are not anchored'),
                  ('relative path patterns are not anchored at the base directory' if must else 'name patterns are anchored like paths'))
    ap = ctx.need_body(rule, sel + 'abs_pattern')
    if ap is not None and not ap.calls(r'PathSelector::is_absolute$'):
        # the anchoring proper may live in a helper of the selector that abs_pattern calls
        for k in ap.calls(r'^selector::PathSelector::\w+$'):
            hb = lib.body(k.path)
            if hb is not None and hb.calls(r'PathSelector::is_absolute$'):
                ap = hb
    if ap is not None:
        ia = ap.calls(r'PathSelector::is_absolute$')
        lit = ap.calls(r'pattern::Pattern::literal$')
        add = ap.calls(r'Pattern as std::ops::Add.*>::add$')
        good = bool(ia and lit and add)
        if good:
            g = guarded_by_call(ap, add[0].bb, r'PathSelector::is_absolute$')
            good = g is None     # concatenation on the *false* side
            lsl = backslice(ap, [lit[0].args[0]])
            good = good and 1 in lsl.params and lsl.has_call(r'PathSelector::append_sep$')
            asl0, asl1 = backslice(ap, [add[0].args[0]]), backslice(ap, [add[0].args[1]])
            good = good and lit[0] in asl0.calls and 2 in asl1.params
        ctx.check(bool(good), rule, ap.path, ap.where(), 'relative pattern -> literal(base_dir + "/") + pattern; absolute patterns unchanged', 'abs_pattern does not prefix relative patterns with the literal base directory')
        if add:
            # the relative pattern loses a leading `./` before it is anchored
            rsl = backslice(ap, [add[0].args[1]])
            strips = [c for c in ap.calls(r'Pattern::strip_literal_prefix$|str::<impl str>::(strip_prefix|trim_start_matches)$')]
            allv = [v or '' for c in strips for v in slice_const_values(lib, backslice(ap, c.args[1:]))] + [v for v in _all_consts(ap)]
            dot = any(v in ('"."', '"./"') for v in allv) and bool(strips)
            dotdot = any(v in ('".."', '"../"') for v in allv) and bool(strips) and bool(ap.calls(r'path::Path::parent$'))
            ctx.check(dotdot, rule, ap.path + '|parent-dir-prefix', add[0].where(), 'a leading `../` of a relative pattern is resolved against the parent of the base directory',
                      'a relative pattern that starts with `../` is appended to the base directory as text: `<cwd>/../b/*` matches no scanned path (they are canonical), so `group ../b --path "../b/*"` selects '
                      'nothing and `--exclude "../b/sub/**"` excludes nothing, although the input path `../b` of the same command is resolved')
            ctx.check(bool(strips) and dot, rule, ap.path + '|current-dir-prefix', add[0].where(), 'a leading `./` of a relative pattern is removed before the base directory is prepended',
                      'a relative pattern is appended to the base directory as it is: `--path "./a/*"` becomes `<cwd>/./a/*`, which matches no scanned path (they have no `.` components), '
                      'and `--exclude "./a/*"` excludes nothing')
        ib = lib.body(sel + 'is_absolute')
        if ib is not None:
            # absoluteness is decided on the first literal of the pattern, also when the pattern starts with a group
            peeks = [c for c in ib.calls(r'str::<impl str>::(strip_prefix|trim_start_matches)$') if any("'('" in (v or '') or '"("' in (v or '') or '"(?:"' in (v or '') for v in slice_const_values(lib, backslice(ib, c.args[1:])))]
            # the bodies that decide: is_absolute and the helpers of the selector it calls
            ibh = [ib] + [hb for k in ib.calls(r'^selector::PathSelector::\w+$') for hb in [lib.body(k.path)] if hb is not None]
            ibh += [lib.body(cp) for x in list(ibh) for cp in lib.closures_of(x.path)]
            PM = r'Pattern::(matches_partially|can_start_with)$|Regex::(is_partial_match|can_start_with)$'
            def sep_arg(x, c):
                return any('MAIN_SEPARATOR' in str(v) or str(v) in ('"/"', "'/'") for a in c.args[1:] for v in slice_const_values(lib, backslice(x, [a]))) or \
                    any('MAIN_SEPARATOR' in str(v) for a in c.args[1:] for k_ in [backslice(x, [a])] for v in [str(kk) for kk in k_.consts])
            pm_ = [(x, c) for x in ibh for c in x.calls(PM)]
            semantic = any(sep_arg(x, c) for x, c in pm_)
            # (a test on what the pattern can match subsumes the two spelling tests below)
            ctx.check(bool(peeks) or semantic, rule, ib.path + '|looks-into-groups', ib.where(), 'is_absolute skips the opening of leading groups before testing for the root',
                      'is_absolute tests only the first characters of the translated pattern: a glob that starts with an alternation of absolute paths (`{/x/a,/x/b}/**` -> `(/x/a|/x/b)/.*`) counts as '
                      'relative, gets the working directory prepended and matches nothing')
            # ... and the flag groups a regex may start with: `(?i)/abs/..`, `(?s-u:/abs/..)` - anything between `(?` and `)` / `:`
            ibs = [ib] + [lib.body(x) for x in lib.closures_of(ib.path)]
            cv = [str(v or '') for x in ibs for c in x.calls(r'str::<impl str>::(strip_prefix|trim_start_matches|split_once|find|starts_with)$') for v in slice_const_values(lib, backslice(x, c.args[1:]))]
            generic = any(v in ("'?'", '"?"', '"(?"') for v in cv) and any(v in ("')'", '")"') for v in cv)
            generic = generic or any(c.matches(r'^regex_syntax::') for x in ibs for c in x.calls())
            ctx.check(generic or semantic, rule, ib.path + '|skips-inline-flags', ib.where(), 'is_absolute also skips an inline flag group (`(?i)`, `(?i-u:`) in front of the root',
                      'is_absolute knows `(` and `(?:` only: an absolute --regex pattern that starts with inline flags, `(?i)/data/.*`, counts as relative and becomes `<cwd>/(?i)/data/.*`, '
                      'which matches nothing - as --path it selects nothing, as --exclude it excludes nothing, silently')
            # ... and on what the expression can match rather than on how it is spelled: a partial match of the pattern against the root separator
            pm = [c for x, c in pm_]
            ctx.check(semantic, rule, ib.path + '|by-what-it-matches', (pm[0].where() if pm else ib.where()),
                      'a pattern that can match a path beginning with the separator is absolute, however it is spelled',
                      'is_absolute looks at the first characters of the expression only (`/`, `.*`, after `(`, `(?:`, `(?i)`): `.+/sub/.+`, `\\/tmp\\/x\\/.*` (escaped slashes), `[/]tmp/.*`, `\\S+\\.jpg` '
                      'match absolute paths but count as relative and get the working directory prepended - as --path they select nothing, as --exclude they exclude nothing and the files end up in '
                      'the report that is fed to `remove`')
            # ... but "can match a path that begins with the separator" alone is also true of a RELATIVE pattern whose first component may be empty
            # (`*/cache/**` -> `[^/]*/cache/.*`) or whose first token is a negated class: the test with one separator needs its complement -
            # nothing but the separator can come first (a test over the other first bytes) - or a candidate of many separators (`.+/a`)
            weak = None
            for x, c in pm_:
                if not sep_arg(x, c):
                    continue
                one = False
                for a in c.args[1:]:
                    sl_ = backslice(x, [a])
                    arr = [st for blk in x.blocks for st in blk['stmts'] if st['p'][0] in sl_.locals and st['rv']['k'] == 'agg' and st['rv'].get('ak') == 'array']
                    rep = [st for blk in x.blocks for st in blk['stmts'] if st['p'][0] in sl_.locals and st['rv']['k'] == 'repeat']
                    strs = [str(v) for v in slice_const_values(lib, sl_) if str(v) in ('"/"', "'/'")]
                    if (arr and all(len(st['rv']['ops']) == 1 for st in arr) and not rep) or (strs and not arr and not rep) or (sl_.has_call(r'ToString>::to_string$|String::as_str$') and not rep and not arr):
                        one = True
                if one and not x.calls(r'Iterator::(all|any)$|Iterator>::(all|any)$'):
                    weak = c
            ctx.check(weak is None, rule, ib.path + '|one-separator-is-not-enough', (weak.where() if weak else ib.where()),
                      'a pattern is taken for absolute only if nothing but the separator can come first (or it starts with something that spans directories)',
                      'a pattern counts as absolute as soon as it CAN match a path that begins with the separator: that is also true of relative globs whose first component may be empty or whose first '
                      'token is a negated class - `*/cache/**`, `*/*`, `?(a)/x`, `[!a]*` - so they are no longer anchored at the working directory: `--exclude "*/cache/**"` excludes nothing, '
                      '`--path "*/cache/*"` selects nothing and `remove --keep-path "*/orig/**"` protects nothing')
            # ... and the candidate of many separators says "spans directories" only about an expression the user wrote as a regex: a relative GLOB whose
            # first component may be empty and that goes on with `**` (`*/**` -> `[^/]*/.*`) accepts it as well
            many = []
            for x, c in pm_:
                for a in c.args[1:]:
                    sl_ = backslice(x, [a])
                    rep = [st for blk in x.blocks for st in blk['stmts'] if st['p'][0] in sl_.locals and
                           (st['rv']['k'] == 'repeat' or (st['rv']['k'] == 'agg' and st['rv'].get('ak') == 'array' and len(st['rv']['ops']) > 1))]
                    # (a constant array is promoted: `&[u8; 16]`)
                    prom = [m for kk in sl_.consts for m in re.finditer(r'\[u8; (\d+)\]', str(kk)) if int(m.group(1)) > 1]
                    if rep or prom:
                        many.append((x, c))
            bad_many = None
            def regex_side(x, bb):
                return guard_side(x, bb, r'Pattern::is_glob$') is False or guard_side(x, bb, r'Pattern::is_regex$') is True
            for x, c in many:
                ok_ = regex_side(x, c.bb)
                if not ok_ and x.path != ib.path:
                    # guarded where is_absolute calls the helper
                    ks = ib.calls('^' + re.escape(x.path) + '$')
                    ok_ = bool(ks) and all(regex_side(ib, k.bb) for k in ks)
                if not ok_:
                    bad_many = c
            ctx.check(bad_many is None, rule, ib.path + '|many-separators-is-for-regexes', (bad_many.where() if bad_many else ib.where()),
                      'the many-separators candidate ("starts with something that spans directories") is asked about regexes only, %d site(s) guarded by the kind of the pattern' % len(many),
                      'a pattern counts as absolute when it can match a path that begins with many separators, whatever kind of pattern it is: that is also true of the relative GLOBS whose first '
                      'component may be empty and that go on with `**` - `*/**`, `*/**/*.jpg`, `?(sub)/**` - they are matched against the whole absolute path, whose first component is empty: '
                      '`--path "*/**"` selects everything, `--exclude "*/**"` excludes everything and `remove --path "*/**"` deletes files outside the working directory')
        # ... and per ALTERNATIVE: `{**/*.jpg,raw/*}`, `@(/abs/x|rel/y)`, `a/.*|/b/.*` are choices between patterns of their own, which may be of different
        # kinds; the first one must not decide for all (the others would be anchored, or left unanchored, wrongly and match nothing - silently)
        ab = lib.body(sel + 'abs_pattern')
        if ab is not None:
            abb = [ab] + [lib.body(cp) for cp in lib.closures_of(ab.path)]
            splits = [c for x in abb for c in x.calls(r'^pattern::Pattern::\w+$') if re.search(r'Vec<pattern::Pattern>', c.dty or '')]
            joins = [c for x in abb for c in x.calls(r'pattern::Pattern::or$')] or [c for x in abb for c in x.calls(r'Iterator::reduce$|Iterator::fold$')]
            each = [c for x in abb for c in x.calls(r'PathSelector::(abs_pattern|anchored_pattern)$') if x.path != ab.path]
            ctx.check(bool(splits) and bool(joins) and bool(each), rule, ab.path + '|decided-per-alternative', (splits[0].where() if splits else ab.where()),
                      'a pattern that is a choice between alternatives is split, every alternative is anchored on its own, and the results are or-ed',
                      'a pattern that is an alternation is classified as absolute or relative by its FIRST alternative and anchored (or not) as a whole: `--path "{**/*.jpg,raw/*}"` selects only the '
                      'jpg files (`raw/*` can never match) while `{raw/*,**/*.jpg}` selects both kinds; `--exclude "{**/*.jpg,cache/**}"` does not exclude cache/** - the files end up in the report')
        # ... unless taking the pattern apart would change what an alternative means: an inline flag `(?i)` applies to everything after it, across the `|`
        alt = lib.body('pattern::Pattern::alternatives')
        if alt is not None:
            consts = [v for p_, x in lib.bodies.items() if p_.startswith('pattern::Pattern::alternatives') or '<pattern::Pattern::alternatives::' in p_ for v in _all_consts(x)]
            # (a search for `(?` followed by flag letters and `)`: a regex source like `\(\?[a-zA-Z-]+\)`, or the literals "(?i)" / "(?x)" ..)
            knows_flags = any(re.search(r'\(\\*\?\[[^\]]*\][+*]?\\*\)|\(\?[a-zA-Z-]+\)', str(v)) for v in consts) and 'None' in return_variants_from(alt, 0)
            ctx.check(knows_flags, rule, alt.path + '|inline-flags-keep-their-scope', alt.where(), 'a pattern with an inline flag group is not taken apart',
                      'the pattern text is cut at the top-level `|` and every piece compiled on its own, but an inline flag such as `(?i)` applies up to the end of its group, across the `|`: after the '
                      'cut it stays in the first piece only - `--regex --exclude "(?i).*\\.jpg|.*\\.png"` keeps p.PNG, `--path "(?i)photos/.*|docs/.*"` drops Docs/*, while the same pattern works with --name')
        if lit:
            # the literal is made of exactly the text the paths are matched as (to_string_lossy): no character substitution on the way
            lsl = backslice(ap, [lit[0].args[0]])
            subst = [c for c in lsl.calls if c.matches(r'str::<impl str>::(replace|replacen|to_\\w*case|trim\\w*)$')]
            ctx.check(lsl.has_call(r'to_string_lossy$') and not subst, rule, ap.path + '|base-text-unchanged', (subst[0].where() if subst else lit[0].where()),
                      'the base directory becomes a literal pattern as the same lossy text that paths are matched as',
                      'the text of the base directory is edited (%s) before it is escaped by Pattern::literal: the substitute is escaped too and then matches only itself, not the character it '
                      'stands for in the paths (U+FFFD -> `?` -> `\\\\?`): under a working directory whose name is not valid UTF-8 every relative --path / --exclude pattern matches nothing' % (
                          subst[0].path.rsplit('::', 1)[-1] if subst else 'no to_string_lossy'))
    gc = lib.body("group::GroupCtx::<'a>::new") or lib.body('group::GroupCtx::new')
    for b in lib.find(r'^group::GroupCtx::<.*>::new$|^group::GroupCtx.*::path_selector$|^config::GroupConfig::path_selector$'):
        ctx.fn(b)


def r67(ctx):
    lib = ctx.lib
    rule = 'C09.R6'
    b = lib.body(W + 'visit_dir')
    if b is not None:
        rd = b.calls(r'^std::fs::read_dir$')
        md = b.calls(r'PathSelector::matches_dir$')
        sf = b.calls(r"Walk::<'a>::same_fs$")
        cmps = [c for c in comparisons(b) if 'depth' in (backslice(b, [c.a]).field_names() | backslice(b, [c.b]).field_names())]
        if rd and md and sf and cmps:
            atoms = {'deep': cmps[0].bb, 'matches_dir': md[0].bb, 'same_fs': sf[0].bb, 'one_fs': ('field', 'one_fs'), 'no_ignore': ('field', 'no_ignore')}
            mv = b.calls(r"Walk::<'a>::mark_visited$")
            if mv:
                atoms['first_visit'] = mv[0].bb
                atoms['follow_links'] = ('field', 'follow_links')
            # when links are followed the include patterns cannot prune a directory (the links in it lead anywhere): a second predicate, the
            # exclude-only one, takes the place of matches_dir on that side
            mdl = b.calls(r'PathSelector::matches_dir_following_links$')
            if mdl:
                atoms['matches_dir_links'] = mdl[0].bb
                atoms['follow_links'] = ('field', 'follow_links')
            tt = truth_table(b, atoms, target_bb=rd[0].bb, field_owner='Walk')
            # `deep` = the depth comparison as written (true = too deep after C09.R1 normalisation is checked separately)
            br = branch_of(b, cmps[0])
            deep_true_skips = br is not None and not b.dominates(br[1], rd[0].bb)
            sel = (lambda a: (a['matches_dir_links'] if a['follow_links'] else a['matches_dir'])) if mdl else (lambda a: a['matches_dir'])
            ok, why = table_equals(tt, lambda a: (not a['deep'] if deep_true_skips else a['deep']) and sel(a) and ((not a['one_fs']) or a['same_fs']) and
                                   ((not a['follow_links']) or a['first_visit'] if mv else True))
            ctx.check(ok, rule, b.path + '|read-condition', rd[0].where(), 'read_dir iff within depth && %s && (!one_fs || same_fs)%s  [%s]' % ('(follow_links ? not excluded : matches_dir)' if mdl else 'matches_dir', ' && (!follow_links || not visited yet at this or a smaller level)' if mv else '', why),
                      'the condition under which a directory is read differs: %s' % why)
            # under -L the include side of matches_dir must not decide: the paths that get matched are those of the link targets
            if mv:
                tt2 = truth_table(b, dict(atoms), target_bb=md[0].bb, field_owner='Walk')
                under_links = False
                if tt2:
                    names2, table2 = tt2
                    for k_, res in table2.items():
                        a_ = dict(zip(names2, k_))
                        if a_.get('follow_links') is True and ((res is True) or (isinstance(res, str) and 'True' in res)):
                            under_links = True
                ctx.check(bool(mdl) and not under_links, rule, b.path + '|no-include-pruning-under-links', md[0].where(), 'with follow_links the include patterns do not prune directories (only the exclude-subtree test does)',
                          'visit_dir prunes a directory whose own path cannot begin an included path also under --follow-links: but there the files are matched and reported by the paths of the link '
                          'TARGETS - `fclones group links -L --path "/data/real/**"` (links/inner/dirlink -> /data/real) reports nothing, because `links` itself is pruned at level 0')
            # same_fs is asked about this directory and the root device
            ok2 = 2 in backslice(b, [sf[0].args[1]]).params and 3 in backslice(b, [sf[0].args[2]]).params
            ctx.check(ok2, rule, b.path + '|same_fs-args', sf[0].where(), 'same_fs(path, root device)', 'same_fs is asked about something else')
        else:
            ctx.missing(rule, 'read_dir / matches_dir / same_fs / depth comparison in visit_dir', b.where())
    rule = 'C09.R7'
    b = lib.body(W + 'visit_link')
    if b is None:
        ctx.missing(rule, 'fn visit_link')
        return
    ctx.fn(b)
    rl = b.calls(r"Walk::<'a>::resolve_link$")
    vf = b.calls(r"Walk::<'a>::visit_file$")
    vp = b.calls(r"Walk::<'a>::visit_path$")
    sf = b.calls(r"Walk::<'a>::same_fs$")
    if not (rl and vf and vp and sf):
        ctx.missing(rule, 'resolve_link / visit_file / visit_path / same_fs in visit_link', b.where())
        return
    # is the resolved entry a file?  atom = the switch on the EntryType discriminant: handled as "explore both ways", so the
    # tables below are over the option flags and same_fs; both outcomes of the type test must be consistent with them
    atoms = {'follow_links': ('field', 'follow_links'), 'report_links': ('field', 'report_links'), 'one_fs': ('field', 'one_fs'), 'same_fs': sf[0].bb}
    t_res = truth_table(b, atoms, target_bb=rl[0].bb, field_owner='Walk')
    ok, why = table_equals(t_res, lambda a: a['follow_links'] or a['report_links'])
    ctx.check(ok, rule, b.path + '|resolve-condition', rl[0].where(), 'the link is resolved iff follow_links || report_links  [%s]' % why, 'link resolution condition differs: %s' % why)
    # visit_file (report the link) requires report_links; visit_path (follow) requires follow_links && (!one_fs || same_fs)
    def necessary(target, cond, what, key):
        # (each arm may ask same_fs on its own: the one on the way to this target)
        mine = [c for c in sf if target.bb in b.reachable(c.bb)]
        atoms_ = dict(atoms, same_fs=(mine[-1].bb if mine else sf[0].bb))
        tt = truth_table(b, atoms_, target_bb=target.bb, field_owner='Walk')
        if tt is None:
            ctx.violation(rule, key, target.where(), 'cannot fold the guard of %s' % what)
            return
        names, table = tt
        bad = []
        for k_, res in table.items():
            a = dict(zip(names, k_))
            reach = (res is True) or (isinstance(res, str) and 'True' in res)
            try:
                allowed = cond(a)
            except TypeError:
                allowed = True
            if reach and not allowed:
                bad.append({k: v for k, v in a.items() if v is not None})
        ctx.check(not bad, rule, key, target.where(), '%s only under its documented condition' % what, '%s is reachable with %s' % (what, bad[:2]))

    class A(dict):
        def __getitem__(self, k):
            v = dict.__getitem__(self, k)
            if v is None:
                raise TypeError(k)
            return v
    necessary(vf[0], lambda a: A(a)['report_links'], 'reporting the link itself (visit_file)', b.path + '|report-needs-report_links')
    # a reported link carries the identity, the length and the DATA of its target: under --one-fs a link that leaves the file system of its root is
    # not reported either (the sibling arm, following, refuses it)
    vf_sf = [c for c in sf if vf[0].bb in b.reachable(c.bb)]
    if vf_sf:
        necessary(vf[0], lambda a: (not A(a)['one_fs']) or A(a)['same_fs'], 'reporting a link whose target is on another file system', b.path + '|reported-link-stays-on-the-file-system')
    else:
        ctx.violation(rule, b.path + '|reported-link-stays-on-the-file-system', vf[0].where(),
                      'the arm that reports a link to a file itself (-S) does not ask same_fs, the arm that follows links does: `group -S --one-fs d` matches d/a with d/l -> /dev/shm/b, i.e. with data '
                      'stored on another file system, while `group -L --one-fs d` does not follow that link')
    necessary(vp[0], lambda a: A(a)['follow_links'] and ((not A(a)['one_fs']) or A(a)['same_fs']), 'following the link (visit_path)', b.path + '|follow-needs-follow_links')
    # pruning by an exclude pattern must not change the result: a directory fully covered by `x/**` is not read, so the links in it are never seen - a link
    # whose own path is excluded is then not followed either, whatever form the pattern has (`x/*`, a regex, an alternation cannot be used for pruning)
    side = guard_side(b, vp[0].bb, r'PathSelector::(is_excluded|matches_full_path)$')
    ex_calls = b.calls(r'PathSelector::(is_excluded|matches_full_path)$')
    on_link = any(2 in backslice(b, [a]).params and rl[0] not in backslice(b, [a]).calls for c in ex_calls for a in c.args[1:])
    ctx.check(bool(ex_calls) and on_link and ((side is False and ex_calls[0].path.endswith('is_excluded')) or (side is True and ex_calls[0].path.endswith('matches_full_path'))), rule,
              b.path + '|excluded-link-not-followed', (ex_calls[0].where() if ex_calls else vp[0].where()), 'a link whose own path matches an exclude pattern is not followed',
              'visit_link never consults the exclude patterns: with -L a link in a directory that an exclude pattern ending in `**` covers is not followed (the directory is pruned), but the same link is '
              'followed when the pattern cannot be used for pruning - `--exclude "$PWD/scan/skip/**"` reports scan/keep/k only, `--exclude "{$PWD/scan/skip/**,/nonexistent}"` and `--regex --exclude '
              '"$PWD/scan/skip/.+"` (the same set of paths) report store/f1 and store/f2 as well')
    # the followed path is the resolved target, the reported path is the link itself; level is passed on unchanged (C09.R1)
    tsl = backslice(b, [vp[0].args[1]])
    ctx.check(rl[0] in tsl.calls, rule, b.path + '|follows-target', vp[0].where(), 'the followed path is the resolved target', 'the followed path is not the resolved target')
    lsl = backslice(b, [vf[0].args[1]])
    ctx.check(2 in lsl.params and rl[0] not in lsl.calls, rule, b.path + '|reports-link', vf[0].where(), 'the reported path is the link itself', 'the reported path is not the link')
    # same_fs is asked about the target
    ctx.check(all(rl[0] in backslice(b, [c.args[1]]).calls for c in sf), rule, b.path + '|same_fs-target', sf[0].where(), 'one_fs is decided on the link target', 'one_fs is not decided on the link target')


def r18(ctx):
    rule = 'C09.R18'
    lib = ctx.lib
    b = None
    for p_, x in lib.bodies.items():
        if re.search(r'^<file::FileLen as std::str::FromStr>::from_str$', p_):
            b = x
    if b is None:
        ctx.missing(rule, '<FileLen as FromStr>::from_str')
        return
    bodies = [b] + [lib.body(cp) for cp in lib.closures_of(b.path)]
    narrowing = [(x, st) for x in bodies for blk in x.blocks for st in blk['stmts'] if st['rv']['k'] == 'cast' and st['rv'].get('ty') == 'u64' and
                 'u128' in (x.local_ty(op_local(st['rv']['op'])) if op_local(st['rv'].get('op') or {}) is not None else '')]
    checked = [c for x in bodies for c in x.calls(r'TryFrom<.*::try_from$|TryInto<.*::try_into$|::checked_|::saturating_')]
    ctx.check(not narrowing and bool(checked), rule, b.path + '|size-limit-not-wrapped', (b.where(narrowing[0][1]['line']) if narrowing else b.where()), 'the parsed size is converted to u64 with a checked conversion',
              'the size given with --min / --max is parsed into a u128 and narrowed with `as u64`, i.e. modulo 2^64: `--max 16EiB` (and `--max 18446744073709551615`, which the parser rounds up) becomes 0 and '
              'selects nothing, `-s 16EiB` becomes 0 and selects everything - even the default minimum of 1 byte is gone - silently, with exit code 0')

"""C18 - `move` maps sources injectively and never overwrites."""
import re
from . import register
from .common import ordered_chain, err_handling
from .c20 import follow_to_params
from ..analysis import (backslice, switch_on_result_of, return_variants_from, comparisons, branch_of, variant_arms,
                        dominated_region)
from ..facts import op_local, place_fields

DOC = {
    'explanation': 'Structural clauses behind `move`: the existence check dominates rename/copy and its failure is propagated (R1), the source is removed only '
                   'after a successful copy (R2), the target path derives from the target directory, the root name and the source path without its root (R3), '
                   'rename is used only when source and DIR share a mount point and DIR is resolved against the working directory (R4), and the existence test '
                   'does not follow symbolic links, so that a dangling symlink at the target counts as existing (R5).',
    'rules': {
        'C18.R1': 'check_can_rename(source, target)? dominates unsafe_rename / unsafe_copy in move_rename and move_copy; a positive existence test returns Err',
        'C18.R2': 'move_copy removes the source only after the copy succeeded (= C05.R3)',
        'C18.R3': 'move_target = target_dir.join([root name]).join(source.strip_root()); the Move command\'s target is move_target(target_dir, <the dropped file\'s path>)',
        'C18.R4': 'use_rename = are_on_same_mount(devices, source, target_dir) (mount points compared for equality); execute tries rename only under use_rename; DIR is resolved against the working directory in main',
        'C18.R6': 'the device table cannot make `move` panic: a vector of DiskDevices that is indexed with a constant (devices[0], the default device) is one that DiskDevices::new() pushes to unconditionally; the list of mount points comes from sysinfo and can be empty, so it is only searched',
        'C18.R5': 'only a missing target is a free target: any other failure of the lstat refuses the move, and the first existing ancestor of the target must be a directory (the parents are created by mkdirs, which fails on a file or a dangling link in their place - after the command has been announced); the existence test in check_can_rename does not follow symlinks (uses symlink_metadata / lstat)',
    },
    'not_decided': 'the time-of-check/time-of-use window between the existence test and rename/copy; mount-point detection on real systems; byte preservation by fs::copy',
    'assumptions': ['std::fs::rename and std::fs::copy overwrite an existing target; Path::exists follows symbolic links'],
}


@register('C18', DOC)
def run(ctx):
    lib = ctx.lib
    for fn, last in (('move_rename', ('unsafe_rename', r'FsCommand::unsafe_rename$|^std::fs::rename$')), ('move_copy', ('unsafe_copy', r'FsCommand::unsafe_copy$|^std::fs::copy$'))):
        b = ctx.need_body('C18.R1', 'dedupe::FsCommand::' + fn)
        if b is None:
            continue
        calls = ordered_chain(ctx, 'C18.R1', b, [('check_can_rename', r'FsCommand::check_can_rename$'), last], b.path)
        if calls:
            chk = calls[0]
            good = backslice(b, [chk.args[0]]).params == {1} and backslice(b, [chk.args[1]]).params == {2}
            ctx.check(good, 'C18.R1', b.path + '|check-args', chk.where(), 'check_can_rename(source, target)', 'check_can_rename is not applied to (source, target)')
            tgt = calls[1]
            good = backslice(b, [tgt.args[1]]).params == {2}
            ctx.check(good, 'C18.R1', b.path + '|same-target', tgt.where(), 'the checked target is the written target', 'the written target is not the checked one')
    r15(ctx, lib)
    r2(ctx, lib)
    r3(ctx, lib)
    r4(ctx, lib)
    r6(ctx, lib)
    if ctx.tier == 'thorough' and not getattr(ctx, 'sibling', None):
        from .. import sweep
        sweep.double_stat(ctx, 'C18.R5')


EXIST_FOLLOW = r'^std::path::Path::(exists|try_exists|metadata|is_file|is_dir)$|^std::fs::(metadata|exists)$|^std::fs::File::open$'
EXIST_NOFOLLOW = r'^std::path::Path::(symlink_metadata|is_symlink)$|^std::fs::symlink_metadata$|nix::sys::stat::lstat$|^libc::lstat'


def r6(ctx, lib):
    """DiskDevices: an element fetched with a constant index exists by construction (new() pushes to that vector unconditionally)."""
    rule = 'C18.R6'
    nb = ctx.need_body(rule, 'device::DiskDevices::new')
    if nb is None:
        return
    # fields of DiskDevices that new() (or a helper it calls outside of any loop) pushes to on every path
    def pushes(body):
        out = {}
        for c in body.calls(r'Vec<.*>::push$|Vec::<T, A>::push$'):
            fs = backslice(body, [c.args[0]]).field_names()
            for f in fs:
                out.setdefault(f, []).append(c)
        return out
    def in_loop(body, bb):
        return any(bb in body.reachable(x) for x in body.succs(bb))
    sure = set()
    rets = nb.return_blocks()
    for c in nb.calls():
        if in_loop(nb, c.bb) or not all(nb.dominates(c.bb, r) for r in rets):
            continue
        if c.matches(r'Vec<.*>::push$|Vec::<T, A>::push$'):
            sure |= set(backslice(nb, [c.args[0]]).field_names())
        else:
            hb = lib.body(c.path) if c.path and c.path.startswith('device::DiskDevices::') else None
            if hb is not None:
                from .common import bypass_decisions
                for f, cs in pushes(hb).items():
                    for k in cs:
                        if in_loop(hb, k.bb):
                            continue
                        # a path that returns without the push is one on which an element of the same vector has been found
                        found = True
                        for d, _by in bypass_decisions(hb, k.bb):
                            dsl = backslice(hb, [hb.blocks[d]['term']['op']])
                            if not (f in dsl.field_names() and dsl.has_call(r'::(find_position|position|find|any|contains|first|last|get|is_empty|len)$')):
                                found = False
                        if found:
                            sure.add(f)
    n = 0
    for p_, b in sorted(lib.bodies.items()):
        if not p_.startswith('device::DiskDevices::') or re.search(r'(^|::)tests?(::|$)', p_):
            continue
        for c in b.calls(r'as std::ops::Index<.*>>::index$'):
            if len(c.args) < 2 or 'k' not in c.args[1]:
                continue            # not a constant index
            fs = set(backslice(b, [c.args[0]]).field_names()) & {'devices', 'mount_points'}
            for f in sorted(fs):
                n += 1
                ctx.check(f in sure, rule, '%s|%s[const]' % (p_, f), c.where(), '`%s` is never empty: DiskDevices::new() adds an element unconditionally' % f,
                          '`self.%s[..]` is evaluated with a constant index, but DiskDevices::new() fills that vector only from the disk list of sysinfo, which is empty on a system without a disk-backed '
                          'mount (tmpfs root, initramfs, container): the index panics - `fclones move DIR` (get_mount_point, for every file to move, also with --dry-run) dies with exit 101' % f)
    ctx.floor(rule, 'constant indexes into the vectors of DiskDevices', n, 1)


def r15(ctx, lib):
    b = ctx.need_body('C18.R5', 'dedupe::FsCommand::check_can_rename')
    if b is None:
        return
    P = b.path
    # the decision: a switch whose one side returns Err(AlreadyExists...) and the other Ok
    decisions = []
    for bi, blk in enumerate(b.blocks):
        t = blk['term']
        if t['k'] == 'switch' and not blk['cleanup']:
            sl = backslice(b, [t['op']])
            if 2 in sl.params or 1 in sl.params:
                decisions.append((bi, t, sl))
    if not decisions:
        ctx.missing('C18.R5', 'existence decision in check_can_rename', b.where())
        return
    follow, nofollow, on_target = [], [], False
    for bi, t, sl in decisions:
        for c in sl.calls:
            # the test of the target itself, not of one of its ancestors (those are directories to be, and links to directories are fine there)
            if backslice(b, c.args[:1]).has_call(r'path::Path::parent$'):
                continue
            if c.matches(EXIST_NOFOLLOW):
                nofollow.append(c)
            elif c.matches(EXIST_FOLLOW):
                follow.append(c)
        if 2 in sl.params:
            on_target = True
    line = b.blocks[decisions[0][0]]['term']['line']
    ctx.check(on_target, 'C18.R1', P + '|tests-target', b.where(line), 'the existence test is applied to `target`', 'the existence test is not applied to the target parameter')
    ctx.check(bool(nofollow), 'C18.R5', P + '|no-follow', b.where(line),
              'existence decided by %s (does not follow symlinks)' % ', '.join(sorted({c.path for c in nofollow})),
              'existence decided only by %s, which follows symbolic links: a dangling symlink at the target is treated as absent and overwritten'
              % ', '.join(sorted({c.path for c in follow}) or ['<no stat call>']))
    # "free" means "not there": every other failure of the lstat (a file in the place of a parent directory: ENOTDIR, ...) refuses the move too,
    # and the first existing ancestor of the target has to be a directory - otherwise mkdirs() fails in execute() for a command that was announced
    from ..analysis import slice_const_values
    nf = [kc for kc in b.calls(r'ErrorKind as std::cmp::PartialEq>::eq$') if any(str(v).endswith('ErrorKind::NotFound') for a in kc.args for v in slice_const_values(lib, backslice(b, [a])))]
    anc = b.calls(r'path::Path::parent$')
    isdir = b.calls(r'Metadata::is_dir$|Path::is_dir$')
    loop = any(c.bb in b.reachable(x) for c in anc for x in b.succs(c.bb))
    ctx.check(bool(nf) and bool(anc) and bool(isdir) and loop, 'C18.R5', P + '|parents-checked', b.where(line),
              'only NotFound counts as a free target, and the first existing ancestor of the target must be a directory',
              'check_can_rename reads every failure of the lstat as "the target is free" and does not look at the parents: with a regular file (or a dangling link) where a parent directory of the '
              'target is needed - `DIR/home/u/a` is a file, or DIR itself is one - the command passes the precondition, `move --dry-run` prints it and counts the file, and the real run fails in '
              'mkdirs ("File exists" / "Not a directory")')
    # the walk runs while other threads create these very directories (mkdirs of their own moves): "absent" from one stat and "present" from a
    # second stat of the same ancestor is then no evidence of a dangling link - a refusal must not hang on such a pair
    from ..analysis import result_tests, switch_targets_bool
    stats = [c for c in b.calls(EXIST_FOLLOW + '|' + EXIST_NOFOLLOW) if backslice(b, c.args[:1]).has_call(r'path::Path::parent$')]
    racy = None
    for c1 in stats:
        t1 = result_tests(b, c1)
        for sw_bb, t_ in t1.items():
            absent_side = t_['err']
            for c2 in stats:
                if c2 is c1 or not b.dominates(absent_side, c2.bb):
                    continue
                # c2 is consulted only after c1 said "not there"; does its success lead to a refusal (an Err return) ?
                t2 = result_tests(b, c2)
                isok = [x for x in b.calls(r'Result(::)?<.*>::is_ok$') if op_local(x.args[0]) is not None and c2.dest[0] in backslice(b, [x.args[0]]).locals]
                for x in isok:
                    for (bbx, idx, what) in b.operand_uses(x.dest[0]):
                        if what[0] == 'switch':
                            tt, ft = switch_targets_bool(what[1])
                            if tt is not None and 'Err' in return_variants_from(b, tt) and 'Ok' not in return_variants_from(b, tt):
                                racy = c2
                for sw2, t2_ in t2.items():
                    rv_ok = return_variants_from(b, t2_['ok'])
                    if 'Err' in rv_ok and 'Ok' not in rv_ok:
                        racy = c2
    ctx.check(racy is None, 'C18.R5', P + '|one-look-per-ancestor', (racy.where() if racy else b.where(line)), 'no refusal depends on two stats of one ancestor disagreeing',
              'an ancestor of the target is examined twice - the first stat says it is not there, the second one says it exists - and the disagreement is read as a dangling link: the directories '
              'below DIR are being created at that very moment by the threads that execute the moves of other groups, so a perfectly good fresh directory is reported as "not a directory", the command is '
              'dropped and the file is not moved although the dry run announced it (about one run in four with 300 groups into a fresh DIR)')
    # "is a directory" is not yet "the file can be created there": the first existing ancestor is also asked whether it can be written to (and searched)
    acc = [c for c in b.calls(r'nix::unistd::(access|faccessat|eaccess)$|^libc::(access|faccessat|euidaccess)$')]
    acc_ok = False
    for c in acc:
        t_ = result_tests(b, c)
        for sw_bb, tt_ in t_.items():
            rv_e = return_variants_from(b, tt_['err'])
            if 'Err' in rv_e and 'Ok' not in rv_e:
                acc_ok = True
    ctx.check(acc_ok, 'C18.R5', P + '|ancestor-writable', (acc[0].where() if acc else b.where(line)), 'the first existing ancestor of the target must be writable and searchable (access W_OK|X_OK), otherwise the move is refused',
              'check_can_rename finds the first existing ancestor of the target and is satisfied when it is a directory: whether anything can be created in it is not asked, so for a target below a '
              'directory without write permission (or on a read-only mount) the command passes the precondition, `move --dry-run` prints it and counts the file, and the real run fails in mkdirs '
              '("Permission denied"): the summaries differ for a reason that was visible beforehand')
    # a positive test returns Err; both outcomes present
    rv = return_variants_from(b, 0)
    ctx.check('Err' in rv and 'Ok' in rv, 'C18.R1', P + '|returns-err-when-exists', b.where(line), 'returns Err on one side of the test and Ok on the other', 'check_can_rename returns %s' % sorted(rv))
    # polarity: the Err side is the side where the stat call succeeded / exists() is true
    bi, t, sl = decisions[0]
    stat = (nofollow or follow)
    if stat:
        c = stat[0]
        # follow the boolean: for exists()-style bool results, true edge must lead to Err
        if c.dty == 'bool':
            vals, tg = t['vals'], t['tgts']
            true_t = tg[1] if vals == [0] else tg[0]
            rv_true = return_variants_from(b, true_t)
            ctx.check('Err' in rv_true and 'Ok' not in rv_true, 'C18.R1', P + '|polarity', b.where(line), '`exists` => Err', 'the error is returned when the target does NOT exist')
        else:
            # Result<Metadata>::is_ok() etc.
            isok = [x for x in sl.calls if x.matches(r'Result(::)?<.*>::(is_ok|is_err)$')]
            if isok:
                m = isok[0].path.rsplit('::', 1)[-1]
                vals, tg = t['vals'], t['tgts']
                true_t = tg[1] if vals == [0] else tg[0]
                rv_true = return_variants_from(b, true_t)
                want_err_on_true = (m == 'is_ok')
                good = ('Err' in rv_true and 'Ok' not in rv_true) if want_err_on_true else ('Ok' in rv_true and 'Err' not in rv_true)
                # a `||`/`!` chain makes the first switch only part of the decision; accept when Err is reachable from the success side
                ctx.check(good or ('Err' in rv_true and want_err_on_true), 'C18.R1', P + '|polarity', b.where(line), 'stat succeeded => Err', 'the error is returned when the target does NOT exist')


def r2(ctx, lib):
    b = ctx.need_body('C18.R2', 'dedupe::FsCommand::move_copy')
    if b is not None:
        from ..desugar import desugared
        b = desugared(lib, b)      # `copy().and_then(|_| remove(source)).map_err(|e| remove_copy(target, e))` is the same chain of matches
    if b is None:
        return
    cps = b.calls(r'FsCommand::unsafe_copy$|^std::fs::copy$')
    from .common import remove_sites
    sites = remove_sites(lib, b)
    rms = [r for r, _ in sites]
    if not cps or not rms:
        ctx.missing('C18.R2', 'copy/remove in move_copy', b.where())
        return
    from ..analysis import result_tests, reachable_state
    ct = result_tests(b, cps[0])
    src = [r for r, ps in sites if ps == {1}]
    err_region = reachable_state(b, 0, ct, 'err') if ct else set(range(len(b.blocks)))
    good = bool(ct) and bool(src) and all(r.bb not in err_region for r in src)
    ctx.check(good, 'C18.R2', b.path + '|remove-after-copy', (src[0] if src else rms[0]).where(), 'remove(source) is reached only after the copy succeeded', 'the source can be removed although the copy failed or has not happened')
    # a failed copy leaves nothing under the target directory: the partial target is removed on the failure edge
    tgt = [r for r, ps in sites if ps == {2}]
    ok_region = reachable_state(b, 0, ct, 'ok') if ct else set()
    # (the other legitimate place for a removal of the target is the failure edge of remove(source): C05.R3 failed-remove-cleans-target)
    rt = result_tests(b, src[0]) if src else []
    rm_err = (reachable_state(b, 0, rt, 'err') - reachable_state(b, 0, rt, 'ok')) if rt else set()
    # (one clean-up site may serve both failures: it is reached when the copy failed, and never when the copy and the removal both succeeded)
    both_ok = reachable_state(b, 0, dict(list(ct.items()) + list(rt.items())), 'ok') if (ct and rt) else ok_region
    on_copy_err = [r for r in tgt if r.bb in err_region and (r.bb not in ok_region or r.bb not in both_ok)]
    stray = [r for r in tgt if r not in on_copy_err and r.bb not in rm_err]
    ctx.check(bool(on_copy_err) and not stray, 'C18.R2', b.path + '|no-partial-target', (tgt[0].where() if tgt else cps[0].where()),
              'when the copy fails the incomplete target is removed',
              'when fs::copy fails in the middle (ENOSPC, EIO, quota) the partly written file stays at DIR/<path>: it carries the name of the source but not its bytes, and every later `move` refuses the '
              'source with "Target already exists"')


def r3(ctx, lib):
    rule = 'C18.R3'
    b = ctx.need_body(rule, 'dedupe::PartitionedFileGroup::move_target')
    if b is not None:
        joins = b.calls(r'path::Path::join$')
        rets = []
        good = bool(joins)
        # every value returned is a join whose base derives from target_dir and whose component is strip_root(source)
        finals = [c for c in joins if c.dest[0] == 0 or 0 in backslice(b, [0]).locals and c in backslice(b, [0]).calls]
        outer = [c for c in joins if c.dest[0] == 0]
        if not outer:
            # returned through a temp
            sl0 = backslice(b, [0])
            outer = [c for c in joins if c in sl0.calls]
        n_ok = 0
        for c in outer:
            base = backslice(b, [c.args[0]])
            comp = backslice(b, [c.args[1]])
            is_outer = comp.has_call(r'path::Path::strip_root$')
            if not is_outer:
                continue
            n_ok += 1
            g = 1 in base.params and 2 in comp.params and 1 not in comp.params
            ctx.check(g, rule, b.path + '|join', c.where(), 'target_dir[.join(root name)].join(source.strip_root())', 'move_target joins %s with %s' % (base.describe(b), comp.describe(b)))
        ctx.floor(rule, 'join(strip_root(source)) results in move_target', n_ok, 2, b.where())
        # the root (drive/prefix) takes part when present
        sl0 = backslice(b, [0])
        ctx.check(sl0.has_call(r'path::Path::root$'), rule, b.path + '|root', b.where(), 'the root name is part of the target (distinct roots cannot collide)', 'the root of the source path is ignored')
        # no lossy step on the suffix: strip_root result goes to join unchanged
        for c in outer:
            comp = backslice(b, [c.args[1]])
            lossy = [x.path for x in comp.calls if x.matches(r'file_name|to_string_lossy|replace|trim|to_lowercase|to_uppercase|parent$')]
            if comp.has_call(r'path::Path::strip_root$'):
                ctx.check(not lossy, rule, b.path + '|suffix-intact', c.where(), 'the path without its root is used unchanged', 'the suffix passes through %s' % lossy)
    ds = ctx.need_body(rule, 'dedupe::PartitionedFileGroup::dedupe_script')
    if ds is not None:
        # the loop over the dropped files may be written as `into_iter().filter_map(|f| ..).collect()`: the closure body is looked at where the loop would stand
        from ..desugar import desugared
        ds = desugared(lib, ds, adaptors=True)
    if ds is None:
        return
    moves = [(bi, s) for bi, blk in enumerate(ds.blocks) if not blk['cleanup'] for s in blk['stmts']
             if s['rv']['k'] == 'agg' and s['rv'].get('adt') == 'dedupe::FsCommand' and s['rv'].get('variant') == 'Move']
    if not ctx.floor(rule, 'FsCommand::Move constructions', len(moves), 1, ds.where()):
        return
    for bi, s in moves:
        f = dict(zip(s['rv']['fields'], s['rv']['ops']))
        tsl = backslice(ds, [f['target']])
        mt = [c for c in tsl.calls if c.matches(r'PartitionedFileGroup::move_target$')]
        ssl = backslice(ds, [f['source']])
        good = bool(mt)
        why = 'target is not computed by move_target'
        if good:
            a1 = backslice(ds, [mt[0].args[1]])
            # the path handed to move_target is the path of the very file stored in `source`
            good = bool(a1.locals & ssl.locals) and 'path' in a1.field_names()
            why = 'move_target is applied to a path that is not the moved file\'s path'
            if good:
                a0 = backslice(ds, [mt[0].args[0]])
                good = 2 in a0.params      # strategy (DedupeOp::Move payload)
                why = 'move_target base is not the DedupeOp::Move directory'
        ctx.check(good, rule, ds.path + '|move-target', ds.where(s['line']), 'Move.target = move_target(target_dir, source.path)', why)
        usl = backslice(ds, [f['use_rename']])
        sm = [c for c in usl.calls if c.matches(r'PartitionedFileGroup::are_on_same_mount$')]
        g4 = bool(sm)
        if g4:
            a1 = backslice(ds, [sm[0].args[1]])
            a2 = backslice(ds, [sm[0].args[2]])
            g4 = bool(a1.locals & ssl.locals) and 2 in a2.params and 3 in backslice(ds, [sm[0].args[0]]).params
        nots = sum(1 for blk in ds.blocks for st in blk['stmts'] if st['p'][0] in usl.locals and st['rv']['k'] == 'un' and st['rv']['op'] == 'Not')
        ctx.check(g4 and nots == 0, 'C18.R4', ds.path + '|use-rename', ds.where(s['line']), 'use_rename = are_on_same_mount(devices, source.path, target_dir)',
                  'use_rename does not derive (un-negated) from are_on_same_mount(devices, source, target_dir)')


def r4(ctx, lib):
    rule = 'C18.R4'
    b = ctx.need_body(rule, 'dedupe::PartitionedFileGroup::are_on_same_mount')
    if b is not None:
        mps = b.calls(r'DiskDevices::get_mount_point$')
        cmps = [c for c in comparisons(b) if c.op in ('==', '!=')]
        good = len(mps) >= 2 and cmps
        if good:
            c = cmps[0]
            sa, sb = backslice(b, [c.a]), backslice(b, [c.b])
            ps = [backslice(b, [m.args[1]]).params for m in mps]
            good = sa.has_call(r'get_mount_point$') and sb.has_call(r'get_mount_point$') and {2} in ps and {3} in ps
            # result: eq returned un-negated (or ne negated)
            rsl = backslice(b, [0])
            nots = sum(1 for blk in b.blocks for st in blk['stmts'] if st['p'][0] in rsl.locals and st['rv']['k'] == 'un' and st['rv']['op'] == 'Not')
            good = good and ((c.op == '==') == (nots % 2 == 0)) and c.dest in rsl.locals
        ctx.check(bool(good), rule, b.path, b.where(), 'get_mount_point(file1) == get_mount_point(file2)', 'are_on_same_mount does not compare the two mount points for equality')
    ex = ctx.need_body(rule, 'dedupe::FsCommand::execute')
    if ex is not None:
        arms = variant_arms(ex, lib, 1)
        if arms and 'Move' in arms[0][1]:
            region = dominated_region(ex, arms[0][1]['Move'])
            mr = [c for c in ex.calls(r'FsCommand::move_rename$') if c.bb in region]
            mc = [c for c in ex.calls(r'FsCommand::move_copy$') if c.bb in region]
            if mr:
                guards = [d for d in ex.dominators()[mr[0].bb] if d in region and ex.blocks[d]['term']['k'] == 'switch']
                guarded = False
                for d in guards:
                    t = ex.blocks[d]['term']
                    sl = backslice(ex, [t['op']])
                    if 'use_rename' in sl.field_names():
                        vals, tg = t['vals'], t['tgts']
                        true_t = tg[1] if vals == [0] else tg[0]
                        guarded = ex.dominates(true_t, mr[0].bb)
                ctx.check(guarded, rule, ex.path + '|rename-only-if-same-mount', mr[0].where(), 'move_rename is attempted only under use_rename', 'move_rename is attempted regardless of use_rename')
            ctx.check(bool(mc), rule, ex.path + '|copy-fallback', ex.where(), 'move_copy is the fall-back', 'no move_copy fall-back in the Move arm')
            for c in mr + mc:
                g = 'source' in backslice(ex, [c.args[0]]).field_names() and 'target' in backslice(ex, [c.args[1]]).field_names()
                ctx.check(g, rule, ex.path + '|%s-operands' % c.path.rsplit('::', 1)[-1], c.where(), '(source.path, target)', 'operands are not (source.path, target)')
    bn = ctx.bin
    if bn is None:
        ctx.missing(rule, 'binary unit')
        return
    found = 0
    for bb_ in bn.bodies.values():
        for blk in bb_.blocks:
            for s in blk['stmts']:
                rv = s['rv']
                if rv['k'] == 'agg' and rv.get('adt', '').endswith('DedupeOp') and rv.get('variant') == 'Move':
                    found += 1
                    ctx.fn(bb_)
                    sl = backslice(bb_, rv['ops'])
                    res = [c for c in sl.calls if c.matches(r'(^|::)Path::resolve$')]
                    good = False
                    if res:
                        base = backslice(bb_, [res[0].args[0]])
                        good = base.has_call(r'std::env::current_dir$') or any('cwd' == bb_.local_name(l) for l in base.locals)
                    ctx.check(good, rule, 'bin::%s|dir-resolved' % bb_.path, bb_.where(s['line']), 'DIR = cwd.resolve(DIR)', 'the move target directory is not resolved against the working directory')
    ctx.floor(rule, 'DedupeOp::Move constructions in the binary', found, 1)

"""C13 - results are deterministic and independent of performance settings."""
import re
from . import register
from .c20 import follow_to_params
from ..analysis import (backslice, comparisons, branch_of, dominated_region, aggregates, agg_field, closure_creation,
                        forward_locals, upvar_operand, switch_on_result_of)
from ..callgraph import CallGraph
from ..facts import op_local, op_const, place_fields
from .common import stdin_paths_body, err_handling, rehash_core, rehash_core_path, rehash_rx

DOC = {
    'explanation': 'Schedules are out of static reach. Decided necessary conditions: the result of group_files passes a stable total ordering of groups and the per-group path '
                   'sort on every path to its return (R1); in rehash the original Sender is dropped before the drain loop, every task owns a clone, the loop ends only when the '
                   'channel is closed, and the throttle permit travels into the task (R2); no iteration over an unordered collection feeds the report (R3); file-offset '
                   'subtractions are guarded by a comparison or a min-clamp of the same operands, so that performance options such as --max-suffix-size cannot abort the run '
                   'or drop files (R4); and the semaphore the hashing tasks block on follows the monitor pattern (R5 = C19.R1-R4, termination).',
    'rules': {
        'C13.M': __import__('fcverif.rules.common', fromlist=['MANDATORY_TEXT']).MANDATORY_TEXT,
        'C13.R1': 'group_files: the returned vector passed a stable sort keyed by Reverse((file_len, hash)) and sort_by_path on every group, on every path to Ok',
        'C13.R2': 'rehash: drop(original tx) dominates the recv loop; tasks capture a Sender clone; the loop leaves only on Err(recv); every received item is added; the throttle guard is acquired before spawn and dropped inside the task',
        'C13.R3': 'no HashMap/HashSet/DashMap iteration reachable from group_files/write_report (named exceptions)',
        'C13.R4': 'each FilePos-FileLen / FileLen-FileLen is dominated by a comparison of the same operands or its right operand is clamped by min(_, left)',
        'C13.R12': 'every --threads configuration terminates, 0 (= automatic) included: no semaphore is sized by a configured pool size (re-evaluates C19.R9)',
        'C13.R11': 'every run terminates, whatever the transform program does with $OUT: transform::execute opens its own write end of the named pipe before it spawns the child and before the reader opens the pipe, hands it to the thread that waits for the child, and that thread closes it after the child has exited (no second look-up of the pipe by its path); hash_transformed reports a pipe that was replaced',
        'C13.R10': 'the number of files that can be hashed does not depend on a race between the hashing thread and a helper thread: blocking helper threads are joined (re-evaluates C19.R8)',
        'C13.R9': 'every run terminates: a pipe handed to the transform program as its standard output is read - the Output variants under which build_command uses Stdio::piped() are among those under which execute moves child.stdout into the stream it returns (otherwise the child blocks on a full pipe while fclones waits for it)',
        'C13.R8': 'with --follow-links the set of scanned files does not depend on which route reaches an entry first (order of the input paths, --threads): the visited mark is level-aware, made when the directory is really read, after the route-specific tests, and links re-visit like directories; the ignore rules of a route are part of the visited record (re-evaluates C09.R11 and C09.R15)',
        'C13.R7': 'the standard input is read once: with --stdin the scan consumes the list, so the isolate roots (root_paths) and their validation use the positional arguments, and --isolate with roots only on stdin is refused with an explicit message',
        'C13.R6': 'no child process shares the standard input or output of fclones (the list of paths of --stdin, the report): every Command created in the library gets an explicit stdin and stdout before it is spawned',
        'C13.R5': 'termination: the semaphore blocking the hashing tasks never loses a wake-up (re-evaluates C19.R1-R4)',
    },
    'not_decided': 'everything that depends on the actual interleaving; rayon and crossbeam internals; that different hash functions induce the same partition',
    'assumptions': ['rayon par_sort_by_key / slice::sort_by are stable sorts', 'crossbeam/std channels: recv returns Err only after every Sender is dropped'],
}


@register('C13', DOC)
def run(ctx):
    r1(ctx)
    r2(ctx)
    r3(ctx)
    r4(ctx)
    r5(ctx)
    r6(ctx)
    r7(ctx)
    r9(ctx)
    r11(ctx)
    from .common import reevaluate
    from . import c19
    reevaluate(ctx, 'C13.R10', c19.r8)
    reevaluate(ctx, 'C13.R12', c19.r9)
    from . import c09
    reevaluate(ctx, 'C13.R8', c09.r11)
    reevaluate(ctx, 'C13.R8', c09.r11b)
    reevaluate(ctx, 'C13.R8', c09.r15)
    from .common import run_mandatory
    run_mandatory(ctx, 'C13')
    if ctx.tier == 'thorough' and not getattr(ctx, 'sibling', None):
        from .. import sweep
        sweep.subtractions(ctx, 'C13.R4')


STABLE_SORT = r'(ParallelSliceMut|slice::<impl \[T\]>|Vec<.*>|\[T\])::(par_sort_by_key|par_sort_by|par_sort|sort_by_key|sort_by|sort|par_sort_by_cached_key|sort_by_cached_key)$'
UNSTABLE_SORT = r'::(par_)?sort_unstable(_by|_by_key)?$'


def r1(ctx):
    rule = 'C13.R1'
    lib = ctx.lib
    b = ctx.need_body(rule, 'group::group_files')
    if b is None:
        return
    P = b.path
    oks = aggregates(b, 'result::Result', 'Ok')
    if not ctx.floor(rule, 'Ok(..) results in group_files', len(oks), 1, b.where()):
        return
    sorts = [c for c in b.calls() if re.search(r'sort', (c.f.get('method') or c.path.rsplit('::', 1)[-1]))]
    keyed = []
    for c in sorts:
        name = c.f.get('method') or c.path.rsplit('::', 1)[-1]
        if 'unstable' in name:
            ctx.violation(rule, P + '|stable-sort', c.where(), '%s is not a stable sort: equal keys come out in schedule-dependent order' % name)
            continue
        keyed.append(c)
    if not ctx.floor(rule, 'stable sort of the groups', len(keyed), 1, b.where()):
        return
    for bi, s in oks:
        rsl = backslice(b, s['rv']['ops'])
        res_locals = {l for l in rsl.locals if b.local_name(l)}
        good_sort = [c for c in keyed if b.dominates(c.bb, bi) and backslice(b, [c.args[0]]).locals & res_locals]
        ctx.check(bool(good_sort), rule, P + '|sorted-before-return', b.where(s['line']), 'the returned vector is sorted by %s before every Ok' % (good_sort[0].path.rsplit('::', 1)[-1] if good_sort else '?'),
                  'a path returns groups that did not pass the final sort')
        # per-group path sort
        fe = [c for c in b.calls(r'for_each$|::map$|iter_mut$') if b.dominates(c.bb, bi)]
        sp = []
        for cp in lib.closures_of(b.path, recursive=False):
            cb = lib.body(cp)
            if cb.calls(r'FileGroup<.*>::sort_by_path$|FileGroup::<F>::sort_by_path$|::sort_by_path$'):
                cr = closure_creation(lib, cp)
                if cr and b.dominates(cr[1], bi):
                    sp.append(cp)
        ctx.check(bool(sp), rule, P + '|paths-sorted-before-return', b.where(s['line']), 'every group passes sort_by_path (%s) before every Ok' % ','.join(sp), 'a path returns groups whose paths were not sorted')
    # sort key
    for c in keyed:
        l = op_local(c.args[1]) if len(c.args) > 1 else None
        for cp in lib.closures_of(b.path, recursive=False):
            cr = closure_creation(lib, cp)
            if cr and l is not None and l in forward_locals(b, cr[2]['p'][0]):
                cb = lib.body(cp)
                rs = backslice(cb, [0])
                fn_ = rs.field_names()
                rev = any(s_['rv'].get('adt', '').endswith('cmp::Reverse') for blk in cb.blocks for s_ in blk['stmts'] if s_['rv']['k'] == 'agg')
                good = 'file_len' in fn_ and 'file_hash' in fn_ and rev
                ctx.check(good, rule, cp + '|sort-key', cb.where(), 'key = Reverse((file_len, file_hash..)): total on distinct groups, largest first',
                          'the sort key is not Reverse((file_len, file_hash)) (fields %s, Reverse=%s)' % (sorted(fn_), rev))
    # sort_by_path itself is a stable sort on the path
    sbp = lib.body('group::FileGroup::<F>::sort_by_path')
    if sbp is None:
        ctx.missing(rule, 'fn FileGroup::sort_by_path')
    else:
        ctx.fn(sbp)
        ss = [c for c in sbp.calls() if re.search(r'sort', c.path.rsplit('::', 1)[-1])]
        uns = [c for c in ss if 'unstable' in c.path]
        ctx.check(bool(ss) and not uns, rule, sbp.path + '|stable', sbp.where(), 'sort_by_path uses %s' % ','.join(c.path.rsplit('::', 1)[-1] for c in ss), 'sort_by_path uses an unstable sort or none')
        # the ordering must be total and injective on paths: a comparator on the Paths themselves or a key that *is* the
        # path; lossy keys (to_string_lossy, display, lower-casing, file name only) make distinct paths tie, and ties are
        # emitted in arrival (= schedule dependent) order
        lossy = []
        total = False
        for cp in lib.closures_of(sbp.path, recursive=False):
            cb = lib.body(cp)
            lossy += [c for c in cb.calls(r'to_string_lossy$|::display$|to_lowercase$|to_uppercase$|file_name(_cstr)?$|::len$|hash128$|to_escaped_string$')]
            if cb.calls(r'Ord>::cmp$|Ord::cmp$'):
                tys = (cb.calls(r'Ord>::cmp$|Ord::cmp$')[0].t.get('argtys') or [])
                total = total or all('path::Path' in t for t in tys)
            rs = backslice(cb, [0])
            if cb.local_ty(0).replace('&', '').strip() in ('path::Path', 'std::path::PathBuf', 'std::ffi::OsString') and not lossy:
                total = True
        ctx.check(total and not lossy, rule, sbp.path + '|total-order', sbp.where(), 'paths are ordered by a total order on the paths themselves',
                  'the path order is decided by %s: distinct paths can compare equal (e.g. names differing only in invalid-UTF-8 bytes) and then keep their schedule-dependent arrival order' % (sorted({c.path.rsplit("::", 1)[-1] for c in lossy}) or 'a key that is not the path'))
        for cp in lib.closures_of(sbp.path, recursive=False):
            cb = lib.body(cp)
            cm = cb.calls(r'Ord>::cmp$|Ord::cmp$|PartialOrd.*::partial_cmp$')
            if cm:
                tys = cm[0].t.get('argtys', [])
                ctx.check(all('path::Path' in t for t in tys), rule, cp + '|compares-paths', cm[0].where(), 'orders by the full path (%s)' % ','.join(tys), 'sort_by_path does not compare the paths')


def r2(ctx):
    rule = 'C13.R2'
    lib = ctx.lib
    rh = ctx.need_body(rule, rehash_core_path(lib))
    if rh is None:
        return
    # the scope body: closure of rehash that calls Receiver::recv
    scope = None
    for cp in lib.closures_of(rh.path):
        cb = lib.body(cp)
        if cb.calls(r'Receiver<.*>::recv$|Receiver::<T>::recv$'):
            scope = cb
    if scope is None:
        ctx.missing(rule, 'drain loop (Receiver::recv) in rehash', rh.where())
        return
    ctx.fn(scope)
    P = scope.path
    bad_recv = scope.calls(r'Receiver.*::(try_recv|recv_timeout|recv_deadline|try_iter)$')
    recvs = scope.calls(r'Receiver<.*>::recv$|Receiver::<T>::recv$')
    R = recvs[0]
    ctx.check(not bad_recv and len(recvs) == 1, rule, P + '|blocking-recv', R.where(), 'a single blocking recv()', 'non-blocking / timed receive used: results can be lost (%s)' % [c.path for c in bad_recv])
    drops = [c for c in scope.calls(r'^std::mem::drop$') if 'Sender<' in (c.t.get('argtys') or [''])[0]]
    good = False
    why = 'no drop(tx) of the original Sender'
    for d in drops:
        sl = backslice(scope, [d.args[0]])
        orig = bool(sl.upvars) and not sl.has_call(r'Clone>::clone$')
        if orig and scope.dominates(d.bb, R.bb) and d.bb != R.bb:
            good = True
        elif orig:
            why = 'drop(tx) does not dominate the recv loop'
        else:
            why = 'the dropped Sender is a clone, the original stays alive'
    ctx.check(good, rule, P + '|sender-dropped-before-drain', (drops[0].where() if drops else R.where()),
              'drop(original tx) dominates the recv loop', why + ': the drain loop can never see the channel closed (hang)')
    # no other live Sender in the scope body at the loop: every Sender-typed local is an up-var moved into drop / a clone moved into a spawned closure
    sw = switch_on_result_of(scope, R)
    if sw is None:
        ctx.violation(rule, P + '|loop-exit', R.where(), 'the result of recv() is not matched')
    else:
        loop_ok = all(R.bb in scope.reachable(o) for o in sw['ok']) and all(R.bb not in scope.reachable(e) for e in sw['err'])
        ctx.check(loop_ok, rule, P + '|loop-exit', R.where(), 'Ok(item) continues the loop, Err (all senders gone) is the only exit', 'the drain loop can exit while senders are alive or spin after the channel closed')
        adds = [c for c in scope.calls(r'GroupMap<.*>::add$|GroupMap::<.*>::add$|::add$') if any(scope.dominates(o, c.bb) for o in sw['ok'])]
        okadd = False
        for a in adds:
            okp = all(must_reach(scope, o, a.bb, R.bb) for o in sw['ok'])
            if okp and backslice(scope, [a.args[1]]).locals & {R.dest[0]}:
                okadd = True
        ctx.check(okadd, rule, P + '|every-item-added', R.where(), 'every received item is added to the group map before the next recv()', 'a received item can be skipped')
    # tasks: the closure handed to spawn_fifo / spawn captures a Sender clone and the throttle guard
    task = None
    for cp in lib.closures_of(scope.path):
        cb = lib.body(cp)
        if cb.calls(r'Sender<.*>::send$|Sender::<T>::send$'):
            task = cb
    if task is None:
        ctx.missing(rule, 'hashing task (Sender::send)', scope.where())
        return
    ctx.fn(task)
    cr = closure_creation(lib, task.path)
    parent, cbb, cst = cr
    ops = cst['rv']['ops']
    tys = [parent.local_ty(op_local(o)) if op_local(o) is not None else '' for o in ops]
    s_idx = [i for i, t in enumerate(tys) if 'Sender<' in t]
    g_idx = [i for i, t in enumerate(tys) if 'OwnedSemaphoreGuard' in t]
    good = bool(s_idx) and all(backslice(parent, [ops[i]]).has_call(r'Sender<.*> as std::clone::Clone>::clone$|Clone>::clone$') for i in s_idx) and all('m' in ops[i] for i in s_idx)
    ctx.check(good, rule, task.path + '|owns-sender-clone', parent.where(cst['line']), 'the task moves in its own Sender clone', 'the task does not own a clone of the Sender (borrowing the original keeps the channel open or loses results)')
    good = bool(g_idx) and all('m' in ops[i] for i in g_idx) and all(backslice(parent, [ops[i]]).has_call(r'Semaphore::access_owned$') for i in g_idx)
    ctx.check(good, rule, task.path + '|throttle-guard-moved', parent.where(cst['line']), 'the throttle permit acquired by access_owned() is moved into the task', 'the throttle permit is not moved into the task')
    if g_idx:
        # acquire happens before the spawn, on the feeding thread
        sp = parent.calls(r'ThreadPool::spawn(_fifo)?$|rayon::spawn(_fifo)?$|Scope.*::spawn(_fifo)?$')
        ac = parent.calls(r'Semaphore::access_owned$')
        sp = [c for c in sp if op_local(c.args[-1]) in forward_locals(parent, cst['p'][0])]
        ctx.check(bool(sp) and bool(ac) and parent.dominates(ac[0].bb, sp[0].bb), rule, task.path + '|acquire-before-spawn', (ac[0].where() if ac else parent.where()), 'the permit is acquired before the task is queued', 'tasks are queued without first acquiring a throttle permit')
        # inside the task the guard up-var is dropped on every path (released when the task ends)
        gdrops = [bi for bi, blk in enumerate(task.blocks) if blk['term']['k'] == 'drop' and 'OwnedSemaphoreGuard' in blk['term']['ty']]
        gcalls = [c for c in task.calls(r'^std::mem::drop$') if 'OwnedSemaphoreGuard' in (c.t.get('argtys') or [''])[0]]
        ctx.check(bool(gdrops or gcalls), rule, task.path + '|guard-released-in-task', task.where(), 'the permit is released when the task finishes', 'the task never releases the throttle permit (feeder blocks forever after 8*threads tasks)')
    # the task sends every file of the inode group iff the hash is Some: -> C03.R5
    # panics inside the task would leak nothing (guards are dropped on unwind) - not decided


def must_reach(body, start, via, stop):
    """every path from start back to `stop` passes `via`"""
    if start == via:
        return True
    return stop not in body.reachable(start, avoid=[via])


EXC_R3 = {
    'group::GroupCtx::<\'a>::check_pool_config': 'validation of --threads pool names only: iteration order affects at most which invalid name is reported first',
}


def r3(ctx):
    rule = 'C13.R3'
    lib, bn = ctx.lib, ctx.bin
    cg = CallGraph([lib] + ([bn] if bn else []))
    roots = ['group::group_files', 'group::write_report', 'group::write_report_with_timestamp', 'bin::run_group']
    r = cg.reachable(roots)
    rx = re.compile(r'(HashMap|HashSet|DashMap|DashSet|hash_map::|hash_set::|dashmap::)')
    n = 0
    for k in sorted(r):
        b = cg.bodies[k]
        if '::test' in b.path:
            continue
        hit = None
        for c in b.calls():
            p = c.path or c.decl
            last = p.rsplit('::', 1)[-1]
            tys = c.t.get('argtys') or ['']
            if rx.search(p) and last in ('iter', 'iter_mut', 'into_iter', 'values', 'keys', 'drain', 'into_values', 'into_keys', 'values_mut', 'retain', 'par_iter', 'into_par_iter'):
                hit = c
            elif last in ('into_iter', 'next', 'into_par_iter', 'par_iter') and rx.search(tys[0]) and not re.search(r'Entry|IndexMap|index', tys[0]):
                hit = c
        if hit:
            n += 1
            ctx.fn(b)
            if b.path in EXC_R3:
                ctx.ok(rule, b.path, hit.where(), 'named exception: ' + EXC_R3[b.path])
            else:
                ctx.violation(rule, b.path, hit.where(), 'iteration over an unordered collection (%s) on the group/report path: order depends on the hasher seed / schedule' % (hit.path))
    ctx.stats['C13.R3:bodies reachable from group/report entries'] = len(r)
    ctx.stats['C13.R3:unordered iterations found'] = n
    # positive control: the detector must see the dedupe-side HashMap iteration in partition_by_key if it exists
    ctrl = [b for b in lib.bodies.values() if any(rx.search(c.path) and c.path.rsplit('::', 1)[-1] in ('into_values', 'into_iter', 'values', 'iter', 'drain') for c in b.calls())]
    ctx.check(bool(ctrl), rule, 'positive-control', ctrl[0].where() if ctrl else '-', 'detector control: %d bodies in the crate iterate a hash container (e.g. %s)' % (len(ctrl), ctrl[0].path if ctrl else '-'),
              'detector control failed: no hash-container iteration recognised anywhere in the crate')


SUBS = r'<file::File(Len|Pos) as std::ops::Sub(<file::File(Len|Pos)>)?>::sub$|<file::File(Len|Pos) as std::ops::SubAssign(<.*>)?>::sub_assign$'


def r4(ctx):
    rule = 'C13.R4'
    lib = ctx.lib
    n = 0
    for b in lib.bodies.values():
        if '::test' in b.path or not b.file.endswith(('group.rs', 'hasher.rs', 'file.rs', 'transform.rs', 'cache.rs', 'device.rs')):
            continue
        for c in b.calls(SUBS):
            n += 1
            ctx.fn(b)
            key = '%s|%s' % (b.path, 'sub')
            ob_a, sa, _ = follow_to_params(lib, b, [c.args[0]])
            ob_b, sb, _ = follow_to_params(lib, b, [c.args[1]])
            la = backslice(b, [c.args[0]])
            lb = backslice(b, [c.args[1]])
            # (1) dominating comparison of the same two operands in this body
            guarded = False
            for cmp in comparisons(b):
                if cmp.op in ('==', '!='):
                    continue
                x, y = backslice(b, [cmp.a]), backslice(b, [cmp.b])

                def same(p, q):
                    named_p = {l for l in p.locals if b.local_name(l)} | {('u', i) for i, _ in p.upvars} | {('f', f) for f in p.field_names()}
                    named_q = {l for l in q.locals if b.local_name(l)} | {('u', i) for i, _ in q.upvars} | {('f', f) for f in q.field_names()}
                    return bool(named_p & named_q)
                if (same(x, la) and same(y, lb)) or (same(x, lb) and same(y, la)):
                    br = branch_of(b, cmp)
                    if br and (b.dominates(br[1], c.bb) or b.dominates(br[2], c.bb)):
                        guarded = True
            # (2) right operand clamped by min(_, left)
            clamped = False
            for mc in lb.calls:
                if mc.matches(r'^std::cmp::min$|Ord>::min$|Ord::min$') and len(mc.args) == 2:
                    for a in mc.args:
                        asl = backslice(b, [a])
                        if ({f for f in asl.field_names()} & {f for f in la.field_names()}) or ({l for l in asl.locals if b.local_name(l)} & {l for l in la.locals if b.local_name(l)}):
                            clamped = True
            # (3) right operand selected by a comparison with the left one: `if r > l { l } else { r }`
            if not (guarded or clamped):
                from ..analysis import base_named_local
                rl = base_named_local(b, c.args[1])
                rdefs = [d for d in b.defs().get(rl, []) if d[2] == 'assign'] if rl is not None else []

                def roots(sl_):
                    return {('f', f) for f in sl_.field_names()} | {('u', i) for i, _ in sl_.upvars} | {('p', p) for p in sl_.params if not (b.kind == 'closure' and p == 1)}
                lroots = roots(la)
                for cmp in comparisons(b):
                    if cmp.op in ('==', '!='):
                        continue
                    br = branch_of(b, cmp)
                    if br is None or len(rdefs) < 2:
                        continue
                    x, y = roots(backslice(b, [cmp.a])), roots(backslice(b, [cmp.b]))
                    if not ((x & lroots) or (y & lroots)):
                        continue
                    t_defs = [d for d in rdefs if b.dominates(br[1], d[0])]
                    f_defs = [d for d in rdefs if b.dominates(br[2], d[0])]
                    if t_defs and f_defs:
                        from_left = [d for d in t_defs + f_defs if roots(backslice(b, rvalue_operands_(d[3]))) <= lroots | {('f', 'len')} and roots(backslice(b, rvalue_operands_(d[3]))) & lroots]
                        if from_left:
                            clamped = True
            # (4) saturating/checked arithmetic instead
            ctx.check(guarded or clamped, rule, key, c.where(),
                      'subtraction %s' % ('guarded by a dominating comparison of its operands' if guarded else 'with the right operand clamped by min(_, left)'),
                      'unguarded %s: left {%s}, right {%s} - overflow aborts the run (debug) or wraps and drops files (release) when the right operand exceeds the left (e.g. --max-suffix-size larger than the file)'
                      % (c.path.split(' as ')[0].lstrip('<') + ' - ', la.describe(b), lb.describe(b)))
    ctx.floor(rule, 'FileLen/FilePos subtraction sites', n, 2)


def rvalue_operands_(stmt):
    from ..facts import rvalue_operands
    return rvalue_operands(stmt['rv'])


def r5(ctx):
    from . import c19
    lib = ctx.lib
    acq = lib.body(c19.S + '::acquire')
    rel = lib.body(c19.S + '::release')
    before = len(ctx.obligations)
    if acq is None or rel is None:
        ctx.missing('C13.R5', 'Semaphore::acquire/release')
        return
    c19.r12(ctx, lib, acq)
    c19.r3(ctx, lib, rel)
    c19.r4(ctx, lib)
    for o in ctx.obligations[before:]:
        o['key'] = o['key'].replace(o['rule'] + '|', 'C13.R5|', 1)
        o['detail'] = '[%s] %s' % (o['rule'], o['detail'])
        o['rule'] = 'C13.R5'
    ctx.rules_run.add('C13.R5')


def r6(ctx):
    rule = 'C13.R6'
    lib = ctx.lib
    n = 0
    for b in lib.bodies.values():
        if re.search(r'(^|::)tests?(::|$)', b.path) or b.kind in ('const', 'static', 'promoted'):
            continue
        for c in b.calls(r'^std::process::Command::new$'):
            n += 1
            fl = forward_locals(b, c.dest[0], through_calls=lambda k, ai: ai == 0 and k.matches(r'^std::process::Command::\w+$'))
            have = set()
            for k in b.calls(r'^std::process::Command::(stdin|stdout|stderr)$'):
                if op_local(k.args[0]) in fl or c in backslice(b, [k.args[0]]).calls:
                    have.add(k.path.rsplit('::', 1)[-1])
            ctx.check({'stdin', 'stdout'} <= have, rule, '%s|child-streams' % b.path, c.where(), 'the child gets its own stdin and stdout (%s set)' % sorted(have),
                      'the command created here is spawned with inherited %s: a filter program started as the start-up probe of --transform reads the input paths of `--stdin` before fclones does '
                      '(files silently not scanned, different on every run) and copies them into the report on stdout' % sorted({'stdin', 'stdout'} - have))
    ctx.floor(rule, 'Command::new sites in the library', n, 2)


def r9(ctx):
    """A pipe given to the child as its standard output is read: the Output variants under which build_command pipes the
    stdout are variants under which execute hands the pipe to the reader."""
    rule = 'C13.R9'
    lib = ctx.lib
    from ..analysis import variant_arms
    bc = ctx.need_body(rule, 'transform::build_command')
    ex = ctx.need_body(rule, 'transform::execute')
    if bc is None or ex is None:
        return
    adt = lib.adts.get('transform::Output')
    if not adt:
        ctx.missing(rule, 'enum transform::Output')
        return
    allv = {v['name'] for v in adt['variants']}
    # build_command: the stdout(..piped()) calls and the variants of *output_conf that reach them
    pip = [k for k in bc.calls(r'^std::process::Command::stdout$') if backslice(bc, [k.args[1]]).has_call(r'Stdio::piped$')]
    if not ctx.floor(rule, 'Command::stdout(Stdio::piped()) in build_command', len(pip), 1, bc.where()):
        return
    out_param = [i for i in range(1, bc.argc + 1) if 'transform::Output' in bc.local_ty(i)]
    piped = set(allv)
    arms_seen = False
    for op in out_param:
        for (sbb, arms, other) in variant_arms(bc, lib, of_local=op):
            arms_seen = True
            for v in allv:
                tgt = arms.get(v, other)
                if not any(k.bb == tgt or k.bb in bc.reachable(tgt) for k in pip):
                    piped.discard(v)
    if not arms_seen:
        piped = set(allv)
    # execute: the variants whose arm moves the child's stdout into the returned stream
    taken = [c for c in ex.calls(r'Option::<T>::take$|Option<.*>::take$') if 'stdout' in backslice(ex, [c.args[0]]).field_names()]
    if not ctx.floor(rule, 'child.stdout.take() in execute', len(taken), 1, ex.where()):
        return
    holders = forward_locals(ex, taken[0].dest[0]) | {taken[0].dest[0]}
    uses = [c for c in ex.calls(r'::(unwrap|expect|unwrap_or_else|map)$') if op_local(c.args[0]) in holders]
    read = set()
    out_local = [i for i in range(1, ex.argc + 1) if 'transform::Output' in ex.local_ty(i)]
    out_local += [st['p'][0] for blk in ex.blocks for st in blk['stmts'] if st['rv']['k'] == 'ref' and st['rv']['p'][0] in out_local and not st['rv']['p'][1] and not st['p'][1]]
    for ol in out_local:
        for (sbb, arms, other) in variant_arms(ex, lib, of_local=ol):
            for v in allv:
                tgt = arms.get(v, other)
                if any(u.bb == tgt or u.bb in ex.reachable(tgt) for u in uses):
                    read.add(v)
    unread = sorted(piped - read)
    ctx.check(not unread, rule, bc.path + '|piped-stdout-is-read', pip[0].where(), 'the child\'s stdout is a pipe only when execute reads it (piped under %s, read under %s)' % (sorted(piped), sorted(read)),
              'with Output::%s the child gets a pipe as its standard output that nobody reads (execute takes the stream only under %s): a program that prints more than the pipe buffers (64 KiB) blocks in '
              'write(), fclones blocks in wait() - `group --in-place --transform "tool $IN"` with a chatty tool never ends, holding its permits, so the whole run hangs' % (', '.join(unread), sorted(read)))


def r11(ctx):
    """The reader of the named pipe cannot wait for ever: a write end exists before the reader opens the pipe and lives until the child has exited,
    whatever the child does with the PATH of the pipe."""
    rule = 'C13.R11'
    lib = ctx.lib
    b = ctx.need_body(rule, 'transform::execute')
    if b is None:
        return
    sp = b.calls(r'^std::process::Command::spawn$')
    rd = [c for c in b.calls(r'^std::fs::File::open$')]
    if not ctx.floor(rule, 'spawn / File::open in transform::execute', min(len(sp), len(rd)), 1, b.where()):
        return
    # the open that gives fclones its own write end: OpenOptions with write(true) on the pipe path, in the body of execute (not in the thread)
    keep = [c for c in b.calls(r'OpenOptions::open$') if backslice(b, [c.args[0]]).has_call(r'OpenOptions::write$') and backslice(b, [c.args[-1]]).has_call(r'Output::pipe_path$')]
    # (the open sits in the Some arm of pipe_path(): it precedes the spawn and the reader's open, it need not dominate them)
    ok_keep = bool(keep) and sp[0].bb in b.reachable(keep[0].bb) and keep[0].bb not in b.reachable(sp[0].bb) and all(r.bb in b.reachable(keep[0].bb) for r in rd)
    # it is handed to the thread that waits for the child (closure upvar), which does not look the pipe up by its path again
    thread_cl = [lib.body(cp) for cp in lib.closures_of(b.path) if lib.body(cp).calls(r'Child::wait$')]
    by_path = [c for x in thread_cl for c in x.calls(r'OpenOptions::open$|^std::fs::File::open$|File::create$')]
    moved = False
    if keep:
        holders = forward_locals(b, keep[0].dest[0]) | {keep[0].dest[0]}
        for blk in b.blocks:
            for st in blk['stmts']:
                if st['rv']['k'] == 'agg' and st['rv'].get('ak') == 'closure' and any(op_local(o) in holders for o in st['rv']['ops']):
                    moved = True
        # through the Ok payload of `?`
        for c in b.calls(r'as std::ops::Try>::branch$'):
            if op_local(c.args[0]) in holders:
                holders |= forward_locals(b, c.dest[0]) | {c.dest[0]}
        for _ in range(4):
            for blk in b.blocks:
                for st in blk['stmts']:
                    if st['rv']['k'] in ('use', 'agg') and any(op_local(o) in holders for o in ([st['rv'].get('op')] if st['rv']['k'] == 'use' else st['rv']['ops']) if isinstance(o, dict)):
                        holders.add(st['p'][0])
                        if st['rv']['k'] == 'agg' and st['rv'].get('ak') == 'closure':
                            moved = True
    ctx.check(ok_keep and moved and not by_path, rule, b.path + '|pipe-kept-open-until-exit', (keep[0].where() if keep else rd[0].where()),
              'a write end of the named pipe is opened before the child is spawned and before the reader opens the pipe, and is closed by the thread that waits for the child',
              'the reader opens the named pipe and blocks until somebody opens THAT pipe for writing; the rescue for a child that never does is an open of the pipe\'s PATH after the child has exited - '
              'a program that replaces $OUT instead of writing to it (unlink + create, temporary file + rename: install, cp --remove-destination, mv, every "atomic" writer) leaves a regular file '
              'there, the rescue opens that file, and the hashing task waits for ever: `group --transform "install -m 644 $IN $OUT"` never ends')
    # the reading end is opened while that write end is certainly still there: before the keeper is handed to the thread, which closes it as soon as the
    # child has exited - possibly before this thread gets that far (the opens after a wait() for the child read a regular file, not the pipe)
    ts = b.calls(r'^std::thread::spawn$|thread::Builder::spawn$')
    waits = b.calls(r'Child::wait$')
    pipe_rd = [r for r in rd if not any(b.dominates(w.bb, r.bb) for w in waits)]
    late = [r for r in pipe_rd if any(r.bb in b.reachable(t.bb) for t in ts)]
    ctx.check(bool(pipe_rd) and not late, rule, b.path + '|reader-opened-while-the-keeper-is-held', (late[0].where() if late else (pipe_rd[0].where() if pipe_rd else b.where())),
              'the reading end of the pipe is opened before the write end is handed to the thread that closes it',
              'the reading end of the pipe is opened after the thread that holds the only certain write end has been started: when the child and that thread are faster (small file, quick program, '
              'busy machine) the write end is closed already, the pipe has no writer and open(O_RDONLY) blocks for ever - `group --threads 64 --transform "dd if=$IN of=$OUT"` over 600 small files '
              'on two cores hangs in most runs, with no message and no report')
    # and a pipe that was replaced is reported, not hashed as empty output
    ht = lib.body("hasher::FileHasher::<'_>::hash_transformed")
    chk = ht.calls(r'Execution::check_output$') if ht is not None else []
    cat = err_handling(ht, chk[0])[0] if chk else None
    ctx.check(bool(chk) and cat in ('PROPAGATED', 'RETURNED', 'ERR-RETURNED'), rule, 'hasher::hash_transformed|replaced-pipe-reported', (chk[0].where() if chk else (ht.where() if ht else b.where())),
              'after the child has exited the pipe is checked to be still there; otherwise the file fails with a message',
              'nothing notices that the program removed or replaced the pipe: the (empty) output read from it is hashed and every such file becomes a duplicate of every other')


def r7(ctx):
    rule = 'C13.R7'
    lib = ctx.lib
    v = ctx.need_body(rule, 'config::GroupConfig::validate')
    ip = stdin_paths_body(lib)
    if ip is None:
        ctx.missing(rule, 'config::GroupConfig::input_paths')
    if v is None or ip is None:
        return
    fields = set()
    for blk in v.blocks:
        for st in blk['stmts']:
            for pl in [st['rv'].get('p')] + [((o.get('c') or o.get('m')) if isinstance(o, dict) else None) for o in [st['rv'].get('op')] + list(st['rv'].get('ops') or [])]:
                if pl:
                    fields |= set(place_fields(pl))
        t = blk['term']
        if t['k'] == 'switch':
            pl = t['op'].get('c') or t['op'].get('m')
            if pl:
                fields |= set(place_fields(pl))
    uses_paths = 'paths' in fields
    # the isolate roots: which source does root_paths() use?
    rp = lib.body('config::GroupConfig::root_paths')
    rp_stdin = False
    if rp is not None:
        rp_bodies = [rp] + [lib.body(x) for x in lib.closures_of(rp.path)]
        rp_stdin = any(x.calls(r'GroupConfig::input_paths\w*$|^std::io::stdin$') for x in rp_bodies)
    knows_stdin = 'stdin' in fields
    ok = uses_paths and not rp_stdin and knows_stdin
    ctx.check(ok, rule, v.path + '|isolate-with-stdin', v.where(), 'validate and root_paths both take the isolate roots from the arguments; the stdin list is read once, by the scan; roots on stdin are refused explicitly',
              ('root_paths() reads the input paths - with --stdin the standard input - although validate() counts the positional paths: `find a b -type f | fclones group --stdin --isolate a b` passes the '
               'validation, the isolate roots consume the whole stdin list, the scan gets nothing, and the run ends successfully with an empty report' if rp_stdin else
               'validate() does not look at `stdin`: `printf "d1\\nd2\\n" | fclones group --isolate --stdin` is refused with a message about 0 input paths'))

"""C12 - the hash cache never changes results."""
import re
from . import register
from ..analysis import (direct_field, backslice, aggregates, agg_field, comparisons, branch_of, dominated_region, direct_def, base_named_local,
                        switch_on_result_of, return_variants_from)
from ..facts import op_local, const_val, rvalue_places, place_fields

DOC = {
    'explanation': 'Decided: the cache key contains every field of the hashed chunk (offset, length, file identity) and the tree id contains everything else the hash depends on '
                   '(algorithm, transform command) (R1); a lookup returns a hit only if both the modification time and the length are *equal* to the current ones (R2); put and get '
                   'derive the time stamp by the same chain of conversions (R3); the hasher looks up and stores under the same key and metadata, captured before the file is read, and '
                   'stores only after a successful computation (R4).',
    'rules': {
        'C12.M': __import__('fcverif.rules.common', fromlist=['MANDATORY_TEXT']).MANDATORY_TEXT,
        'C12.R1': 'Key = {file_id, chunk_pos, chunk_len} covering all FileChunk fields; tree id formatted from algorithm and transform command; FileHasher::new_cached passes its own algorithm and transform.command_str',
        'C12.R2': 'HashCache::get: Some only if modified_timestamp_ms == current and file_len == current (equality tests, both guarding the hit); and the entry is tied to the incarnation of the inode (a status-change or birth time that programs cannot set is stored and compared), because the key - the file identifier - is reused as soon as a file is deleted',
        'C12.R3': 'put and get compute the time stamp with the same conversion chain (modified -> duration_since(UNIX_EPOCH) -> as_millis), and the chain has no lossy step (fallback constant, clamp, saturation): different modification times give different stamps',
        'C12.R7': 'renaming or moving a file affects speed only: a transform result that may depend on the path (no temporary copy: the program gets the path of the file itself) is not cached under the file identifier - hash_transformed passes no key to load_hash / store_hash unless Transform.copy',
        'C12.R6': 'the validation of an entry (same mtime, same length) is only sound if the mtime would change on a later write: HashCache::put does not store an entry while the file is younger than the resolution of its time stamp (a time stamp without a fractional part is taken as 1-2 s coarse) - the store is control-dependent on a comparison of now, the modification time and its sub-second part',
        'C12.R5': 'a cached hash is returned only for a file that can still be opened: on the hit path of hash_file / hash_transformed the file is opened (error propagated) before the cached value is returned - stat() needs no read permission, so without it an unreadable file is reported from the cache while the uncached run warns and leaves it out',
        'C12.R4': 'hash_file / hash_transformed: load_hash and store_hash use the same key and metadata; metadata is captured before hashing; store follows a successful hash and is the last fallible-free step (no Err return after it)',
    },
    'not_decided': 'inode reuse within one millisecond; sled durability; that every content change changes mtime or length (premise)',
    'assumptions': ['typed_sled::Tree keeps entries of different tree ids apart'],
}

HF = "hasher::FileHasher::<'_>::"


@register('C12', DOC)
def run(ctx):
    r1(ctx)
    r2(ctx)
    r3(ctx)
    r4(ctx)
    r5(ctx)
    r6(ctx)
    r7(ctx)
    from .common import run_mandatory
    run_mandatory(ctx, 'C12')


def r1(ctx):
    rule = 'C12.R1'
    lib = ctx.lib
    key = lib.adts.get('cache::Key')
    chunk = lib.adts.get('file::FileChunk')
    if key is None or chunk is None:
        ctx.missing(rule, 'struct cache::Key / file::FileChunk')
        return
    kf = [f for f, _ in key['variants'][0]['fields']]
    cf = [f for f, _ in chunk['variants'][0]['fields']]
    kb = ctx.need_body(rule, 'cache::HashCache::key')
    if kb is not None:
        ag = aggregates(kb, 'cache::Key')
        if ctx.floor(rule, 'Key construction in HashCache::key', len(ag), 1, kb.where()):
            s = ag[0][1]
            used = set()
            src = {}
            for f in kf:
                sl = backslice(kb, [agg_field(s, f)])
                src[f] = sl
                used |= {x for x in sl.field_names() if x in cf}
            id_ok = any(sl.has_call(r'FileMetadata::file_id$') for sl in src.values())
            # `path` is represented by the file id; `file_len` is not a coordinate of the chunk but the expected length of the whole file,
            # which HashCache::get validates against the stored length (C12.R2)
            missing = [f for f in cf if f not in used and f not in ('path', 'file_len')]
            ctx.check(not missing and id_ok, rule, kb.path + '|chunk-fields', kb.where(s['line']), 'the key contains %s of the chunk and the file id (for the path)' % sorted(used), 'chunk field(s) %s do not enter the cache key: hashes of different chunks of one file would be confused' % missing)
            # pos -> chunk_pos, len -> chunk_len (not swapped)
            okm = 'pos' in src.get('chunk_pos', backslice(kb, [])).field_names() and 'len' in src.get('chunk_len', backslice(kb, [])).field_names()
            ctx.check(okm, rule, kb.path + '|mapping', kb.where(s['line']), 'chunk_pos <- chunk.pos, chunk_len <- chunk.len', 'key fields are fed from the wrong chunk fields')
    op = ctx.need_body(rule, 'cache::HashCache::open')
    if op is not None:
        to = op.calls(r'typed_sled::Tree::<K, V>::open$|Tree.*::open$')
        ok = False
        if to:
            sl = backslice(op, [to[0].args[1]])
            pn = {op.local_name(p) for p in sl.params}
            ok = {'transform', 'algorithm'} <= pn
        ctx.check(ok, rule, op.path + '|tree-id', (to[0].where() if to else op.where()), 'tree id = f(algorithm, transform command)', 'the tree id does not depend on both the hash algorithm and the transform')
    nc = ctx.need_body(rule, HF.replace("<'_>::", "<'_>::") + 'new_cached')
    if nc is not None:
        od = nc.calls(r'HashCache::open_default$')
        ok = False
        if od:
            a0, a1 = backslice(nc, [od[0].args[0]]), backslice(nc, [od[0].args[1]])
            cmd = 'command_str' in a0.field_names() or any('command_str' in backslice(lib.body(cp), [0]).field_names() for cp in lib.closures_of(nc.path))
            ok = cmd and any(nc.local_name(p) == 'transform' for p in a0.params) and any(nc.local_name(p) == 'algorithm' for p in a1.params)
            fh = aggregates(nc, 'hasher::FileHasher')
            if fh:
                s = fh[0][1]
                ok = ok and any(nc.local_name(p) == 'algorithm' for p in backslice(nc, [agg_field(s, 'algorithm')]).params) and any(nc.local_name(p) == 'transform' for p in backslice(nc, [agg_field(s, 'transform')]).params)
        ctx.check(ok, rule, nc.path, nc.where(), 'the cache is opened for the hasher\'s own algorithm and transform command', 'the cache is opened with a different algorithm/transform than the hasher uses')
    # fields of Transform that select WHICH stream is hashed (they guard the construction of an Output variant in make_args)
    # are part of what "the transform" is: the cache identity must depend on them
    ma = lib.body('transform::Transform::make_args')
    if ma is None or nc is None:
        ctx.missing(rule, 'Transform::make_args / new_cached')
        return
    selecting = set()
    # ... and the fields that decide what the command is GIVEN as $IN (the file itself or a copy with another name, directory and time stamps)
    for mb in [ma] + [lib.body(cp) for cp in lib.closures_of(ma.path)]:
        for adt in ('transform::Output', 'transform::Input'):
            for bi, st in aggregates(mb, adt):
                for d in mb.dominators()[bi]:
                    t = mb.blocks[d]['term']
                    if t['k'] == 'switch':
                        df = direct_field(mb, t['op'])
                        if df and df[0] not in ('0', '1') and not all(mb.dominates(x, bi) for x in dict.fromkeys(t['tgts']) if mb.blocks[x]['term']['k'] != 'unreach'):
                            selecting.add(df[0])
    ctx.floor(rule, 'Transform fields that select the hashed stream (make_args)', len(selecting), 1, ma.where())
    od = nc.calls(r'HashCache::open_default$')
    covered = set()
    if od:
        a0 = backslice(nc, [od[0].args[0]])
        covered |= set(a0.field_names())
        for c in a0.calls:
            for a in c.args:
                l = op_local(a)
                cp = lib.closure_of_type(nc.local_ty(l)) if l is not None else None
                cb = lib.body(cp) if cp else None
                if cb is not None:
                    for blk in cb.blocks:
                        for st in blk['stmts']:
                            pl = st['rv'].get('p')
                            if pl:
                                covered |= {e[2] for e in pl[1] if isinstance(e, list) and e[0] == 'F'}
                            for o in [st['rv'].get('op')] + list(st['rv'].get('ops') or []):
                                pp = (o.get('c') or o.get('m')) if isinstance(o, dict) else None
                                if pp:
                                    covered |= {e[2] for e in pp[1] if isinstance(e, list) and e[0] == 'F'}
                        t = blk['term']
                        if t['k'] == 'switch':
                            pp = t['op'].get('c') or t['op'].get('m')
                            if pp:
                                covered |= {e[2] for e in pp[1] if isinstance(e, list) and e[0] == 'F'}
                    # ... and the fields read by a method of Transform that the closure asks (e.g. sees_original_path: `copy` and the command)
                    for k in cb.calls(r'^transform::Transform::\w+$'):
                        hb = lib.body(k.path)
                        for y in ([hb] + [lib.body(x) for x in lib.closures_of(hb.path)]) if hb is not None else []:
                            for blk in y.blocks:
                                for st in blk['stmts']:
                                    for pl in rvalue_places(st['rv']):
                                        covered |= {e[2] for e in pl[1] if isinstance(e, list) and e[0] == 'F'}
                                t = blk['term']
                                if t['k'] == 'switch':
                                    pp = t['op'].get('c') or t['op'].get('m')
                                    if pp:
                                        covered |= {e[2] for e in pp[1] if isinstance(e, list) and e[0] == 'F'}
    missing = sorted(selecting - covered)
    ctx.check(not missing, rule, nc.path + '|identity-covers-mode', (od[0].where() if od else nc.where()), 'the cache identity depends on %s' % sorted(selecting | {'command_str'}),
              'Transform.%s decides which stream is hashed or what the command is given as $IN (make_args builds a different Output / Input under it) but is not part of the cache identity (tree id = algorithm + command string): a run with '
              'the flag is served the hashes cached by a run without it - `--cache --transform "sed -i s/x/y/ $IN"` followed by the same with --in-place reports three different files as one group' % ', '.join(missing))


def r6(ctx):
    """An entry is only as good as the time stamp that validates it: put() does not store an entry while the file could still be
    modified without its (coarse) modification time changing."""
    rule = 'C12.R6'
    lib = ctx.lib
    b = ctx.need_body(rule, 'cache::HashCache::put')
    if b is None:
        return
    ins = b.calls(r'::insert$')
    if not ctx.floor(rule, 'insert into the cache tree in HashCache::put', len(ins), 1, b.where()):
        return
    I = ins[0]
    guard = None
    late = False
    for d in b.dominators()[I.bb]:
        t = b.blocks[d]['term']
        if t['k'] != 'switch':
            continue
        sl = backslice(b, [t['op']])
        bodies = [lib.body(c.path) for c in sl.calls if c.path and lib.body(c.path) is not None]
        now_direct = sl.has_call(r'SystemTime::now$|SystemTime::elapsed$|Instant::now$|Utc::now$|Local::now$') or any(x.calls(r'SystemTime::now$|SystemTime::elapsed$') for x in bodies)
        # ... or the time that was recorded when the metadata were read (a getter of FileMetadata; FileMetadata::new reads the clock before it stats)
        fm = lib.body('file::FileMetadata::new')
        rec = [c for c in sl.calls if c.matches(r'^file::FileMetadata::\w+$') and 'SystemTime' in (c.dty if isinstance(c.dty, str) else c.dty())] if fm is not None else []
        now_recorded = False
        if rec:
            clk = fm.calls(r'SystemTime::now$')
            st_ = fm.calls(r'^std::fs::(metadata|symlink_metadata)$|File::metadata$')
            now_recorded = bool(clk and st_) and all(m_.bb in fm.reachable(clk[0].bb) and clk[0].bb not in fm.reachable(m_.bb) for m_ in st_)
        now = now_direct or now_recorded
        mod = sl.has_call(r'Metadata::modified$|FileMetadata::modified$')
        sub = sl.has_call(r'subsec_(nanos|micros|millis)$') or any(x.calls(r'subsec_(nanos|micros|millis)$') for x in bodies)
        if now and mod and sub:
            succ = [x for x in dict.fromkeys(t['tgts']) if b.blocks[x]['term']['k'] != 'unreach']
            skip = [x for x in succ if I.bb not in b.reachable(x) and x != I.bb]
            if skip and 'Err' not in return_variants_from(b, skip[0]):
                guard = d
                late = now_direct
    ctx.check(guard is not None, rule, b.path + '|racy-entries-not-stored', I.where(), 'an entry is not stored while the file is younger than the resolution of its time stamp (whole-second time stamps: 2 s)',
              'put() stores an entry for a file whatever its age: on a file system that keeps whole seconds (ext3, ext4 with 128-byte inodes, HFS+, NFS; FAT: 2 s) a rewrite of the same length within the '
              'same second leaves mtime and length as they were recorded, get() takes the entry for valid and returns the hash of the OLD content - two different files are reported as duplicates '
              '(`group --cache` twice, with a same-length rewrite of one file ~100 ms after the first run) and `remove` deletes the only copy of one content')


    # the entry is also validated by the change time (inode incarnation, C12.R2): on a file system with whole-second time stamps that one is as coarse
    # as the modification time, and an extracted file has an OLD mtime (never racy) and ctime = now: the same test has to be made for the change time
    cguard = None
    CT = r'MetadataExt.*::ctime(_nsec)?$|Metadata::created$|MetadataExt::ctime(_nsec)?$'
    for d in [x for x in b.reachable(0) if I.bb in b.reachable(x)]:     # (it may sit under `if let Some(ctime) = ..`: it need not dominate the store)
        t = b.blocks[d]['term']
        if t['k'] != 'switch' or b.blocks[d]['cleanup']:
            continue
        sl = backslice(b, [t['op']])
        def reads_ct_(path_, depth=3):
            hb_ = lib.body(path_) if path_ else None
            if hb_ is None or depth == 0:
                return False
            return bool(hb_.calls(CT)) or any(reads_ct_(k2.path, depth - 1) for k2 in hb_.calls(r'^cache::\w+$'))
        from ..analysis import closure_calls
        calls_ = list(sl.calls) + closure_calls(lib, b, sl)      # `incarnation_time(f).is_some_and(|t| is_racy(t, ..))`: the test is in the closure
        reads_ct = any(c.matches(CT) for c in calls_) or any(reads_ct_(c.path) for c in calls_ if c.path)
        tests_age = any(lib.body(c.path) is not None and (lib.body(c.path).calls(r'subsec_(nanos|micros|millis)$') or c.path.endswith('is_racy')) for c in calls_ if c.path) or any(c.matches(r'subsec_(nanos|micros|millis)$') for c in calls_)
        if reads_ct and tests_age:
            succ = [x for x in dict.fromkeys(t['tgts']) if b.blocks[x]['term']['k'] != 'unreach']
            skip = [x for x in succ if I.bb not in b.reachable(x) and x != I.bb]
            if skip and 'Err' not in return_variants_from(b, skip[0]):
                cguard = d
    ctx.check(cguard is not None, rule, b.path + '|racy-change-time-not-stored', I.where(), 'an entry is not stored either while the CHANGE time of the file is younger than its resolution',
              'the racy test looks at the modification time only, but an entry is also validated by the change time (the guard against reused inode numbers): on a file system with whole-second time '
              'stamps a file extracted by tar has an old mtime (not racy, stored at once) and ctime = now; deleted and replaced by another extracted file within the same second it gets the same inode '
              'number, mtime, length AND ctime - the cached run reports d/a and d/b (different contents) as duplicates, for ever')
    if guard is not None:
        ctx.check(not late, rule, b.path + '|age-measured-when-the-metadata-were-read', I.where(), 'the age of the file is measured at the time its metadata were read (FileMetadata::new reads the clock before the stat), i.e. before the data',
                  'put() compares the modification time with the clock at the time of the STORE, after the data have been read and hashed: when that takes longer than the 2 s window (large file, slow '
                  'medium, slow hash function, any --transform) the entry is stored although the data were read within the racy second - a same-length rewrite in that second (mtime unchanged on a '
                  'file system with whole-second time stamps) is then served from the cache as the old content: the cached run reports two different 6 MB files as one group')


def r7(ctx):
    """Entries are found by the file identifier: a result that depends on the PATH of the file must not be cached that way."""
    rule = 'C12.R7'
    lib = ctx.lib
    b = ctx.need_body(rule, "hasher::FileHasher::<'_>::hash_transformed")
    if b is None:
        return
    ld = b.calls(r'FileHasher::<.*>::load_hash$|FileHasher.*::load_hash$')
    stc = b.calls(r'FileHasher::<.*>::store_hash$|FileHasher.*::store_hash$')
    if not ctx.floor(rule, 'load_hash / store_hash in hash_transformed', min(len(ld), len(stc)), 1, b.where()):
        return
    def depends_on_copy(call):
        # the key handed to the cache access is None unless `copy`: a filter whose closure reads Transform.copy, or a dominating test of it
        for a in call.args[1:2]:
            sl = backslice(b, [a])
            for k in sl.calls:
                if k.matches(r'Option::<T>::filter$|Option<.*>::filter$|bool::then$|bool::then_some$'):
                    for a2 in k.args:
                        l = op_local(a2)
                        cp = lib.closure_of_type(b.local_ty(l)) if l is not None else None
                        cb = lib.body(cp) if cp else None
                        if cb is not None and any('copy' in place_fields(pl) for blk in cb.blocks for st in blk['stmts'] for pl in rvalue_places(st['rv'])):
                            return True
                        # ... or asks a method of Transform that reads it (sees_original_path)
                        if cb is not None:
                            for k2 in cb.calls(r'^transform::Transform::\w+$'):
                                hb = lib.body(k2.path)
                                if hb is not None and any('copy' in place_fields(pl) for blk in hb.blocks for st in blk['stmts'] for pl in rvalue_places(st['rv'])):
                                    return True
            if 'copy' in sl.field_names():
                return True
        for d in b.dominators()[call.bb]:
            t = b.blocks[d]['term']
            if t['k'] == 'switch':
                df = direct_field(b, t['op'])
                if df and df[0] == 'copy':
                    return True
        return False
    # ... but ONLY then: `copy` alone is also false for every command without $IN (the file is piped to stdin - the documented default), whose result
    # depends on the contents only; the switch has to look at the command as well (Transform::sees_original_path: `$IN` && !copy)
    def by_copy_alone(call):
        for a in call.args[1:2]:
            sl = backslice(b, [a])
            for k in sl.calls:
                if k.matches(r'Option::<T>::filter$|Option<.*>::filter$|bool::then$|bool::then_some$'):
                    for a2 in k.args:
                        l = op_local(a2)
                        cp = lib.closure_of_type(b.local_ty(l)) if l is not None else None
                        cb = lib.body(cp) if cp else None
                        if cb is not None and any('copy' in place_fields(pl) for blk in cb.blocks for st in blk['stmts'] for pl in rvalue_places(st['rv'])) and \
                                not cb.calls(r'^transform::Transform::\w+$'):
                            return True
        return False
    ctx.advise(not by_copy_alone(ld[0]), rule, b.path + '|piped-transforms-are-cached', ld[0].where(), 'the cache is bypassed for transforms that see the original path, not for every transform without a copy',
              'the cache is switched off by `Transform.copy` alone, which is initialised with "the command contains $IN": it is false for every command that reads its standard input '
              '(`--transform "gzip -dc"`, `cat`, ..), so `group --cache --transform <piped command>` never looks anything up nor stores anything - the program is launched for every file in every run')
    ok = depends_on_copy(ld[0]) and all(depends_on_copy(c) for c in stc)
    ctx.check(ok, rule, b.path + '|path-dependent-results-not-cached', ld[0].where(), 'without `copy` (the program gets the path of the file itself) the cache is neither consulted nor filled',
              'hash_transformed looks up and stores the result by (device, inode, chunk) also when the transform runs without a temporary copy: the program is then given the path of the file itself, '
              'its output may depend on that path (`dirname $IN`, `file $IN`, `md5sum $IN`, `exiftool $IN`), and after `mv` the entry is still valid (inode, mtime and length are unchanged): '
              '`group --cache --no-copy --transform ..` serves the output computed for the old path')


def r2(ctx):
    rule = 'C12.R2'
    lib = ctx.lib
    b = ctx.need_body(rule, 'cache::HashCache::get')
    if b is None:
        return
    from ..desugar import desugared
    b = desugared(lib, b)          # `Ok(unchanged.then_some(hit))` is `if unchanged { Some(hit) } else { None }`
    P = b.path
    somes = [(bi, s) for bi, s in aggregates(b, 'option::Option', 'Some') if True]
    # the hit: Some((data_len, hash))
    hits = []
    for bi, s in somes:
        sl = backslice(b, s['rv']['ops'])
        if {'data_len', 'hash'} <= sl.field_names():
            hits.append((bi, s))
    if not ctx.floor(rule, 'cache hit construction Some((data_len, hash))', len(hits), 1, b.where()):
        return
    hbb = hits[0][0]
    need = {'modified_timestamp_ms': False, 'file_len': False}
    from ..analysis import guards_target
    cands = {}
    for cmp in comparisons(b):
        sa, sb = backslice(b, [cmp.a]), backslice(b, [cmp.b])
        for f in list(need):
            a_has, b_has = f in sa.field_names(), f in sb.field_names()
            if a_has == b_has:
                continue
            other = sb if a_has else sa
            cur = other.has_call(r'Metadata::modified$') if f == 'modified_timestamp_ms' else other.has_call(r'Metadata::len$')
            if not cur:
                continue
            key = '%s|%s' % (P, f)
            if cmp.op not in ('==', '!='):
                ctx.violation(rule, key, b.where(cmp.line), 'the cached %s is compared with `%s`: an entry is served although the current value differs (e.g. an older mtime after a restore): stale hash' % (f, cmp.op))
                need[f] = True
                continue
            cands[f] = cmp
    # the key is the file identifier, and identifiers are handed out again as soon as a file is deleted: the entry must also carry something
    # that belongs to THIS incarnation of the inode and that a program cannot set (mtime can be set: tar, rsync -a, cp -p restore it)
    for cmp in comparisons(b):
        sa, sb = backslice(b, [cmp.a]), backslice(b, [cmp.b])
        for cached, cur in ((sa, sb), (sb, sa)):
            cf = cached.field_names() - {'modified_timestamp_ms', 'file_len', 'data_len', 'hash'}
            def reads_incarnation(path_, depth=3):
                hb_ = lib.body(path_) if path_ else None
                if hb_ is None or depth == 0:
                    return False
                if hb_.calls(r'MetadataExt.*::(ctime|ctime_nsec)$|Metadata::created$'):
                    return True
                return any(reads_incarnation(k2.path, depth - 1) for k2 in hb_.calls(r'^cache::\w+$'))
            curc = [k for k in cur.calls if k.matches(r'MetadataExt.*::(ctime|ctime_nsec)$|Metadata::created$|::(ctime|ctime_nsec|btime|created)$') or reads_incarnation(k.path)]
            if cf and curc and cmp.op in ('==', '!='):
                cands['incarnation'] = cmp
    # every way to the hit passes all of these comparisons on their "equal" side (decided path-sensitively: `a != x || b != y => None`,
    # `let unchanged = a == x && b == y; if unchanged {hit}`, early returns - all the same table)
    guarded = guards_target(b, cands, hbb)
    for f in need:
        if f in cands:
            ctx.check(guarded.get(f, False), rule, '%s|%s' % (P, f), b.where(cands[f].line), 'hit only if cached %s == current' % f, 'a hit is possible although %s differs' % f)
            need[f] = True
    for f, seen in need.items():
        if not seen:
            ctx.violation(rule, '%s|%s' % (P, f), b.where(), 'the lookup does not compare the cached %s with the current one' % f)
    inc = cands.get('incarnation') if guarded.get('incarnation') else None
    # ... and that survives what does not change the contents: rename, chmod, chown, link / unlink of another name all update st_ctime - the stamp is the
    # BIRTH time where the file system records one (Metadata::created), the status-change time only as a fallback
    stamp_fns = [x for p_, x in lib.bodies.items() if p_.startswith('cache::') and '{' not in p_ and x.calls(r'MetadataExt.*::(ctime|ctime_nsec)$|Metadata::created$')]
    birth_first = bool(stamp_fns) and all(x.calls(r'Metadata::created$') for x in stamp_fns)
    if birth_first:
        for x in stamp_fns:
            cr = x.calls(r'Metadata::created$')
            ct = x.calls(r'MetadataExt.*::(ctime|ctime_nsec)$')
            # the ctime is read only where created() has failed: not before it, and not on the path where it succeeded
            if ct and not all(c.bb in x.reachable(cr[0].bb) for c in ct):
                birth_first = False
    ctx.advise(birth_first, rule, P + '|renaming-keeps-the-entry', (stamp_fns[0].where() if stamp_fns else b.where()), 'the incarnation stamp is the birth time of the file, the status-change time only where there is none',
              'the entry is validated by the status-change time, which rename(2), chmod, chown and link / unlink of another name update: after `mv t/a t/sub/renamed` every cached hash of the file is '
              'thrown away and the file is read again (8 MB read instead of 0) - the cache is keyed by the inode exactly so that this does not happen (README: "Cached hashes are not invalidated by '
              'file moves"); reorganising a collection between two `group --cache` runs costs a complete re-read')
    ctx.check(inc is not None, rule, P + '|inode-incarnation', (b.where(inc.line) if inc else b.where()), 'hit only if the entry belongs to this incarnation of the inode (status-change / birth time unchanged)',
              'an entry is validated by modification time and length only, but it is found by (device, inode), and a freed inode number is handed out again at once: files created after others were deleted '
              '(`rm -r d; tar xf data.tar e` - tar restores the recorded, often identical, mtimes) are served the hashes of the deleted files of the same length: `group --cache` reports 99 groups of files '
              'that differ where the uncached run reports none')
    # the compared metadata is the parameter (current metadata), the value is the cached entry for `key`
    g = b.calls(r'typed_sled::Tree::<K, V>::get$|Tree.*::get$')
    ok = bool(g) and 2 in backslice(b, [g[0].args[1]]).params
    ctx.check(ok, rule, P + '|lookup-key', (g[0].where() if g else b.where()), 'the entry is looked up under the given key', 'the entry is not looked up under the given key')


LOSSY = ('unwrap_or', 'unwrap_or_default', 'unwrap_or_else', 'saturating_sub', 'saturating_add', 'min', 'max', 'clamp', 'ok', 'unwrap_or_else')


def conv_chain(b, op, _depth=0):
    """names of the time conversions between Metadata::modified and the operand, looking through local helper functions
    (their own chain is inlined, prefixed by the helper name)"""
    sl = backslice(b, [op])
    names = []
    lossy = []
    for c in sl.calls:
        n = c.path.rsplit('::', 1)[-1]
        if n in ('modified', 'duration_since', 'as_millis', 'as_secs', 'as_micros', 'as_nanos', 'unwrap_or', 'subsec_millis', 'subsec_nanos', 'elapsed', 'now', 'duration'):
            names.append(n)
        if n in LOSSY and c.matches(r'Result(::)?<.*>::|Option(::)?<.*>::|Ord::|cmp::|u64|u128|Duration::'):
            lossy.append('%s at %s' % (n, c.where()))
        if c.f.get('local') and _depth < 2 and c.body.unit.body(c.path) is not None and c.body.unit.body(c.path).file == b.file and not c.path.endswith('::modified'):
            hb = c.body.unit.body(c.path)
            sub = conv_chain(hb, {'c': [0, []]}, _depth + 1)
            names.append('%s(%s)' % (n, ','.join(sub[0])))
            lossy.extend(sub[3])
    casts = sorted({s['rv']['ty'] for blk in b.blocks for s in blk['stmts'] if s['rv']['k'] == 'cast' and s['p'][0] in sl.locals and s['rv']['ty'] in ('u64', 'u128', 'i64', 'u32')})
    items = sorted(i for i in sl.items if 'EPOCH' in i or 'ZERO' in i)
    return sorted(names), casts, items, lossy


def r3(ctx):
    rule = 'C12.R3'
    lib = ctx.lib
    p = ctx.need_body(rule, 'cache::HashCache::put')
    g = ctx.need_body(rule, 'cache::HashCache::get')
    if p is None or g is None:
        return
    ag = aggregates(p, 'cache::CachedFileInfo')
    if not ctx.floor(rule, 'CachedFileInfo construction in put', len(ag), 1, p.where()):
        return
    pc = conv_chain(p, agg_field(ag[0][1], 'modified_timestamp_ms'))
    gc = None
    for cmp in comparisons(g):
        for side, other in ((cmp.a, cmp.b), (cmp.b, cmp.a)):
            if 'modified_timestamp_ms' in backslice(g, [side]).field_names() and backslice(g, [other]).has_call(r'Metadata::modified$'):
                gc = conv_chain(g, other)
    ctx.check(gc is not None and not pc[3] and not gc[3], rule, 'cache::HashCache|timestamp-lossless', p.where(),
              'the stored / compared time stamp is an injective function of the modification time (no fallback constant, clamp or saturation in the conversion)',
              'the time stamp that decides whether a cached hash is still valid passes a lossy step (%s): every modification time for which the conversion fails (before 1970: duration_since '
              'returns Err) is stored and compared as the same constant, so a changed file with another such mtime still hits the cache and its stale hash is reported' % '; '.join((pc[3] + (gc[3] if gc else []))[:3]))
    ctx.check(gc is not None and pc[:3] == gc[:3] and 'as_millis' in ' '.join(pc[0]), rule, 'cache::HashCache|timestamp-derivation', p.where(), 'put and get: %s, cast %s, consts %s' % (pc[0], pc[1], pc[2]), 'put derives the time stamp as %s but get as %s' % (pc, gc))
    # put stores the current length and the data length / hash it was given
    s = ag[0][1]
    ok = backslice(p, [agg_field(s, 'file_len')]).has_call(r'FileMetadata::len$') and 4 in backslice(p, [agg_field(s, 'data_len')]).params and 5 in backslice(p, [agg_field(s, 'hash')]).params
    ctx.check(ok, rule, p.path + '|stored-fields', p.where(s['line']), 'put stores file length, data length and hash as given', 'put stores other values than the ones given')
    ins = p.calls(r'Tree.*::insert$')
    ok = bool(ins) and 2 in backslice(p, [ins[0].args[1]]).params
    ctx.check(ok, rule, p.path + '|insert-key', (ins[0].where() if ins else p.where()), 'inserted under the given key', 'not inserted under the given key')


def r4(ctx):
    rule = 'C12.R4'
    lib = ctx.lib
    for fn, hashing in (('hash_file', r'hasher::file_hash$'), ('hash_transformed', r'hasher::stream_hash$|Transform::run$')):
        b = ctx.need_body(rule, HF + fn)
        if b is None:
            continue
        P = b.path
        ld = b.calls(r'FileHasher::<\'_>::load_hash$|::load_hash$')
        st = b.calls(r'FileHasher::<\'_>::store_hash$|::store_hash$')
        hs = b.calls(hashing)
        if not (ld and st and hs):
            ctx.missing(rule, 'load_hash / store_hash / hashing calls in ' + fn, b.where())
            continue
        k1, k2 = base_named_local(b, ld[0].args[1]), base_named_local(b, st[0].args[1])
        m1, m2 = base_named_local(b, ld[0].args[2]), base_named_local(b, st[0].args[2])
        ctx.check(k1 is not None and k1 == k2 and m1 is not None and m1 == m2, rule, P + '|same-key-and-metadata', st[0].where(), 'lookup and store use the same key and metadata', 'the hash is stored under a different key/metadata than it is looked up')
        # metadata captured before the file is read
        mc = []
        for body in [b] + [lib.body(p) for p in lib.closures_of(b.path)]:
            for c in body.calls(r'FileMetadata::new$'):
                mc.append((body, c))
        first_hash = min(hs, key=lambda c: len(b.dominators()[c.bb]))
        ok = bool(mc)
        if ok:
            # the closure computing the metadata is invoked (and_then) before the hashing call
            at = [c for c in b.calls(r'Option(::)?<.*>::and_then$') if m1 in {base_named_local(b, {'c': [c.dest[0], []]}), c.dest[0]} or c.dest[0] in backslice(b, [m1]).locals]
            # ... or, called in the body itself (possibly under the `cache is in use` test), it is never reached from a hashing call
            direct = [c for bd, c in mc if bd is b]
            ok = any(b.dominates(c.bb, first_hash.bb) for c in at) if at else (bool(direct) and not any(c.bb in b.reachable(h.bb) for h in hs for c in direct))
        ctx.check(bool(ok), rule, P + '|metadata-before-read', first_hash.where(), 'metadata (mtime, length) is captured before the data is read', 'metadata is captured after reading: a change during hashing would be cached as current')
        # store only after success: dominated by the Ok edge of the hash result
        sw_ok = False
        # the `?` on the hash result
        tries = [c for c in b.calls(r'as std::ops::Try>::branch$') if b.dominates(c.bb, st[0].bb) and any(h in backslice(b, [c.args[0]]).calls for h in hs)]
        sw_ok = bool(tries)
        ctx.check(sw_ok, rule, P + '|store-after-success', st[0].where(), 'store_hash is reached only after the hash computation succeeded', 'a hash can be stored although the computation failed')
        # ... and nothing that can still fail comes after the store: a value is cached only for a run of the function that returns Ok
        from ..analysis import return_variants_from
        rv_after = return_variants_from(b, st[0].ret) if st[0].ret is not None else set()
        ctx.check('Err' not in rv_after, rule, P + '|store-is-last', st[0].where(), 'after store_hash the function can only return Ok',
                  'store_hash is followed by a step that can still fail (the function can return Err after the value was cached): for --transform the hash of the output is cached before the exit '
                  'status of the command is checked, so the partial output of a failed command is served from the cache by the next run - files on which the transform fails are then reported as duplicates of each other')
        # a hit returns the cached value without hashing
        hit_ret = [bi for bi in b.return_blocks()]
        ok = ld[0].bb in b.dominators()[first_hash.bb]
        ctx.check(ok, rule, P + '|lookup-first', ld[0].where(), 'the cache is consulted before hashing', 'the cache is not consulted before hashing')
        # the stored data length: for hash_file the chunk length, for hash_transformed the transformed length
        dsl = backslice(b, [st[0].args[3]])
        if fn == 'hash_file':
            ctx.check('len' in dsl.field_names(), rule, P + '|data-len', st[0].where(), 'stores chunk.len as data length', 'stores a different data length')
        else:
            ctx.check(any(c in dsl.calls for c in b.calls(r'hasher::stream_hash$')), rule, P + '|data-len', st[0].where(), 'stores the transformed length', 'does not store the transformed length')
    ldb = ctx.need_body(rule, HF + 'load_hash')
    if ldb is not None:
        inner = [lib.body(p) for p in lib.closures_of(ldb.path)]
        ok = any(x.calls(r'HashCache::get$') for x in [ldb] + inner)
        ctx.check(ok, rule, ldb.path, ldb.where(), 'load_hash = cache.get(key, metadata)', 'load_hash does not go through HashCache::get')


def r5(ctx):
    rule = 'C12.R5'
    lib = ctx.lib
    from .common import err_handling
    for fn in ('hash_file', 'hash_transformed'):
        b = ctx.need_body(rule, HF + fn)
        if b is None:
            continue
        ld = b.calls(r"::load_hash$")
        if not ld:
            ctx.missing(rule, 'load_hash in ' + fn, b.where())
            continue
        # the hit edge: Some(..) of load_hash's result
        hit = None
        for (bbx, idx, what) in b.operand_uses(ld[0].dest[0]):
            if what[0] == 'stmt' and what[1]['rv']['k'] == 'disc':
                for (b2, i2, w2) in b.operand_uses(what[1]['p'][0]):
                    if w2[0] == 'switch' and hit is None:      # the first test; later ones are drop-flag reads
                        m = dict(zip(w2[1]['vals'], w2[1]['tgts']))
                        hit = m.get(1, w2[1]['tgts'][-1] if 1 not in m else None)
        if hit is None:
            ctx.missing(rule, 'match on the result of load_hash in ' + fn, ld[0].where())
            continue
        opens = [c for c in b.calls(r'hasher::open_noatime$|hasher::open$|^std::fs::File::open$|OpenOptions::open$') if c.bb == hit or b.dominates(hit, c.bb)]
        good = False
        for o in opens:
            cat, det = err_handling(b, o)
            if cat in ('PROPAGATED', 'RETURNED', 'ERR-RETURNED'):
                good = True
        ctx.check(good, rule, b.path + '|hit-needs-readable-file', (opens[0].where() if opens else ld[0].where()), 'on a cache hit the file is opened first, a failure is returned',
                  'a cache hit returns the stored hash without touching the file: `chmod 000 t/a` (mtime and length unchanged) leaves t/a in the groups of `group --cache`, without a warning, while the uncached '
                  'run reports "Permission denied" and leaves it out')
